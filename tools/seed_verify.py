#!/venv/bin/python
"""Confirm a seeded change and record which checks catch it.

usage: seed_verify.py <seed-dir> [--prop C07] [--needs "..."] [--all-checks]

<seed-dir> holds patch.diff, demo.py (and notes.md).  In a scratch copy of /repo (removed
afterwards) this confirms that (1) the patch applies, (2) the repository's suite still gives the
baseline, (3) demo.py fails with the patch and passes without, and then (4) runs the registered
checks against the patched copy.  Writes <seed-dir>/meta.json.
"""

from __future__ import annotations

import json
import os
import pathlib
import re
import shutil
import subprocess
import sys
import tempfile

BASE_FAIL = 11
BASE_PASS = 114
PROPS = [f"C{i:02d}" for i in range(1, 21)]


def sh(cmd, cwd=None, env=None, timeout=900):
    e = dict(os.environ)
    if env:
        e.update(env)
    p = subprocess.run(cmd, shell=True, cwd=cwd, env=e, capture_output=True, text=True, timeout=timeout)
    out = "\n".join(l for l in (p.stdout + p.stderr).splitlines() if "conda" not in l)
    return p.returncode, out


def main() -> int:
    args = sys.argv[1:]
    seed = pathlib.Path(args[0]).resolve()
    prop = None
    needs = ""
    all_checks = "--all-checks" in args
    if "--prop" in args:
        prop = args[args.index("--prop") + 1]
    if "--needs" in args:
        needs = args[args.index("--needs") + 1]
    if prop is None:
        m_ = re.match(r"(C\d\d)-", seed.name)
        prop = m_.group(1) if m_ else None
    patch = seed / "patch.diff"
    demo = seed / "demo.py"
    tmp = pathlib.Path(tempfile.mkdtemp(prefix="cvseed."))
    if not needs and (seed / "notes.md").exists():
        lines = [l.strip(" -*#") for l in (seed / "notes.md").read_text().splitlines() if l.strip(" -*#")]
        needs = next((re.sub(r"\s+", " ", l) for l in lines if re.search(r"[Nn]eeds|manifest|only shows|[Tt]rigger", l)), "")
    what = ""
    if (seed / "notes.md").exists():
        lines = [l.strip(" -*#") for l in (seed / "notes.md").read_text().splitlines() if l.strip(" -*#")]
        what = next((re.sub(r"\s+", " ", l) for l in lines if re.search(r"[Cc]hange|becomes|replac|now|instead", l)), lines[0] if lines else "")
    meta = {"seed": seed.name, "property": prop, "what": what[:400], "needs_to_manifest": needs[:600]}
    try:
        clean = tmp / "clean"
        mut = tmp / "mut"
        for d in (clean, mut):
            d.mkdir()
            shutil.copytree("/repo/src", d / "src")
            shutil.copytree("/repo/tests", d / "tests")
            for f in ("pyproject.toml", "tox.ini", "README.md"):
                if os.path.exists(f"/repo/{f}"):
                    shutil.copy(f"/repo/{f}", d / f)
        rc, out = sh(f"patch -s -p1 < {patch}", cwd=mut)
        meta["patch_applies"] = rc == 0
        if rc != 0:
            meta["patch_error"] = out[-400:]
            print(f"{seed.name}: PATCH DOES NOT APPLY\n{out[-300:]}")
            return 3
        rc, out = sh("/venv/bin/python -m compileall -q src", cwd=mut)
        meta["compiles"] = rc == 0
        quick = "--no-suite" in args and (seed / "meta.json").exists()
        if quick:
            old = json.loads((seed / "meta.json").read_text())
            for k in ("suite_with_change", "demo_with_change", "demo_without_change"):
                if k in old:
                    meta[k] = old[k]  # confirmed earlier; only the checks are re-run
        # suite
        if not quick:
            rc, out = sh("/venv/bin/python -m pytest -q -p no:cacheprovider --timeout=900 -p no:randomly 2>&1 | tail -40", cwd=mut, env={"PYTHONPATH": str(mut / "src")})
            m = re.search(r"(\d+) failed, (\d+) passed", out)
            failed, passed = (int(m.group(1)), int(m.group(2))) if m else (-1, -1)
            sub = len(re.findall(r"SUBFAILED", out))
            meta["suite_with_change"] = {"failed": failed, "passed": passed, "subfailed": sub, "is_baseline": failed == BASE_FAIL and passed == BASE_PASS and sub == 0}
        # demo
        if demo.exists() and not quick:
            rc_m, out_m = sh(f"/venv/bin/python {demo}", cwd=mut, env={"PYTHONPATH": str(mut / "src")}, timeout=300)
            rc_c, out_c = sh(f"/venv/bin/python {demo}", cwd=clean, env={"PYTHONPATH": str(clean / "src")}, timeout=300)
            meta["demo_with_change"] = {"exit": rc_m, "tail": out_m[-300:]}
            meta["demo_without_change"] = {"exit": rc_c, "tail": out_c[-200:]}
        # checks
        caught = {}
        props = PROPS if (all_checks or prop is None) else [prop]
        for p in props:
            rc, out = sh(f"/venv/bin/python -m curies_verif {p} --no-write", cwd="/verif", env={"CURIES_SRC": str(mut / "src" / "curies")})
            keys = re.findall(r"^  finding (\S+)", out, re.M)
            und = re.findall(r"^ANALYSIS-ERROR property=\S+ obligation=(\S+)", out, re.M)
            if rc != 0:
                caught[p] = {"exit": rc, "findings": keys, "undecided": sorted(set(und))}
        meta["checks_reporting"] = caught
        meta["caught_by_own_property"] = bool(prop and caught.get(prop, {}).get("exit") == 1)
        meta["caught_by_any"] = any(v.get("exit") == 1 for v in caught.values())
        meta["ran"] = [
            "patch -p1 < patch.diff in a scratch copy of /repo",
            "PYTHONPATH=<copy>/src /venv/bin/python -m pytest -q -p no:cacheprovider (baseline = 114 passed / 11 offline failures)",
            "PYTHONPATH=<copy>/src /venv/bin/python demo.py (with and without the patch)",
            "CURIES_SRC=<copy>/src/curies /venv/bin/python -m curies_verif <PROP> --no-write",
        ]
        (seed / "meta.json").write_text(json.dumps(meta, indent=1) + "\n")
        s = meta["suite_with_change"]
        print(
            f"{seed.name}: suite_baseline={s['is_baseline']} ({s['passed']}p/{s['failed']}f/{s['subfailed']}sf) "
            f"demo_mut={meta.get('demo_with_change', {}).get('exit')} demo_clean={meta.get('demo_without_change', {}).get('exit')} "
            f"own={meta['caught_by_own_property']} any={meta['caught_by_any']} reporting={ {k: (v['exit'], v['findings'][:2]) for k, v in caught.items()} }"
        )
        return 0
    finally:
        shutil.rmtree(tmp, ignore_errors=True)


if __name__ == "__main__":
    sys.exit(main())
