#!/venv/bin/python
"""Confirm a behaviour-preserving refactoring and check that no check raises an alarm on it.

usage: refactor_verify.py <dir with patch.diff, demo.py> [--prop C07]
"""
from __future__ import annotations
import json, os, pathlib, re, shutil, subprocess, sys, tempfile

PROPS = [f"C{i:02d}" for i in range(1, 21)]

def sh(cmd, cwd=None, env=None, timeout=900):
    e = dict(os.environ); e.update(env or {})
    p = subprocess.run(cmd, shell=True, cwd=cwd, env=e, capture_output=True, text=True, timeout=timeout)
    return p.returncode, "\n".join(l for l in (p.stdout + p.stderr).splitlines() if "conda" not in l)

def main():
    d = pathlib.Path(sys.argv[1]).resolve()
    prop = sys.argv[sys.argv.index("--prop") + 1] if "--prop" in sys.argv else None
    quick = "--no-suite" in sys.argv
    tmp = pathlib.Path(tempfile.mkdtemp(prefix="cvref."))
    meta = {"refactoring": d.name, "property": prop}
    if quick and (d / "meta.json").exists():
        old = json.loads((d / "meta.json").read_text())
        for k in ("suite", "demo_exit"):
            if k in old:
                meta[k] = old[k]  # confirmed earlier; only the checks are re-run
    try:
        mut = tmp / "mut"; mut.mkdir()
        shutil.copytree("/repo/src", mut / "src"); shutil.copytree("/repo/tests", mut / "tests")
        for f in ("pyproject.toml", "tox.ini", "README.md"):
            if os.path.exists(f"/repo/{f}"): shutil.copy(f"/repo/{f}", mut / f)
        rc, out = sh(f"patch -s -p1 < {d/'patch.diff'}", cwd=mut)
        if rc != 0:
            print(f"{d.name}: PATCH DOES NOT APPLY"); return 3
        if not quick:
            rc, out = sh("/venv/bin/python -m pytest -q -p no:cacheprovider --timeout=900 2>&1 | tail -30", cwd=mut, env={"PYTHONPATH": str(mut / "src")})
            m = re.search(r"(\d+) failed, (\d+) passed", out)
            meta["suite"] = {"failed": int(m.group(1)) if m else -1, "passed": int(m.group(2)) if m else -1, "subfailed": len(re.findall("SUBFAILED", out))}
            if (d / "demo.py").exists():
                rc, out = sh(f"/venv/bin/python {d/'demo.py'}", cwd=mut, env={"PYTHONPATH": str(mut / "src")}, timeout=600)
                meta["demo_exit"] = rc
        alarms = {}
        for p in PROPS:
            rc, out = sh(f"/venv/bin/python -m curies_verif {p} --no-write", cwd="/verif", env={"CURIES_SRC": str(mut / "src" / "curies")})
            if rc != 0:
                alarms[p] = {"exit": rc, "findings": re.findall(r"^  finding (\S+)", out, re.M), "undecided": re.findall(r"^ANALYSIS-ERROR property=\S+ obligation=(\S+) reason=(.*)$", out, re.M)}
        meta["alarms"] = alarms
        (d / "meta.json").write_text(json.dumps(meta, indent=1) + "\n")
        fa = {p: v["findings"] for p, v in alarms.items() if v["exit"] == 1}
        und = {p: [f"{o}: {r[:90]}" for o, r in v["undecided"]] for p, v in alarms.items() if v["exit"] == 2}
        s = meta.get("suite", {})
        print(f"{d.name}: suite={s.get('passed')}p/{s.get('failed')}f demo={meta.get('demo_exit')} FALSE_ALARMS={fa if fa else 'none'} UNDECIDED={und if und else 'none'}")
        return 0
    finally:
        shutil.rmtree(tmp, ignore_errors=True)

if __name__ == "__main__":
    sys.exit(main())
