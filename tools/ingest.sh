#!/bin/bash
# usage: ingest.sh <worktree-root> <seeded|refactors>   -- copy new deliverables into /verif and verify them
root=$1; kind=$2
cd /verif
new=""
for d in $root/*/_out/*; do
  [ -f $d/patch.diff ] || continue
  pid=$(echo $d | sed -E 's#.*/(C[0-9]+)/_out/.*#\1#'); n=$(basename $d)
  id="$pid-$n"
  if [ ! -d /verif/$kind/$id ]; then cp -r $d /verif/$kind/$id; new="$new $id"; fi
done
echo "new:$new"
for id in $new; do echo $id; done | xargs -P 12 -I{} sh -c 'p=$(echo {} | cut -d- -f1); if [ "'$kind'" = seeded ]; then /venv/bin/python tools/seed_verify.py seeded/{} --prop $p --all-checks 2>&1 | grep -v conda; else /venv/bin/python tools/refactor_verify.py refactors/{} --prop $p 2>&1 | grep -v conda; fi' | sort | cut -c1-600
