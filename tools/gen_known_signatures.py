#!/venv/bin/python
"""Record the parameter names of every function of the PINNED tree (run once on the unchanged /repo).

A parameter that is not in this table is new: when it has a constant default and no call in the package passes
it, the analyses read the function with the default in place (the property speaks about the API as pinned; the
non-default values of a new optional keyword are new surface outside it)."""
import json
import pathlib
import sys

sys.path.insert(0, "/verif")
from curies_verif.model import Model  # noqa: E402

m = Model()
out = {q: [p.name for p in f.params] for q, f in sorted(m.functions.items())}
pathlib.Path("/verif/curies_verif/known_signatures.json").write_text(json.dumps(out, indent=0, sort_keys=True))
print(len(out), "signatures")

consts = {name: sorted(mod.constants) for name, mod in sorted(m.modules.items())}
pathlib.Path("/verif/curies_verif/known_constants.json").write_text(json.dumps(consts, indent=0, sort_keys=True))
print(sum(len(v) for v in consts.values()), "module-level constants")

required = {q: [p.name for p in f.params if p.default is None and p.kind in ("pos", "kwonly")] for q, f in sorted(m.functions.items())}
pathlib.Path("/verif/curies_verif/known_required.json").write_text(json.dumps(required, indent=0, sort_keys=True))
print(len(required), "required-parameter lists")
