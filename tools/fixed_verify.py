#!/venv/bin/python
"""Confirm the slip-free twin (fixed.diff) of a seeded change like a refactoring: suite = baseline, the seed's demo
passes, and no check raises an alarm.   usage: fixed_verify.py <seeded dir> [--no-suite]"""
from __future__ import annotations
import json, os, pathlib, re, shutil, subprocess, sys, tempfile

PROPS = [f"C{i:02d}" for i in range(1, 21)]

def sh(cmd, cwd=None, env=None, timeout=1800):
    e = dict(os.environ); e.update(env or {})
    p = subprocess.run(cmd, shell=True, cwd=cwd, env=e, capture_output=True, text=True, timeout=timeout)
    return p.returncode, "\n".join(l for l in (p.stdout + p.stderr).splitlines() if "conda" not in l)

def main():
    d = pathlib.Path(sys.argv[1]).resolve()
    quick = "--no-suite" in sys.argv
    ff = d / "fixed.diff"
    if not ff.exists():
        print(f"{d.name}: no fixed.diff"); return 0
    meta = json.loads((d / "meta.json").read_text()) if (d / "meta.json").exists() else {}
    fx = dict(meta.get("fixed_twin", {})) if quick else {}
    tmp = pathlib.Path(tempfile.mkdtemp(prefix="cvfix."))
    try:
        shutil.copytree("/repo/src", tmp / "src"); shutil.copytree("/repo/tests", tmp / "tests")
        for f in ("pyproject.toml", "tox.ini", "README.md"):
            if os.path.exists(f"/repo/{f}"): shutil.copy(f"/repo/{f}", tmp / f)
        rc, out = sh(f"patch -s -p1 < {ff}", cwd=tmp)
        if rc != 0:
            print(f"{d.name}: fixed.diff DOES NOT APPLY"); return 3
        env = {"PYTHONPATH": str(tmp / "src")}
        if not quick:
            rc, out = sh("/venv/bin/python -m pytest -q -p no:cacheprovider --timeout=900 -p no:randomly 2>&1 | tail -30", cwd=tmp, env=env)
            m = re.search(r"(\d+) failed, (\d+) passed", out)
            fx["suite"] = {"failed": int(m.group(1)) if m else -1, "passed": int(m.group(2)) if m else -1, "subfailed": len(re.findall("SUBFAILED", out))}
            rc, out = sh(f"/venv/bin/python {d/'demo.py'}", cwd=tmp, env=env, timeout=600)
            fx["demo_exit"] = rc
        alarms = {}
        for p in PROPS:
            rc, out = sh(f"/venv/bin/python -m curies_verif {p} --no-write", cwd="/verif", env={"CURIES_SRC": str(tmp / "src" / "curies")})
            if rc != 0:
                alarms[p] = {"exit": rc, "findings": re.findall(r"^  finding (\S+)", out, re.M), "undecided": re.findall(r"^ANALYSIS-ERROR property=\S+ obligation=(\S+) reason=(.*)$", out, re.M)}
        fx["alarms"] = alarms
        meta["fixed_twin"] = fx
        (d / "meta.json").write_text(json.dumps(meta, indent=1) + "\n")
        fe = d / "fixed_expect.json"
        allowed = json.loads(fe.read_text()) if fe.exists() else {}
        fx["expected_reports"] = allowed
        fa = {p: v["findings"] for p, v in alarms.items() if v["exit"] == 1 and p not in allowed}
        und = {p: [f"{o}: {r[:80]}" for o, r in v["undecided"]] for p, v in alarms.items() if v["exit"] == 2}
        s = fx.get("suite", {})
        print(f"{d.name}#fixed: suite={s.get('passed')}p/{s.get('failed')}f demo={fx.get('demo_exit')} FALSE_ALARMS={fa if fa else 'none'} UNDECIDED={und if und else 'none'}")
        return 0
    finally:
        shutil.rmtree(tmp, ignore_errors=True)

if __name__ == "__main__":
    sys.exit(main())
