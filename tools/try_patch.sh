#!/bin/bash
# usage: try_patch.sh <patch.diff> <PROP>...   -- run checks against a scratch copy of /repo with the patch applied
set -u
patch_file=$1; shift
d=$(mktemp -d /tmp/cvscratch.XXXXXX)
trap 'rm -rf "$d"' EXIT
mkdir -p "$d/src" && cp -r /repo/src/curies "$d/src/curies"
(cd "$d" && patch -s -p1 < "$patch_file") || { echo "PATCH-FAILED $patch_file"; exit 3; }
for p in "$@"; do
  CURIES_SRC="$d/src/curies" /venv/bin/python -m curies_verif "$p" --no-write 2>&1 | grep -v -E "conda|^OK " 
  echo "exit[$p]=${PIPESTATUS[0]}"
done
