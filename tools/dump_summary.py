"""Debug aid: print the path summary of a function.  usage: CURIES_SRC=... python tools/dump_summary.py curies.api.Converter.compress"""
import sys

sys.path.insert(0, "/verif")
from curies_verif.model import Model
from curies_verif.report import Cx
from curies_verif.terms import show


def dump(paths, ind=0):
    for i, p in enumerate(paths):
        print(" " * ind + f"path {i}:")
        for ev in p.events:
            a = show(ev.a) if isinstance(ev.a, tuple) else ev.a
            b = show(ev.b) if isinstance(ev.b, tuple) else ev.b
            print(" " * ind + f"  {ev.kind}@{ev.line} {str(a)[:110]} | {str(b)[:110]}")
            if ev.body:
                dump(ev.body, ind + 4)
        o = p.out
        print(" " * ind + f"  -> {o[0] if o else None} {show(o[1])[:120] if o and len(o) > 1 and isinstance(o[1], tuple) else ''}")


cx = Cx(Model(), "quick")
fn = cx.fn(sys.argv[1], "debug")
dump(cx.summary(fn, "debug").paths)
