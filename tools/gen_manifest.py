"""Regenerate /verif/MANIFEST.json from the registered obligations and property metadata."""
import json, pathlib, sys
sys.path.insert(0, str(pathlib.Path(__file__).resolve().parent.parent))
from curies_verif import props  # noqa
from curies_verif.report import META, REGISTRY

ROOT = pathlib.Path(__file__).resolve().parent.parent
props_all = [json.loads(l)["id"] for l in (ROOT / "properties.jsonl").read_text().splitlines() if l.strip()]
TECH = json.loads((ROOT / "tools" / "techniques.json").read_text()) if (ROOT / "tools" / "techniques.json").exists() else {}
NA = json.loads((ROOT / "tools" / "not_applicable.json").read_text()) if (ROOT / "tools" / "not_applicable.json").exists() else {}
checks = []
na = []
for pid in props_all:
    if pid in REGISTRY and pid in META and pid not in NA:
        m = META[pid]
        obs = REGISTRY[pid]
        checks.append({
            "property_id": pid,
            "quick_cmd": f"/venv/bin/python -m curies_verif {pid} --tier quick",
            "thorough_cmd": f"/venv/bin/python -m curies_verif {pid} --tier thorough",
            "evidence_file": f"/verif/evidence/{pid}.json",
            "replay_cmd_template": f"/venv/bin/python -m curies_verif {pid} --replay {{path}}",
            "engine": "curies_verif",
            "level_claimed": {
                "category": m.level,
                "text": m.explanation + " Decides these structural clauses, not the behavioural law itself; obligations: " + ", ".join(o[0] for o in obs) + ".",
                "design_ref": f"DESIGN.md section 3, {pid}",
            },
            "level_note": "Trusted base: " + "; ".join(m.trusted_base) + ". Assumes: " + "; ".join(m.assumptions) + ". Not decided: " + "; ".join(m.undecided_clauses) + ".",
            "technique": TECH.get(pid, "static analysis: ast-based path summaries + repository-specific structural rules"),
        })
    else:
        na.append({"property_id": pid, "reason": NA.get(pid, "check not built yet in this round (work in progress; static rules planned in DESIGN.md section 3)")})
manifest = {
    "version": 1,
    "setup_cmd": "/venv/bin/python -m compileall -q /verif/curies_verif",
    "hooks": {
        "guard": "CURIES_VERIF",
        "enable": "none needed: the checks read /repo/src/curies as source text and never import or run it; CURIES_VERIF is unused",
        "baseline_off_cmd": "cd /repo && /venv/bin/python -m pytest -ra -q -p no:cacheprovider --timeout=900 --continue-on-collection-errors",
        "source_commits": [],
        "add_only": True,
    },
    "engines": [{
        "name": "curies_verif",
        "path": "/verif/curies_verif",
        "serves_properties": [c["property_id"] for c in checks],
        "kind_free_text": "pure-stdlib static analyser over the ast of /repo/src/curies: normalised terms, structured path summaries, provenance/field cover, repository-specific rules (IDX, LOOKUP, FLOW, MODE, OWN, SETALG, ORDER, WRAP, MATRIX, AGREE, RELANG)",
    }],
    "checks": checks,
    "notes": "Exit 0 = all obligations hold; exit 1 + VIOLATION line = a rule instance is broken (file:line, construct, witness); exit 2 + ANALYSIS-ERROR = the analyser could not decide (anchor vanished / unrecognised construct) - never reported as a violation. Known findings: /verif/known_findings.json.",
    "not_applicable": na,
}
(ROOT / "MANIFEST.json").write_text(json.dumps(manifest, indent=1) + "\n")
print(len(checks), "checks;", len(na), "not applicable")
