#!/usr/bin/env python3
"""Rewrite /verif/selftest_known_open.json from the log of a full matrix run (by hand, after reading the log).

usage: /venv/bin/python -m curies_verif.variants > matrix.log; python3 tools/gen_known_open.py matrix.log

Every line `... variant seeded/<id> (breaking): <prop>: seeded change not reported (got {...})` (printed as
ANALYSIS-ERROR for unlisted seeds, as SELFTEST-OPEN for listed ones) becomes an entry.  The checks never write
this file; it is committed together with the DESIGN text that explains each open seed.
"""
import json
import re
import sys

rows = {}
for line in open(sys.argv[1]):
    m = re.search(r"seeded/(\S+?)[: ].*?(C\d+): seeded change not reported \(got (.*)\)\s*$", line)
    if m:
        rows[m.group(1)] = {"property": m.group(2), "own_property_says": "UNDECIDED" if "UNDECIDED" in m.group(3) else "HOLDS"}
old = json.load(open("/verif/selftest_known_open.json"))
old["open"] = rows
json.dump(old, open("/verif/selftest_known_open.json", "w"), indent=1, sort_keys=True)
print(len(rows), "open seeded changes listed")
