"""Rewrite the generated tables of DESIGN.md (seeded changes, refactoring corpus) from the meta.json files."""
import json, pathlib, re
ROOT = pathlib.Path(__file__).resolve().parent.parent

def seeded_table():
    out = ["| seeded change | property | what it is (from the author's notes) | needs to manifest | reported by (obligation:detail) | also reported by |", "|---|---|---|---|---|---|"]
    for d in sorted((ROOT / "seeded").iterdir()):
        mf = d / "meta.json"
        if not mf.exists():
            continue
        m = json.loads(mf.read_text())
        own = m.get("property")
        rep = m.get("checks_reporting", {})
        keys = []
        for k in rep.get(own, {}).get("findings", []):
            k2 = k.split("/", 1)[0] + ":" + k.rsplit("/", 1)[-1]
            if k2 not in keys:
                keys.append(k2)
        others = sorted(p for p in rep if p != own and rep[p].get("exit") == 1)
        notes = (d / "notes.md").read_text() if (d / "notes.md").exists() else ""
        lines = [l.strip(" -*#") for l in notes.splitlines() if l.strip(" -*#")]
        what = next((l for l in lines if re.search(r"[Cc]hange|becomes|replac|now|instead", l)), lines[0] if lines else "")
        need = next((l for l in lines if re.search(r"[Nn]eeds|manifest|only shows|[Tt]rigger", l)), "")
        clean = lambda s: re.sub(r"\s+", " ", s.replace("|", "/"))[:170]
        ok = "yes" if m.get("caught_by_own_property") else "**NO**"
        out.append(f"| `{d.name}` | {own} | {clean(what)} | {clean(need)} | {', '.join(keys[:3]) or ok} | {', '.join(others)} |")
    return "\n".join(out)

def refactor_table():
    rows = {}
    for d in sorted((ROOT / "refactors").iterdir()):
        mf = d / "meta.json"
        if not mf.exists():
            continue
        m = json.loads(mf.read_text())
        al = m.get("alarms", {})
        fa = sorted(p for p, v in al.items() if v.get("exit") == 1)
        un = sorted(p for p, v in al.items() if v.get("exit") == 2)
        rows[d.name] = (fa, un)
    n = len(rows)
    fa = {k: v[0] for k, v in rows.items() if v[0]}
    un = {k: v[1] for k, v in rows.items() if v[1] and not v[0]}
    s = f"{n} refactorings confirmed (suite = baseline, demo passes with and without); **{len(fa)} raise a false alarm**, {len(un)} leave some obligation UNDECIDED (exit 2), {n - len(fa) - len(un)} are fully decided as HOLDS.\n\n"
    if fa:
        s += "False alarms: " + ", ".join(f"`{k}` ({'/'.join(v)})" for k, v in fa.items()) + "\n\n"
    if un:
        s += "Undecided: " + ", ".join(f"`{k}` ({'/'.join(v)})" for k, v in un.items()) + "\n"
    return s

def main():
    p = ROOT / "DESIGN.md"
    t = p.read_text()
    for tag, fn in (("SEEDED-TABLE", seeded_table), ("REFACTOR-TABLE", refactor_table)):
        b, e = f"<!-- {tag}-BEGIN -->", f"<!-- {tag}-END -->"
        if b in t and e in t:
            t = t[: t.index(b) + len(b)] + "\n" + fn() + "\n" + t[t.index(e):]
    p.write_text(t)

if __name__ == "__main__":
    main()
