#!/bin/bash
# Re-run every recorded seeded change, "done right" twin and refactoring against the current checks and rewrite
# their meta files, then the DESIGN tables, the manifest and the evidence.  ~15 min on 16 cores.
cd /verif
ls seeded | xargs -P 14 -I{} sh -c '/venv/bin/python tools/seed_verify.py seeded/{} --all-checks --no-suite 2>&1 | grep -v conda' | sort > /tmp/w/seedv_refresh.log
ls seeded | while read d; do [ -f seeded/$d/fixed.diff ] && echo $d; done | xargs -P 14 -I{} sh -c '/venv/bin/python tools/fixed_verify.py seeded/{} --no-suite 2>&1 | grep -v conda' | sort > /tmp/w/fixedv_refresh.log
ls refactors | xargs -P 14 -I{} sh -c 'p=$(echo {} | cut -d- -f1); /venv/bin/python tools/refactor_verify.py refactors/{} --prop $p --no-suite 2>&1 | grep -v conda' | sort > /tmp/w/refv_refresh.log
/venv/bin/python tools/gen_design_tables.py
/venv/bin/python tools/gen_manifest.py
for i in $(seq -w 1 20); do /venv/bin/python -m curies_verif C$i > /dev/null 2>&1 || echo "C$i exit $?"; done
echo refresh-finished
