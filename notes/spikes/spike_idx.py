"""Spike: index-table agreement (IDX): write sites of the five tables with key/value field roles."""
import ast, sys, pathlib
SRC = pathlib.Path(sys.argv[1] if len(sys.argv) > 1 else "/repo/src/curies")
tree = ast.parse((SRC / "api.py").read_text())
TABLES = ["prefix_map", "synonym_to_prefix", "reverse_prefix_map", "trie", "pattern_map"]
funcs = {}; conv = None
for n in tree.body:
    if isinstance(n, ast.FunctionDef): funcs[n.name] = n
    if isinstance(n, ast.ClassDef) and n.name == "Converter":
        conv = n
        for m in n.body:
            if isinstance(m, ast.FunctionDef): funcs["Converter." + m.name] = m

def role(e, env):
    """field role of an expression: ('field', name) | ('elem', listfield) | None; env maps loop vars -> roles / record vars"""
    if isinstance(e, ast.Name): return env.get(e.id)
    if isinstance(e, ast.Attribute) and isinstance(e.value, ast.Name) and env.get(e.value.id) == ("record",):
        return ("field", e.attr)
    return None

def dict_entries(stmts, env, guards, target_of, out):
    """collect (table, key-role, value-role, guards) from stores  T[k] = v  in a block; target_of maps AST store base -> table name"""
    for st in stmts:
        if isinstance(st, ast.For):
            env2 = dict(env)
            it = role(st.iter, env)
            if isinstance(st.target, ast.Name):
                if it and it[0] == "field": env2[st.target.id] = ("elem", it[1])
                elif it == ("records",): env2[st.target.id] = ("record",)
            dict_entries(st.body, env2, guards, target_of, out)
        elif isinstance(st, ast.If):
            dict_entries(st.body, env, guards + [ast.unparse(st.test)], target_of, out)
            dict_entries(st.orelse, env, guards + ["not (" + ast.unparse(st.test) + ")"], target_of, out)
        elif isinstance(st, ast.Assign) and isinstance(st.targets[0], ast.Subscript):
            t = target_of(st.targets[0].value)
            if t: out.append((t, role(st.targets[0].slice, env), role(st.value, env), tuple(guards), st.lineno))

# constructor path: self.T = helper(records) | StringTrie(self.other)
init = funcs["Converter.__init__"]
ctor = []
for st in ast.walk(init):
    if isinstance(st, ast.Assign) and isinstance(st.targets[0], ast.Attribute) and isinstance(st.targets[0].value, ast.Name) and st.targets[0].value.id == "self" and st.targets[0].attr in TABLES:
        T = st.targets[0].attr; v = st.value
        if isinstance(v, ast.Call) and isinstance(v.func, ast.Name) and v.func.id in funcs:
            h = funcs[v.func.id]; rec_param = h.args.args[0].arg
            ents = []
            # loop form
            dict_entries(h.body, {rec_param: ("records",)}, [], lambda b: T if isinstance(b, ast.Name) else None, ents)
            # comprehension form: return {k: v for record in records if cond}
            for r in ast.walk(h):
                if isinstance(r, ast.Return) and isinstance(r.value, ast.DictComp):
                    dc = r.value; env = {rec_param: ("records",)}
                    for g in dc.generators:
                        if role(g.iter, env) == ("records",): env[g.target.id] = ("record",)
                    ents.append((T, role(dc.key, env), role(dc.value, env), tuple(ast.unparse(c) for g in dc.generators for c in g.ifs), r.lineno))
            ctor += ents
        elif isinstance(v, ast.Call) and ast.unparse(v.func) == "StringTrie" and isinstance(v.args[0], ast.Attribute):
            ctor.append((T, "same-as", v.args[0].attr, (), st.lineno))
idx = []
ix = funcs["Converter._index"]
dict_entries(ix.body, {ix.args.args[1].arg: ("record",)}, [], lambda b: b.attr if isinstance(b, ast.Attribute) and isinstance(b.value, ast.Name) and b.value.id == "self" and b.attr in TABLES else None, idx)
def norm(ents):
    out = {}
    for T, k, v, g, ln in ents:
        out.setdefault(T, set()).add((k, v, bool(g)))
    return out
c, i = norm(ctor), norm(idx)
for T, k, v, g, ln in ctor:
    if k == "same-as": c[T] = c[v]
SPEC = {"prefix_map": {(("field","prefix"),("field","uri_prefix"),False), (("elem","prefix_synonyms"),("field","uri_prefix"),False)},
        "synonym_to_prefix": {(("field","prefix"),("field","prefix"),False), (("elem","prefix_synonyms"),("field","prefix"),False)},
        "reverse_prefix_map": {(("field","uri_prefix"),("field","prefix"),False), (("elem","uri_prefix_synonyms"),("field","prefix"),False)},
        "trie": {(("field","uri_prefix"),("field","prefix"),False), (("elem","uri_prefix_synonyms"),("field","prefix"),False)},
        "pattern_map": {(("field","prefix"),("field","pattern"),True)}}
for T in TABLES:
    print(T, "ctor==spec", c.get(T) == SPEC[T], "index==spec", i.get(T) == SPEC[T], "sibling agree", c.get(T) == i.get(T))
    if c.get(T) != SPEC[T] or i.get(T) != SPEC[T]: print("   ctor", c.get(T)); print("   idx ", i.get(T))
