"""Spike: mode-sensitive may-raise / return-kind analysis for the 14 C08 functions."""
import ast, sys, pathlib, itertools
SRC = pathlib.Path(sys.argv[1] if len(sys.argv) > 1 else "/repo/src/curies")
tree = ast.parse((SRC / "api.py").read_text())
FLAGS = ("strict", "passthrough", "return_none")
funcs = {}; classes = {}
for n in tree.body:
    if isinstance(n, ast.FunctionDef): funcs[n.name] = n
    if isinstance(n, ast.ClassDef):
        classes[n.name] = [ast.unparse(b) for b in n.bases]
        for m in n.body:
            if isinstance(m, ast.FunctionDef) and not any(ast.unparse(d) == "overload" for d in m.decorator_list):
                funcs[f"{n.name}.{m.name}"] = m
BUILTIN_BASES = {"KeyError": ["LookupError"], "LookupError": ["Exception"], "ValueError": ["Exception"], "TypeError": ["Exception"], "NotImplementedError": ["RuntimeError"], "RuntimeError": ["Exception"], "Exception": []}
def mro(c):
    out = [c]
    for b in classes.get(c, BUILTIN_BASES.get(c, [])): out += mro(b)
    return out
def is_sub(c, d): return d in mro(c)
EXTERNAL_RAISERS = {"self.trie.longest_prefix_item": {"KeyError"}}

def flag_val(test, env):
    if isinstance(test, ast.Name) and test.id in env: return env[test.id]
    if isinstance(test, ast.UnaryOp) and isinstance(test.op, ast.Not):
        v = flag_val(test.operand, env); return None if v is None else (not v)
    return None

class R:
    def __init__(s): s.raises = set(); s.returns = set(); s.falls = True
memo = {}
def analyse(qual, env_items, stack=()):
    key = (qual, env_items)
    if key in memo: return memo[key]
    if qual in stack: return (frozenset(), frozenset())
    fn = funcs[qual]; env = dict(env_items)
    params = [a.arg for a in fn.args.posonlyargs + fn.args.args + fn.args.kwonlyargs]
    cls = qual.split(".")[0] if "." in qual else None
    def resolve(call):
        f = call.func
        if isinstance(f, ast.Attribute) and isinstance(f.value, ast.Name) and f.value.id == "self" and cls and f"{cls}.{f.attr}" in funcs: return f"{cls}.{f.attr}"
        if isinstance(f, ast.Name) and f.id in funcs: return f.id
        return None
    def call_effects(expr, handlers_ctx):
        out = set()
        for c in [x for x in ast.walk(expr) if isinstance(x, ast.Call)]:
            txt = ast.unparse(c.func)
            if txt in EXTERNAL_RAISERS: out |= EXTERNAL_RAISERS[txt]
            q = resolve(c)
            if q is None: continue
            callee = funcs[q]
            cparams = [a.arg for a in callee.args.posonlyargs + callee.args.args + callee.args.kwonlyargs]
            defaults = {}
            pos = callee.args.posonlyargs + callee.args.args
            for a, d in zip(pos[len(pos) - len(callee.args.defaults):], callee.args.defaults): defaults[a.arg] = d
            for a, d in zip(callee.args.kwonlyargs, callee.args.kw_defaults):
                if d is not None: defaults[a.arg] = d
            cenv = {}
            for fl in FLAGS:
                if fl not in cparams: continue
                val = None; given = None
                for k in c.keywords:
                    if k.arg == fl: given = k.value
                if given is None: given = defaults.get(fl)
                if isinstance(given, ast.Constant) and isinstance(given.value, bool): val = given.value
                elif isinstance(given, ast.Name) and given.id in env: val = env[given.id]
                cenv[fl] = val
            # unknown flags -> both values
            unk = [f for f, v in cenv.items() if v is None]
            for combo in itertools.product([True, False], repeat=len(unk)):
                e2 = dict(cenv); e2.update(dict(zip(unk, combo)))
                rs, _ = analyse(q, tuple(sorted(e2.items())), stack + (qual,))
                out |= rs
        return out
    def block(stmts, caught):
        r = R()
        for st in stmts:
            if not r.falls: break
            sr = stmt(st, caught)
            r.raises |= sr.raises; r.returns |= sr.returns; r.falls = sr.falls
        return r
    def stmt(st, caught):
        r = R()
        if isinstance(st, ast.Return):
            if st.value is not None: r.raises |= call_effects(st.value, caught)
            v = st.value
            if v is None or (isinstance(v, ast.Constant) and v.value is None) or (isinstance(v, ast.Tuple) and all(isinstance(e, ast.Constant) and e.value is None for e in v.elts)): kind = "NONE"
            elif isinstance(v, ast.Name) and v.id in params: kind = f"PARAM:{v.id}"
            else: kind = "VALUE"
            r.returns.add((kind, st.lineno)); r.falls = False; return r
        if isinstance(st, ast.Raise):
            if st.exc is None: r.raises |= set(caught)
            else:
                e = st.exc.func if isinstance(st.exc, ast.Call) else st.exc
                r.raises.add(ast.unparse(e))
            r.falls = False; return r
        if isinstance(st, ast.If):
            r.raises |= call_effects(st.test, caught)
            v = flag_val(st.test, env)
            branches = []
            if v is not False: branches.append(block(st.body, caught))
            if v is not True: branches.append(block(st.orelse, caught))
            r.falls = any(b.falls for b in branches)
            for b in branches: r.raises |= b.raises; r.returns |= b.returns
            return r
        if isinstance(st, ast.Try):
            body = block(st.body, caught)
            r.returns |= body.returns; falls = body.falls
            remaining = set()
            for exc in body.raises:
                handled = False
                for h in st.handlers:
                    types = [ast.unparse(t) for t in (h.type.elts if isinstance(h.type, ast.Tuple) else [h.type])] if h.type else ["BaseException"]
                    if any(is_sub(exc, t) or t == "BaseException" for t in types):
                        hb = block(h.body, [exc]); r.raises |= hb.raises; r.returns |= hb.returns; falls = falls or hb.falls; handled = True; break
                if not handled: remaining.add(exc)
            r.raises |= remaining
            if st.orelse and body.falls:
                ob = block(st.orelse, caught); r.raises |= ob.raises; r.returns |= ob.returns; falls = ob.falls or any(True for _ in ())
                falls = ob.falls
            r.falls = falls; return r
        if isinstance(st, (ast.For, ast.While)):
            r.raises |= call_effects(st.iter if isinstance(st, ast.For) else st.test, caught)
            b = block(st.body, caught); r.raises |= b.raises; r.returns |= b.returns; r.falls = True; return r
        if isinstance(st, ast.With):
            for it in st.items: r.raises |= call_effects(it.context_expr, caught)
            b = block(st.body, caught); r.raises |= b.raises; r.returns |= b.returns; r.falls = b.falls; return r
        for child in ast.iter_child_nodes(st):
            if isinstance(child, ast.expr): r.raises |= call_effects(child, caught)
        return r
    res = block(fn.body, [])
    rets = set(res.returns)
    if res.falls: rets.add(("NONE", fn.end_lineno))
    memo[key] = (frozenset(res.raises), frozenset(rets))
    return memo[key]

TARGETS = ["compress", "expand", "compress_or_standardize", "expand_or_standardize", "standardize_prefix", "standardize_curie", "standardize_uri", "expand_pair", "expand_reference", "expand_all", "expand_pair_all", "parse", "parse_uri", "parse_curie"]
ALLOWED = {c for c in classes if is_sub(c, "ValueError")}
for name in TARGETS:
    q = f"Converter.{name}"; fn = funcs[q]
    ps = [a.arg for a in fn.args.args + fn.args.kwonlyargs]
    fl = [f for f in FLAGS if f in ps]
    for combo in itertools.product([False, True], repeat=len(fl)):
        env = dict(zip(fl, combo))
        raises, rets = analyse(q, tuple(sorted(env.items())))
        verdict = []
        if not env.get("strict"):
            if raises: verdict.append(f"VIOLATED D1 raises {sorted(raises)}")
        else:
            bad = sorted(r for r in raises if r not in ALLOWED)
            if bad: verdict.append(f"VIOLATED D2 foreign {bad}")
            if any(k == "NONE" for k, _ in rets): verdict.append("VIOLATED D3 return None under strict")
        if env.get("passthrough") and not env.get("strict") and any(k == "NONE" for k, _ in rets): verdict.append("VIOLATED D3 None under passthrough")
        print(f"{name:26s} {env} raises={sorted(raises)} returns={sorted({k for k,_ in rets})} {'; '.join(verdict) or 'ok'}")
