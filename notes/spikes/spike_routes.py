"""Spike: C17 route-template languages for Flask (werkzeug) and FastAPI (starlette)."""
import ast, re, sys, pathlib
from spike_relang import *
import spike_relang as R
SRC = pathlib.Path(sys.argv[1] if len(sys.argv) > 1 else "/repo/src/curies")
tree = ast.parse((SRC / "resolver_service.py").read_text())
# extract the two route f-strings: decorator calls .route(...) / .get(...)
templates = {}
for fn in ast.walk(tree):
    if isinstance(fn, ast.FunctionDef):
        for d in fn.decorator_list:
            if isinstance(d, ast.Call) and isinstance(d.func, ast.Attribute) and d.func.attr in ("route", "get") and d.args and isinstance(d.args[0], ast.JoinedStr):
                parts = []
                for v in d.args[0].values:
                    if isinstance(v, ast.Constant): parts.append(("lit", v.value))
                    else: parts.append(("delim", ast.unparse(v.value)))
                templates["flask" if d.func.attr == "route" else "fastapi"] = parts
WERKZEUG = {None: "[^/]+", "default": "[^/]+", "string": "[^/]+", "path": "[^/].*?"}
STARLETTE = {None: "[^/]+", "str": "[^/]+", "path": ".*"}
def to_regex(framework, parts, d):
    s = "".join(v if k == "lit" else d for k, v in parts)
    out = ""; groups = []
    if framework == "flask":
        pos = 0
        for m in re.finditer(r"<(?:(\w+):)?(\w+)>", s):
            out += re.escape(s[pos:m.start()]) + "(" + WERKZEUG[m.group(1)] + ")"; groups.append((m.group(2), WERKZEUG[m.group(1)])); pos = m.end()
        out += re.escape(s[pos:])
    else:
        pos = 0
        for m in re.finditer(r"\{(\w+)(?::(\w+))?\}", s):
            out += re.escape(s[pos:m.start()]) + "(" + STARLETTE[m.group(2)] + ")"; groups.append((m.group(1), STARLETTE[m.group(2)])); pos = m.end()
        out += re.escape(s[pos:])
    return out, groups
for d in (":", "/"):
    atoms = [lambda c: c == 47, lambda c: c == 10] + [lambda c, v=ord(ch): c == v for ch in d]
    alpha = Alphabet(atoms)
    dl = re.escape(d)
    # required language: / P d I ; P nonempty, no '/', no d ; I = seg(/seg)*, seg nonempty without '/'
    notd = "[^/\\n%s]" % dl if d != "/" else "[^/\\n]"
    required = match_language(f"/{notd}+{dl}[^/\\n]+(?:/[^/\\n]+)*", "fullmatch", alpha)
    for fw, parts in templates.items():
        rx, groups = to_regex(fw, parts, d)
        lang = match_language(rx, "fullmatch", alpha)
        missing = witness(product(required, lang, lambda a, b: a and not b))
        pg = match_language(groups[0][1], "fullmatch", alpha)
        hasd = witness(product(pg, match_language(f"(?:.|\\n)*{dl}(?:.|\\n)*", "fullmatch", alpha), lambda a, b: a and b))
        print(f"d={d!r} {fw:8s} regex={rx!r:40s} D1 required⊆route: {'HOLDS' if missing is None else 'VIOLATED e.g. ' + repr(to_str(alpha, missing))} | prefix group may contain delimiter: {'no' if hasd is None else 'yes e.g. ' + repr(to_str(alpha, hasd))}")
