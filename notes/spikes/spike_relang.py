"""Spike: regex -> automaton with match/fullmatch semantics, equivalence with witness."""
import re, re._parser as P, re._constants as C, itertools, time

# ---- alphabet partition -------------------------------------------------------------
class Alphabet:
    def __init__(self, atoms):
        # atoms: list of predicates on code points
        self.atoms = atoms
        sig = {}
        for c in range(0x110000):
            s = tuple(a(c) for a in atoms)
            if s not in sig:
                sig[s] = c
        self.classes = list(sig.items())  # (signature, representative)
        self.n = len(self.classes)
    def classes_of(self, pred):
        return frozenset(i for i, (s, rep) in enumerate(self.classes) if pred(rep))

def cat_pred(cat):
    if cat == C.CATEGORY_SPACE: return lambda c: chr(c).isspace()
    if cat == C.CATEGORY_NOT_SPACE: return lambda c: not chr(c).isspace()
    if cat == C.CATEGORY_DIGIT: return lambda c: chr(c).isdecimal()
    if cat == C.CATEGORY_WORD: return lambda c: chr(c).isalnum() or c == 95
    raise NotImplementedError(cat)

def set_pred(items):
    neg = False; preds = []
    for op, av in items:
        if op == C.NEGATE: neg = True
        elif op == C.LITERAL: preds.append(lambda c, v=av: c == v)
        elif op == C.RANGE: preds.append(lambda c, lo=av[0], hi=av[1]: lo <= c <= hi)
        elif op == C.CATEGORY: preds.append(cat_pred(av))
        else: raise NotImplementedError(op)
    return (lambda c: not any(p(c) for p in preds)) if neg else (lambda c: any(p(c) for p in preds))

def atom_preds(tree, out):
    for op, av in tree:
        if op == C.LITERAL: out.append(lambda c, v=av: c == v)
        elif op == C.NOT_LITERAL: out.append(lambda c, v=av: c == v)
        elif op == C.IN:
            for o2, a2 in av:
                if o2 == C.LITERAL: out.append(lambda c, v=a2: c == v)
                elif o2 == C.RANGE: out.append(lambda c, lo=a2[0], hi=a2[1]: lo <= c <= hi)
                elif o2 == C.CATEGORY: out.append(cat_pred(a2))
        elif op == C.ANY: out.append(lambda c: c == 10)
        elif op in (C.MAX_REPEAT, C.MIN_REPEAT): atom_preds(av[2], out)
        elif op == C.SUBPATTERN: atom_preds(av[3], out)
        elif op == C.BRANCH:
            for b in av[1]: atom_preds(b, out)
        elif op == C.AT: out.append(lambda c: c == 10)

# ---- DFA as (start, accepting set, trans dict[(state, cls)] -> state), total ---------
class DFA:
    def __init__(self, n_cls, start, acc, trans, nstates):
        self.k = n_cls; self.start = start; self.acc = acc; self.t = trans; self.n = nstates

def nfa_to_dfa(k, start_set, eps, delta, accepting):
    def closure(S):
        st = list(S); S = set(S)
        while st:
            q = st.pop()
            for r in eps.get(q, ()):
                if r not in S: S.add(r); st.append(r)
        return frozenset(S)
    s0 = closure(start_set); ids = {s0: 0}; todo = [s0]; trans = {}; acc = set()
    while todo:
        S = todo.pop(); i = ids[S]
        if S & accepting: acc.add(i)
        for c in range(k):
            T = set()
            for q in S:
                for (cls, r) in delta.get(q, ()):
                    if c in cls: T.add(r)
            T = closure(T)
            if T not in ids: ids[T] = len(ids); todo.append(T)
            trans[(i, c)] = ids[T]
    return DFA(k, 0, acc, trans, len(ids))

def product(a, b, op):
    ids = {(a.start, b.start): 0}; todo = [(a.start, b.start)]; trans = {}; acc = set()
    while todo:
        p = todo.pop(); i = ids[p]
        if op(p[0] in a.acc, p[1] in b.acc): acc.add(i)
        for c in range(a.k):
            q = (a.t[(p[0], c)], b.t[(p[1], c)])
            if q not in ids: ids[q] = len(ids); todo.append(q)
            trans[(i, c)] = ids[q]
    return DFA(a.k, 0, acc, trans, len(ids))

def witness(d):
    """shortest accepted word (list of class ids) or None"""
    from collections import deque
    prev = {d.start: None}; dq = deque([d.start])
    while dq:
        q = dq.popleft()
        if q in d.acc:
            w = []
            while prev[q] is not None: q0, c = prev[q]; w.append(c); q = q0
            return w[::-1]
        for c in range(d.k):
            r = d.t[(q, c)]
            if r not in prev: prev[r] = (q, c); dq.append(r)
    return None

# ---- regex compile: continuation-passing over a growing eps-NFA ---------------------
class Builder:
    def __init__(self, alpha):
        self.alpha = alpha; self.eps = {}; self.delta = {}; self.n = 0
    def new(self):
        self.n += 1; return self.n - 1
    def e(self, a, b): self.eps.setdefault(a, []).append(b)
    def d(self, a, cls, b): self.delta.setdefault(a, []).append((cls, b))
    def lang_dfa(self, start, accepting):
        return nfa_to_dfa(self.alpha.n, {start}, self.eps, self.delta, accepting)
    def embed(self, dfa):
        """embed DFA as NFA fragment; returns (start, set of accepting states)"""
        base = [self.new() for _ in range(dfa.n)]
        for (q, c), r in dfa.t.items(): self.d(base[q], frozenset([c]), base[r])
        return base[dfa.start], {base[q] for q in dfa.acc}

def compile_seq(B, seq, k, ACC, at_start):
    """return start state of NFA for seq followed by continuation state k (ACC = accepting set)."""
    seq = list(seq)
    cur = k
    for idx in range(len(seq) - 1, -1, -1):
        op, av = seq[idx]
        first = at_start and idx == 0
        cur = compile_item(B, op, av, cur, ACC, first)
    return cur

def compile_item(B, op, av, k, ACC, at_start):
    A = B.alpha
    if op == C.LITERAL:
        s = B.new(); B.d(s, A.classes_of(lambda c: c == av), k); return s
    if op == C.NOT_LITERAL:
        s = B.new(); B.d(s, A.classes_of(lambda c: c != av), k); return s
    if op == C.ANY:
        s = B.new(); B.d(s, A.classes_of(lambda c: c != 10), k); return s
    if op == C.IN:
        s = B.new(); B.d(s, A.classes_of(set_pred(av)), k); return s
    if op == C.SUBPATTERN:
        return compile_seq(B, av[3], k, ACC, at_start)
    if op == C.BRANCH:
        s = B.new()
        for br in av[1]: B.e(s, compile_seq(B, br, k, ACC, at_start))
        return s
    if op in (C.MAX_REPEAT, C.MIN_REPEAT):
        lo, hi, body = av
        cur = k
        if hi == C.MAXREPEAT:
            loop = B.new(); B.e(loop, k)
            B.e(loop, compile_seq(B, body, loop, ACC, False))
            cur = loop
        else:
            for _ in range(hi - lo):
                opt = B.new(); B.e(opt, k); B.e(opt, compile_seq(B, body, cur, ACC, False)); cur = opt
        for _ in range(lo):
            cur = compile_seq(B, body, cur, ACC, False)
        return cur
    if op == C.AT:
        if av in (C.AT_BEGINNING, C.AT_BEGINNING_STRING):
            if not at_start: raise NotImplementedError("^ not at start")
            return k
        if av in (C.AT_END, C.AT_END_STRING):
            # language of continuation, intersected with {eps} or {eps, "\n"}
            kd = B.lang_dfa(k, ACC)
            nl = A.classes_of(lambda c: c == 10)
            # build DFA for allowed lookahead
            # states: 0 start(acc), 1 after nl (acc if AT_END), 2 dead
            t = {}
            for c in range(A.n):
                t[(0, c)] = 1 if (c in nl and av == C.AT_END) else 2
                t[(1, c)] = 2; t[(2, c)] = 2
            la = DFA(A.n, 0, {0, 1} if av == C.AT_END else {0}, t, 3)
            inter = product(kd, la, lambda x, y: x and y)
            s, acc = B.embed(inter)
            ACC |= acc
            return s
    raise NotImplementedError(op)

def match_language(pattern, method, alpha):
    B = Builder(alpha); ACC = set()
    k = B.new(); ACC.add(k)
    if method in ("match", "search"):
        B.d(k, frozenset(range(alpha.n)), k)  # free suffix
    tree = P.parse(pattern)
    s = compile_seq(B, tree, k, ACC, True)
    if method == "search":
        pre = B.new(); B.d(pre, frozenset(range(alpha.n)), pre); B.e(pre, s); s = pre
    return B.lang_dfa(s, ACC)

def to_str(alpha, w): return "".join(chr(alpha.classes[c][1]) for c in w)

if __name__ == "__main__":
    NCNAME = r"[A-Za-z_][A-Za-z0-9\.\-_]*"
    LUID = r"(/[^\s/][^\s]*|[^\s/][^\s]*|[^\s]?)"
    t0 = time.time()
    atoms = []
    for pat in (f"^{NCNAME}$", LUID): atom_preds(P.parse(pat), atoms)
    atoms += [lambda c: c == 58, lambda c: c == 91, lambda c: c == 93, lambda c: chr(c).isspace(), lambda c: c == 10, lambda c: c==47]
    alpha = Alphabet(atoms)
    print("classes", alpha.n, "t", round(time.time() - t0, 2))
    spec_prefix = match_language(r"[A-Za-z_][A-Za-z0-9._\-]*", "fullmatch", alpha)
    for method in ("match", "fullmatch"):
        d = match_language(f"^{NCNAME}$", method, alpha)
        diff = product(d, spec_prefix, lambda x, y: x != y)
        w = witness(diff)
        print("NCNAME", method, "states", d.n, "witness", None if w is None else repr(to_str(alpha, w)))
    # REF spec: whitespace-free, not starting with //
    spec_ref = match_language(r"(?:[^\s/][^\s]*|/(?:[^\s/][^\s]*)?)?", "fullmatch", alpha)
    for method in ("match", "fullmatch"):
        d = match_language(LUID, method, alpha)
        w = witness(product(d, spec_ref, lambda x, y: x != y))
        print("LUID", method, "states", d.n, "witness", None if w is None else repr(to_str(alpha, w)))
    # model validation vs re on short strings
    reps = [chr(r) for s, r in alpha.classes]
    bad = 0; n = 0
    for pat, meth in ((f"^{NCNAME}$", "match"), (f"^{NCNAME}$", "fullmatch"), (LUID, "match"), (LUID, "fullmatch")):
        d = match_language(pat, meth, alpha); rx = re.compile(pat)
        for L in range(0, 4):
            for tup in itertools.product(range(alpha.n), repeat=L):
                s = "".join(reps[c] for c in tup); q = d.start
                for c in tup: q = d.t[(q, c)]
                n += 1
                if (q in d.acc) != bool(getattr(rx, meth)(s)): bad += 1; print("MODEL MISMATCH", pat, meth, repr(s))
    print("validated", n, "mismatches", bad, "t", round(time.time() - t0, 2))
