"""Spike: string-language abstract interpreter for w3c predicates, on top of spike_relang."""
import ast, sys, pathlib, re._parser as P
from spike_relang import *

SRC = pathlib.Path(sys.argv[1] if len(sys.argv) > 1 else "/repo/src/curies")
mod = ast.parse((SRC / "w3c.py").read_text())

# ---- constant folding ---------------------------------------------------------------
consts = {}; regexes = {}
def fold(e):
    if isinstance(e, ast.Constant) and isinstance(e.value, str): return e.value
    if isinstance(e, ast.Name) and e.id in consts: return consts[e.id]
    if isinstance(e, ast.JoinedStr):
        out = ""
        for v in e.values:
            if isinstance(v, ast.Constant): out += v.value
            elif isinstance(v, ast.FormattedValue) and v.conversion == -1 and v.format_spec is None:
                s = fold(v.value)
                if s is None: return None
                out += s
            else: return None
        return out
    if isinstance(e, ast.BinOp) and isinstance(e.op, ast.Add):
        a, b = fold(e.left), fold(e.right); return None if a is None or b is None else a + b
    return None
funcs = {}
for st in mod.body:
    if isinstance(st, ast.Assign) and len(st.targets) == 1 and isinstance(st.targets[0], ast.Name):
        s = fold(st.value)
        if s is not None: consts[st.targets[0].id] = s
        v = st.value
        if isinstance(v, ast.Call) and ast.unparse(v.func) == "re.compile" and len(v.args) == 1 and not v.keywords:
            p = fold(v.args[0])
            if p is not None: regexes[st.targets[0].id] = p
    if isinstance(st, ast.FunctionDef): funcs[st.name] = st

# ---- alphabet -----------------------------------------------------------------------
atoms = []
for p in regexes.values(): atom_preds(P.parse(p), atoms)
for ch in ":[]/\n": atoms.append(lambda c, v=ord(ch): c == v)
atoms.append(lambda c: chr(c).isspace())
alpha = Alphabet(atoms); K = alpha.n
ALL = frozenset(range(K))
def cls(pred): return alpha.classes_of(pred)

def from_regex(p, method="fullmatch"): return match_language(p, method, alpha)
def complement(d): return DFA(d.k, d.start, set(range(d.n)) - set(d.acc), d.t, d.n)
def inter(a, b): return product(a, b, lambda x, y: x and y)
def union(a, b): return product(a, b, lambda x, y: x or y)
def concat(*ds):
    B = Builder(alpha); end = B.new(); acc = {end}; start = end
    for d in reversed(ds):
        s, a = B.embed(d)
        for q in a: B.e(q, start)
        start = s
    return B.lang_dfa(start, acc)
def sym(classes):
    t = {}
    for c in range(K): t[(0, c)] = 1 if c in classes else 2; t[(1, c)] = 2; t[(2, c)] = 2
    return DFA(K, 0, {1}, t, 3)
def star(classes):
    t = {}
    for c in range(K): t[(0, c)] = 0 if c in classes else 1; t[(1, c)] = 1
    return DFA(K, 0, {0}, t, 2)
EMPTY = DFA(K, 0, set(), {(0, c): 0 for c in range(K)}, 1)
SIGMA_STAR = star(ALL)
EPS = inter(star(frozenset()), SIGMA_STAR)
def accepts_eps(d): return d.start in d.acc
def contains(lit):
    assert len(lit) == 1
    return concat(SIGMA_STAR, sym(cls(lambda c: c == ord(lit))), SIGMA_STAR)
def free_of(lit): return complement(contains(lit))
WS = cls(lambda c: chr(c).isspace())
BLANK = star(WS)
NONEMPTY = complement(EPS)

def lift(L, view):
    kind = view[0]
    if kind == "whole": return L
    d = view[1]; D = sym(cls(lambda c: c == ord(d))); NOD = free_of(d)
    if kind == "head":   # head of partition
        return concat(inter(L, NOD), union(EPS, concat(D, SIGMA_STAR)))
    if kind == "tail":
        r = concat(NOD, D, L)
        return union(r, NOD) if accepts_eps(L) else r
    if kind == "sep":
        # sep is d if present else ""
        q = L.start
        for c in range(K):
            if c in cls(lambda x: x == ord(d)): qd = L.t[(L.start, c)]
        has_d = qd in L.acc
        r = contains(d) if has_d else EMPTY
        return union(r, NOD) if accepts_eps(L) else r
    raise NotImplementedError(view)

memo = {}
def lang_true(fname):
    if fname in memo: return memo[fname]
    fn = funcs[fname]
    param = fn.args.args[0].arg
    views = {param: ("whole",)}
    def L(e):
        """language (over the parameter) of inputs for which e is truthy"""
        if isinstance(e, ast.Constant): return SIGMA_STAR if e.value else EMPTY
        if isinstance(e, ast.Name) and e.id in views: return lift(NONEMPTY, views[e.id])
        if isinstance(e, ast.UnaryOp) and isinstance(e.op, ast.Not): return complement(L(e.operand))
        if isinstance(e, ast.BoolOp):
            ls = [L(v) for v in e.values]; r = ls[0]
            for x in ls[1:]: r = inter(r, x) if isinstance(e.op, ast.And) else union(r, x)
            return r
        if isinstance(e, ast.Compare) and len(e.ops) == 1 and isinstance(e.ops[0], (ast.In, ast.NotIn)) and isinstance(e.left, ast.Constant) and isinstance(e.comparators[0], ast.Name):
            r = lift(contains(e.left.value), views[e.comparators[0].id])
            return complement(r) if isinstance(e.ops[0], ast.NotIn) else r
        if isinstance(e, ast.Call):
            f = e.func
            if isinstance(f, ast.Name) and f.id == "bool" and len(e.args) == 1: return L(e.args[0])
            if isinstance(f, ast.Name) and f.id in funcs and len(e.args) == 1 and isinstance(e.args[0], ast.Name):
                return lift(lang_true(f.id), views[e.args[0].id])
            if isinstance(f, ast.Attribute) and isinstance(f.value, ast.Name) and f.value.id in regexes and f.attr in ("match", "fullmatch", "search") and isinstance(e.args[0], ast.Name):
                return lift(from_regex(regexes[f.value.id], f.attr), views[e.args[0].id])
            if isinstance(f, ast.Attribute) and f.attr == "strip" and not e.args and isinstance(f.value, ast.Name):
                return lift(complement(BLANK), views[f.value.id])
        raise NotImplementedError(ast.unparse(e))
    def block(stmts, pc):
        res = EMPTY
        for st in stmts:
            if isinstance(st, ast.Expr) and isinstance(st.value, ast.Constant): continue
            if isinstance(st, ast.Return):
                return union(res, inter(pc, L(st.value))), EMPTY
            if isinstance(st, ast.If):
                c = L(st.test)
                r1, p1 = block(st.body, inter(pc, c)); r2, p2 = block(st.orelse, inter(pc, complement(c)))
                res = union(res, union(r1, r2)); pc = union(p1, p2); continue
            if isinstance(st, ast.Assign) and isinstance(st.targets[0], ast.Tuple) and isinstance(st.value, ast.Call) and isinstance(st.value.func, ast.Attribute) and st.value.func.attr == "partition":
                src = st.value.func.value; d = st.value.args[0].value
                assert isinstance(src, ast.Name) and views[src.id] == ("whole",)
                for tgt, kind in zip(st.targets[0].elts, ("head", "sep", "tail")): views[tgt.id] = (kind, d)
                continue
            raise NotImplementedError(ast.unparse(st))
        return res, pc
    res, _ = block(fn.body, SIGMA_STAR)
    memo[fname] = res
    return res

# ---- spec ---------------------------------------------------------------------------
PREFIX = from_regex(r"[A-Za-z_][A-Za-z0-9._\-]*")
NOWS = star(ALL - WS)
SL = sym(cls(lambda c: c == 47))
REF = inter(NOWS, complement(concat(SL, SL, SIGMA_STAR)))
NOCOL = free_of(":"); COL = sym(cls(lambda c: c == 58))
CURIE = inter(inter(free_of("["), free_of("]")), inter(complement(BLANK),
        union(concat(inter(union(EPS, PREFIX), NOCOL), COL, REF), inter(NOCOL, REF))))
for fname, spec in (("is_w3c_prefix", PREFIX), ("_is_w3c_luid", REF), ("is_w3c_curie", CURIE)):
    d = lang_true(fname)
    only_code = witness(inter(d, complement(spec))); only_spec = witness(inter(spec, complement(d)))
    print(fname, "states", d.n, "| accepted by code only:", None if only_code is None else repr(to_str(alpha, only_code)),
          "| accepted by spec only:", None if only_spec is None else repr(to_str(alpha, only_spec)))
