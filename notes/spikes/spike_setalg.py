"""Spike: SETALG — information preservation of record-field updates in reconciliation.py (C11-D1, C12-D1)."""
import ast, sys, pathlib, itertools
SRC = pathlib.Path(sys.argv[1] if len(sys.argv) > 1 else "/repo/src/curies")
tree = ast.parse((SRC / "reconciliation.py").read_text())
funcs = {n.name: n for n in tree.body if isinstance(n, ast.FunctionDef)}

def paths(stmts):
    """enumerate acyclic paths through a block as lists of (kind, node): kind in guard+/guard-/stmt; stops at continue/return"""
    if not stmts: return [[]]
    st, rest = stmts[0], stmts[1:]
    if isinstance(st, ast.If):
        out = []
        for pol, body in (("+", st.body), ("-", st.orelse)):
            for p in paths(body):
                if p and p[-1][0] == "stop": out.append([("guard" + pol, st.test)] + p)
                else:
                    for q in paths(rest): out.append([("guard" + pol, st.test)] + p + q)
        return out
    if isinstance(st, (ast.Continue, ast.Return, ast.Raise)): return [[("stop", st)]]
    return [[("stmt", st)] + q for q in paths(rest)]

def setexpr(e, state, rec):
    """translate AST to set term over atoms; state maps field -> term"""
    if isinstance(e, ast.Call):
        f = e.func
        if isinstance(f, ast.Name) and f.id in ("sorted", "set", "list", "frozenset") and len(e.args) == 1: return setexpr(e.args[0], state, rec)
        if isinstance(f, ast.Attribute) and f.attr in ("union", "difference"):
            a = setexpr(f.value, state, rec); b = setexpr(e.args[0], state, rec)
            return ("or", a, b) if f.attr == "union" else ("diff", a, b)
    if isinstance(e, ast.BinOp) and isinstance(e.op, (ast.BitOr, ast.Sub)):
        a, b = setexpr(e.left, state, rec), setexpr(e.right, state, rec)
        return ("or", a, b) if isinstance(e.op, ast.BitOr) else ("diff", a, b)
    if isinstance(e, ast.Set):
        t = ("empty",)
        for el in e.elts: t = ("or", t, ("single", scalar(el, state, rec)))
        return t
    if isinstance(e, ast.Attribute) and isinstance(e.value, ast.Name) and e.value.id == rec and e.attr.endswith("synonyms"): return state[e.attr]
    raise NotImplementedError(ast.unparse(e))
def scalar(e, state, rec):
    if isinstance(e, ast.Attribute) and isinstance(e.value, ast.Name) and e.value.id == rec: return state[e.attr]
    if isinstance(e, ast.Name): return ("atom", e.id)
    raise NotImplementedError(ast.unparse(e))
def member(t, asg):
    k = t[0]
    if k == "empty": return False
    if k == "base": return asg["in_" + t[1]]
    if k == "single": return asg["is_" + t[1][1]]
    if k == "or": return member(t[1], asg) or member(t[2], asg)
    if k == "diff": return member(t[1], asg) and not member(t[2], asg)
    raise ValueError(t)
def atoms(t, out):
    if t[0] == "base": out.add("in_" + t[1])
    elif t[0] == "single": out.add("is_" + t[1][1])
    elif t[0] in ("or", "diff"): atoms(t[1], out); atoms(t[2], out)
    return out

def analyse(fname, canon, syn, loopvar_hint=None):
    fn = funcs[fname]
    loop = next(n for n in fn.body if isinstance(n, ast.For))
    rec = "record"
    for i, p in enumerate(paths(loop.body)):
        state = {canon: ("atom", "c0"), syn: ("base", "S")}
        before = ("or", state[syn], ("single", state[canon]))
        stores = []
        guards = []
        for kind, node in p:
            if kind.startswith("guard"): guards.append(("" if kind.endswith("+") else "not ") + ast.unparse(node)[:60].replace("\n", " "))
            if kind == "stmt" and isinstance(node, ast.Assign) and isinstance(node.targets[0], ast.Attribute) and isinstance(node.targets[0].value, ast.Name) and node.targets[0].value.id == rec:
                fld = node.targets[0].attr; stores.append(fld)
                if fld == syn: state[syn] = setexpr(node.value, state, rec)
                elif fld == canon: state[canon] = scalar(node.value, state, rec)
                else: print(f"   FRAME VIOLATION: store to {fld}")
        if not stores:
            print(f"  path {i}: no stores [{' & '.join(guards)}]"); continue
        after = ("or", state[syn], ("single", state[canon]))
        vs = sorted(atoms(before, set()) | atoms(after, set()))
        lost = []; gained = []
        for bits in itertools.product([False, True], repeat=len(vs)):
            asg = dict(zip(vs, bits))
            if asg.get("in_S") and asg.get("is_c0"): continue       # model invariant: canonical not among its synonyms
            b, a = member(before, asg), member(after, asg)
            if b and not a: lost.append({k for k, v in asg.items() if v})
            if a and not b: gained.append({k for k, v in asg.items() if v})
        lost_min = [l for l in lost if not any(m < l for m in lost)]
        print(f"  path {i}: stores={stores} canonical_after={state[canon][1]} lost={lost_min or 'nothing'} gained_only={sorted({tuple(sorted(g)) for g in gained if not any(m < g for m in gained)})} [{' & '.join(guards)}]")

for f, canon, syn in (("remap_curie_prefixes", "prefix", "prefix_synonyms"), ("remap_uri_prefixes", "uri_prefix", "uri_prefix_synonyms"), ("rewire", "uri_prefix", "uri_prefix_synonyms")):
    print(f); analyse(f, canon, syn)
