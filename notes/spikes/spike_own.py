"""Spike: ownership/escape analysis for Record objects in converter-derivation functions."""
import ast, sys, pathlib
SRC = pathlib.Path(sys.argv[1] if len(sys.argv) > 1 else "/repo/src/curies")
mods = {p.relative_to(SRC).as_posix(): ast.parse(p.read_text()) for p in SRC.rglob("*.py")}

def ann_mentions_converter(a):
    return a is not None and "Converter" in ast.unparse(a)

MUTATORS = {"append", "extend", "insert", "remove", "pop", "clear", "sort", "reverse", "update", "add", "discard", "setdefault"}
DEEP = {"model_copy": lambda call: any(k.arg == "deep" and isinstance(k.value, ast.Constant) and k.value.value is True for k in call.keywords),
        "deepcopy": lambda call: True}
CAPTURING_CALLS = {"Converter", "cls", "add_record"}   # constructor / add_record capture Record arguments
CONV_MUTATORS = {"add_record", "add_prefix", "_index", "_merge"}

class Own(ast.NodeVisitor):
    def __init__(self, fn, conv_params, qual):
        self.fn = fn; self.qual = qual
        self.tag = {p: ("CONV", p) for p in conv_params}   # var -> tag
        self.findings = []
    # ---- tag evaluation of expressions -------------------------------------------
    def t(self, e):
        """return tag: None (irrelevant), ("CONV",p), ("B",p) borrowed record, ("CB",p) container of borrowed, ("F",) fresh"""
        if isinstance(e, ast.Name): return self.tag.get(e.id)
        if isinstance(e, ast.Attribute):
            b = self.t(e.value)
            if b and b[0] == "CONV" and e.attr == "records": return ("CB", b[1])
            if b and b[0] == "B": return ("BF", b[1], e.attr)    # field of borrowed record
            return None
        if isinstance(e, ast.Call):
            f = e.func
            if isinstance(f, ast.Attribute):
                if f.attr in DEEP and DEEP[f.attr](e): return ("F",)
                if f.attr == "model_copy": 
                    b = self.t(f.value); return ("S", b[1]) if b and b[0] == "B" else None
                b = self.t(f.value)
                if b and b[0] == "CONV" and f.attr == "get_record": return ("B", b[1])
                if b and b[0] == "CB" and f.attr in ("pop", "get"): return ("B", b[1])
                if b and b[0] == "CB" and f.attr in ("values", "copy"): return b
                return None
            if isinstance(f, ast.Name):
                if f.id in ("sorted", "list", "tuple", "iter", "reversed") and e.args: 
                    b = self.t(e.args[0]); return b if b and b[0] == "CB" else None
                if f.id == "next" and e.args:
                    b = self.t(e.args[0]); return ("B", b[1]) if b and b[0] == "CB" else None
                if f.id == "Converter":
                    return ("CONV", "<fresh>")
                if f.id == "Record": return ("F",)
            return None
        if isinstance(e, (ast.List, ast.Tuple, ast.Set)):
            for el in e.elts:
                x = self.t(el.value if isinstance(el, ast.Starred) else el)
                if x and x[0] in ("B", "CB", "S"): return ("CB", x[1])
            return None
        if isinstance(e, (ast.ListComp, ast.SetComp, ast.GeneratorExp, ast.DictComp)):
            saved = dict(self.tag)
            for g in e.generators: self.bind_iter(g.target, g.iter)
            el = e.value if isinstance(e, ast.DictComp) else e.elt
            x = self.t(el); self.tag = saved
            return ("CB", x[1]) if x and x[0] in ("B", "S") else None
        if isinstance(e, ast.Subscript):
            b = self.t(e.value); return ("B", b[1]) if b and b[0] == "CB" else None
        if isinstance(e, ast.IfExp):
            return self.t(e.body) or self.t(e.orelse)
        return None
    def bind_iter(self, target, it):
        b = self.t(it)
        if b and b[0] == "CB" and isinstance(target, ast.Name): self.tag[target.id] = ("B", b[1])
        elif b and b[0] == "CONV" and isinstance(target, ast.Name): self.tag[target.id] = b   # for converter in converters
        elif isinstance(target, ast.Name): self.tag.pop(target.id, None)
    # ---- statements ---------------------------------------------------------------
    def visit_For(self, n):
        self.bind_iter(n.target, n.iter); self.generic_visit(n)
    def visit_Assign(self, n):
        self.visit(n.value)
        for tg in n.targets: self.store(tg, n.value, n)
    def visit_AugAssign(self, n):
        self.store(n.target, n.value, n)
    def store(self, tg, value, n):
        if isinstance(tg, ast.Name):
            x = self.t(value)
            if x: self.tag[tg.id] = x
            else: self.tag.pop(tg.id, None)
        elif isinstance(tg, ast.Attribute):
            b = self.t(tg.value)
            if b and b[0] == "B": self.findings.append(("D1 store to field of borrowed record", f"{ast.unparse(tg)} (record of `{b[1]}`)", n.lineno))
            if b and b[0] == "CONV" and b[1] != "<fresh>": self.findings.append(("D3 store through converter parameter", ast.unparse(tg), n.lineno))
        elif isinstance(tg, ast.Subscript):
            b = self.t(tg.value)
            if b and b[0] in ("BF",): self.findings.append(("D1 item store on field of borrowed record", ast.unparse(tg), n.lineno))
        elif isinstance(tg, (ast.Tuple, ast.List)):
            for el in tg.elts: self.store(el, ast.Constant(None), n)
    def visit_Call(self, n):
        f = n.func
        if isinstance(f, ast.Attribute):
            b = self.t(f.value)
            if f.attr in MUTATORS and b and b[0] == "BF":
                self.findings.append(("D1 in-place mutation of field of borrowed record", ast.unparse(n), n.lineno))
            if f.attr in CONV_MUTATORS and b and b[0] == "CONV" and b[1] != "<fresh>":
                self.findings.append(("D3 mutator called on converter parameter", ast.unparse(n), n.lineno))
        name = f.attr if isinstance(f, ast.Attribute) else getattr(f, "id", None)
        if name in CAPTURING_CALLS:
            owner = self.t(f.value) if isinstance(f, ast.Attribute) else None
            for a in list(n.args) + [k.value for k in n.keywords]:
                x = self.t(a)
                if x and x[0] in ("B", "CB", "S") and not (owner and owner[0] == "CONV" and owner[1] == x[1]):
                    self.findings.append(("D2 borrowed record captured by another converter", f"{ast.unparse(n)[:70]} (records of `{x[1]}`)", n.lineno))
        self.generic_visit(n)

for modname, tree in mods.items():
    for node in ast.walk(tree):
        if isinstance(node, (ast.FunctionDef,)):
            args = node.args.posonlyargs + node.args.args + node.args.kwonlyargs
            conv = [a.arg for a in args if ann_mentions_converter(a.annotation)]
            # methods of Converter returning Converter: self is a converter too
            if node.returns is not None and "Converter" in ast.unparse(node.returns) and args and args[0].arg == "self":
                conv.append("self")
            if not conv: continue
            o = Own(node, conv, f"{modname}:{node.name}")
            for st in node.body: o.visit(st)
            print(f"{modname}:{node.name} conv_params={conv} findings={len(o.findings)}")
            for fnd in o.findings: print("    ", fnd)
