"""Spike: FLOW — string-transformation must/may dataflow with function summaries.
   Checks C18-D3 (strip before table lookup) and C14-D4 (escape before Turtle literal)."""
import ast, sys, pathlib
SRC = pathlib.Path(sys.argv[1] if len(sys.argv) > 1 else "/repo/src/curies")
ALL = frozenset(["<const>"])          # marker: constants satisfy every must-requirement

class S:   # abstract string
    def __init__(s, origin, must, may): s.origin, s.must, s.may = origin, frozenset(must), frozenset(may)
    def op(s, name): return S(s.origin, s.must | {name}, s.may | {name})
    def __repr__(s): return f"S({s.origin}, must={sorted(s.must)}, may={sorted(s.may)})"
CONST = S("<const>", ALL, ())
class Elem:
    def __init__(s, av): s.av = av
    def __repr__(s): return f"Elem({s.av})"
class Tup:
    def __init__(s, items): s.items = items
    def __repr__(s): return f"Tup{s.items}"
class DictAV:
    def __init__(s, k, v): s.k, s.v = k, v
TOP = None
def join(a, b):
    if a is None: return b
    if b is None: return a
    if isinstance(a, S) and isinstance(b, S):
        if "<const>" in a.must: return S(b.origin, b.must, a.may | b.may) if "<const>" not in b.must else a
        if "<const>" in b.must: return S(a.origin, a.must, a.may | b.may)
        return S(a.origin if a.origin == b.origin else "?", a.must & b.must, a.may | b.may)
    if isinstance(a, Elem) and isinstance(b, Elem): return Elem(join(a.av, b.av))
    if isinstance(a, Tup) and isinstance(b, Tup) and len(a.items) == len(b.items): return Tup([join(x, y) for x, y in zip(a.items, b.items)])
    return TOP
STR_OPS = {"strip", "lstrip", "rstrip", "lower", "upper", "casefold", "replace", "removeprefix", "removesuffix"}
SPLITS = {"split", "rsplit", "partition", "rpartition"}

class Flow:
    def __init__(self, tree):
        self.funcs = {n.name: n for n in ast.walk(tree) if isinstance(n, ast.FunctionDef)}
        self.summ = {}; self.sinks = []; self.seps = []
    def summary(self, name, args):
        fn = self.funcs[name]; env = {}
        for p, a in zip([x.arg for x in fn.args.args], args): env[p.arg if hasattr(p, "arg") else p] = a
        for p in fn.args.args:
            env.setdefault(p.arg, S(p.arg, (), ()))
        self.ret = getattr(self, "ret", [])
        saved = self.ret; self.ret = []
        self.block(fn.body, env, name)
        out = None
        for r in self.ret: out = join(out, r)
        self.ret = saved
        return out
    def ev(self, e, env, fn):
        if isinstance(e, ast.Constant): return CONST if isinstance(e.value, str) else TOP
        if isinstance(e, ast.Name): return env.get(e.id, TOP)
        if isinstance(e, ast.JoinedStr): return TOP
        if isinstance(e, ast.Tuple): return Tup([self.ev(x, env, fn) for x in e.elts])
        if isinstance(e, ast.GeneratorExp) or isinstance(e, ast.ListComp):
            env2 = dict(env)
            for g in e.generators: self.bind(g.target, self.elem(self.ev(g.iter, env2, fn)), env2)
            return Elem(self.ev(e.elt, env2, fn))
        if isinstance(e, ast.Subscript):
            b = self.ev(e.value, env, fn)
            if isinstance(b, Elem): return b.av
            if isinstance(b, Tup) and isinstance(e.slice, ast.Constant): return b.items[e.slice.value]
            return TOP
        if isinstance(e, ast.Call):
            f = e.func
            if isinstance(f, ast.Attribute):
                recv = self.ev(f.value, env, fn)
                if f.attr in STR_OPS and isinstance(recv, S):
                    tag = f.attr
                    if f.attr == "replace": tag = "replace(%s)" % ",".join(ast.unparse(a) for a in e.args)
                    return recv.op(tag)
                if f.attr in SPLITS and isinstance(recv, S):
                    if e.args and isinstance(e.args[0], ast.Constant): self.seps.append((fn, e.args[0].value, e.lineno))
                    piece = recv.op("split")
                    return Tup([piece, piece, piece]) if "partition" in f.attr else Elem(piece)
                if f.attr == "get" and isinstance(f.value, ast.Name) and f.value.id.isupper():
                    self.sinks.append((fn, f.value.id, self.ev(e.args[0], env, fn), e.lineno))
                    return join(CONST, self.ev(e.args[1], env, fn) if len(e.args) > 1 else TOP)
                return TOP
            if isinstance(f, ast.Name):
                if f.id in self.funcs: return self.summary(f.id, [self.ev(a, env, fn) for a in e.args])
                if f.id == "dict" and e.args:
                    a = self.ev(e.args[0], env, fn)
                    if isinstance(a, Elem) and isinstance(a.av, Tup): return DictAV(a.av.items[0], a.av.items[1])
                if f.id in ("sorted", "list", "tuple", "set", "reversed") and e.args:
                    a = self.ev(e.args[0], env, fn)
                    return Elem(a.k) if isinstance(a, DictAV) else a
            return TOP
        if isinstance(e, ast.Compare) and isinstance(e.ops[0], (ast.In, ast.NotIn)) and isinstance(e.comparators[0], ast.Name) and e.comparators[0].id.isupper():
            self.sinks.append((fn, e.comparators[0].id, self.ev(e.left, env, fn), e.lineno))
        if isinstance(e, ast.Compare) and isinstance(e.ops[0], (ast.In, ast.NotIn)) and isinstance(e.left, ast.Constant) and isinstance(e.left.value, str):
            self.seps.append((fn, e.left.value, e.lineno))
        return TOP
    def elem(self, av):
        if isinstance(av, Elem): return av.av
        if isinstance(av, DictAV): return av.k
        return TOP
    def bind(self, target, av, env):
        if isinstance(target, ast.Name): env[target.id] = av
        elif isinstance(target, (ast.Tuple, ast.List)):
            for i, t in enumerate(target.elts):
                if isinstance(av, Tup) and not any(isinstance(x, ast.Starred) for x in target.elts): self.bind(t, av.items[i], env)
                elif isinstance(av, Elem):
                    if isinstance(t, ast.Starred): self.bind(t.value, Elem(av.av), env)
                    else: self.bind(t, av.av, env)
                else: self.bind(t.value if isinstance(t, ast.Starred) else t, TOP, env)
    def block(self, stmts, env, fn):
        for st in stmts:
            if isinstance(st, ast.Assign):
                v = self.ev(st.value, env, fn)
                for t in st.targets: self.bind(t, v, env)
            elif isinstance(st, ast.Return):
                self.ret.append(self.ev(st.value, env, fn) if st.value else TOP)
            elif isinstance(st, ast.If):
                self.ev(st.test, env, fn)
                e1, e2 = dict(env), dict(env)
                self.block(st.body, e1, fn); self.block(st.orelse, e2, fn)
                for k in set(e1) | set(e2): env[k] = join(e1.get(k), e2.get(k)) if k in e1 and k in e2 else TOP
            elif isinstance(st, ast.For):
                self.bind(st.target, self.elem(self.ev(st.iter, env, fn)), env)
                self.block(st.body, env, fn)
            elif isinstance(st, ast.Expr): self.ev(st.value, env, fn)

tree = ast.parse((SRC / "mapping_service/utils.py").read_text())
F = Flow(tree)
F.summary("handle_header", [S("header", (), ())])
print("== C18-D3 sinks (table lookups keyed by header-derived tokens)")
for fn, table, av, ln in F.sinks:
    if isinstance(av, S) and av.origin != "<const>":
        ok = "strip" in av.must
        print(f"  {fn}:{ln} key into {table}: {av} -> {'HOLDS' if ok else 'VIOLATED (token reaches lookup without strip on some path)'}")
print("== separators used to dissect the header")
for fn, sep, ln in sorted(set(F.seps)):
    print(f"  {fn}:{ln} {sep!r} -> {'ok' if len(sep) == 1 else 'VIOLATED (multi-character separator hard-codes absence of optional whitespace)'}")
