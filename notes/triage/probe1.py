import warnings; warnings.simplefilter("ignore")
import curies
from curies import Converter, Record, chain
from curies.api import *
def t(label, f):
    try:
        print(label, "->", repr(f()))
    except Exception as e:
        print(label, "-> RAISES", type(e).__name__, e)

# C02 empty prefix
c = Converter.from_prefix_map({"": "http://ex/", "a": "http://a/"})
t("C02 expand ':x'", lambda: c.expand(":x"))
t("C02 std_prefix ''", lambda: c.standardize_prefix(""))
t("C02 expand_pair '' x", lambda: c.expand_pair("", "x"))
t("C02 compress http://ex/x", lambda: c.compress("http://ex/x"))
t("C02 expand_all ':x'", lambda: c.expand_all(":x"))
t("C02 expand_pair_all", lambda: c.expand_pair_all("", "x"))
# C08 default mode raising
t("C08 expand 'abc'", lambda: c.expand("abc"))
t("C08 expand 'abc' pt", lambda: c.expand("abc", passthrough=True))
t("C08 std_curie 'abc'", lambda: c.standardize_curie("abc"))
t("C08 expand_all 'abc'", lambda: c.expand_all("abc"))
t("C08 parse_curie 'abc'", lambda: c.parse_curie("abc"))
t("C08 compress_or_std 'abc'", lambda: c.compress_or_standardize("abc"))
t("C08 expand_or_std 'abc'", lambda: c.expand_or_standardize("abc"))
t("C08 parse 'abc'", lambda: c.parse("abc", strict=False))
t("C08 parse_uri 'abc' default", lambda: c.parse_uri("abc"))
t("C08 expand_pair_all strict", lambda: c.expand_pair_all("zz","x", strict=True))
t("C08 expand_all strict", lambda: c.expand_all("zz:x", strict=True))
t("C08 parse strict unknown", lambda: c.parse("zz:x", strict=True))
# C01 empty uri prefix
c2 = Converter.from_prefix_map({"e": "", "a": "http://a/"})
t("C01 compress 'zzz' w/ empty uri prefix", lambda: c2.compress("zzz"))
t("C01 compress '' w/ empty uri prefix", lambda: c2.compress(""))
t("C01 compress http://a/1", lambda: c2.compress("http://a/1"))
c3 = Converter([])
c3.add_prefix("e", "")
t("C01 inc compress 'zzz' w/ empty uri prefix", lambda: c3.compress("zzz"))
# C07: is_uri with compress returning ''? compress never returns '' since delimiter... if prefix '' and identifier '' and delimiter ''? skip
# C10 mutation
c4 = Converter.from_prefix_map({"a": "http://a/", "b": "http://b/"})
before = [r.model_dump() for r in c4.records]
c5 = curies.remap_curie_prefixes(c4, {"a": "x"})
print("C10 remap_curie mutated input:", before != [r.model_dump() for r in c4.records], c4.records, c4.prefix_map)
c4 = Converter.from_prefix_map({"a": "http://a/", "b": "http://b/"})
before = [r.model_dump() for r in c4.records]
c5 = curies.remap_uri_prefixes(c4, {"http://a/": "http://x/"})
print("C10 remap_uri mutated input:", before != [r.model_dump() for r in c4.records])
c4 = Converter.from_prefix_map({"a": "http://a/", "b": "http://b/"})
before = [r.model_dump() for r in c4.records]
c5 = curies.rewire(c4, {"a": "http://x/"})
print("C10 rewire mutated input:", before != [r.model_dump() for r in c4.records])
c4 = Converter.from_prefix_map({"a": "http://a/", "b": "http://b/"})
c6 = Converter.from_prefix_map({"a": "http://a2/"})
before = [r.model_dump() for r in c4.records]
c5 = chain([c4, c6])
print("C10 chain mutated input:", before != [r.model_dump() for r in c4.records], c4.records)
c4 = Converter.from_prefix_map({"a": "http://a/", "b": "http://b/"})
before = [r.model_dump() for r in c4.records]
c5 = c4.get_subconverter(["a"])
c5.add_prefix("a", "http://a3/", merge=True)
print("C10 subconverter leak:", before != [r.model_dump() for r in c4.records], c4.records)
