import warnings; warnings.simplefilter("ignore")
from curies import Converter, Record
from curies.resolver_service import get_flask_app, get_fastapi_app
from fastapi.testclient import TestClient
for delim in [":", "/"]:
    c = Converter([Record(prefix="doi", prefix_synonyms=["DOI"], uri_prefix="https://doi.org/"), Record(prefix="a", uri_prefix="http://a/")], delimiter=delim)
    fl = get_flask_app(c).test_client()
    fa = TestClient(get_fastapi_app(c))
    for path in [f"/doi{delim}10.1/abc", f"/DOI{delim}x", f"/a{delim}b{delim}c", f"/a{delim}b/c{delim}d", f"/zz{delim}1", f"/a{delim}"]:
        r1 = fl.get(path); r2 = fa.get(path, follow_redirects=False)
        print(delim, path, "| flask", r1.status_code, r1.headers.get("Location"), "| fastapi", r2.status_code, r2.headers.get("location"))
