import warnings, random; warnings.simplefilter("ignore")
from curies import Converter, Record, chain
from curies.reconciliation import remap_uri_prefixes, rewire
random.seed(2)
P = ["a","A","b","B","c","d","ab"]
U = ["http://a/","http://A/","http://b/","http://a/b","http://d/", "http://c/"]
def rc():
    recs=[]; usedp=set(); usedu=set()
    for _ in range(random.randint(1,3)):
        ps=[p for p in P if p not in usedp]; us=[u for u in U if u not in usedu]
        if not ps or not us: break
        p=random.choice(ps); u=random.choice(us); usedp.add(p); usedu.add(u)
        syn=[x for x in random.sample(P,2) if x not in usedp][:random.randint(0,2)]; usedp.update(syn)
        usyn=[x for x in random.sample(U,2) if x not in usedu][:random.randint(0,2)]; usedu.update(usyn)
        recs.append(Record(prefix=p,uri_prefix=u,prefix_synonyms=syn,uri_prefix_synonyms=usyn))
    return Converter(recs)
bad=0
for t in range(3000):
    cs=[rc() for _ in range(random.randint(1,3))]
    cs0=[Converter([r.model_copy(deep=True) for r in c.records]) for c in cs]
    for csens in (True, False):
        cs=[Converter([r.model_copy(deep=True) for r in c.records]) for c in cs0]
        try: ch=chain(cs, case_sensitive=csens)
        except ValueError: continue
        up=set().union(*[c.get_prefixes(include_synonyms=True) for c in cs0]); uu=set().union(*[c.get_uri_prefixes(include_synonyms=True) for c in cs0])
        if ch.get_prefixes(include_synonyms=True)!=up or ch.get_uri_prefixes(include_synonyms=True)!=uu: bad+=1; print("UNION", csens)
        try: Converter([r.model_copy(deep=True) for r in ch.records])
        except Exception as e: bad+=1; print("INVALID", csens, type(e).__name__, ch.records)
        if csens:
            for p in cs0[0].get_prefixes(include_synonyms=True):
                if ch.expand(p+":x")!=cs0[0].expand(p+":x"): bad+=1; print("PRIORITY", p)
        else:
            allp=[p for r in ch.records for p in r._all_prefixes]
            # no two records hold prefixes equal up to case
            for i,r in enumerate(ch.records):
                for j,s in enumerate(ch.records):
                    if i<j and {x.casefold() for x in r._all_prefixes}&{x.casefold() for x in s._all_prefixes}: bad+=1; print("CASE", ch.records)
    if bad>5: break
print("bad",bad)
