import warnings; warnings.simplefilter("ignore")
from curies.mapping_service.utils import handle_header, parse_header
def t(label, f):
    try:
        print(label, "->", repr(f()))
    except Exception as e:
        print(label, "-> RAISES", type(e).__name__, e)
for h in ["application/json", "text/html, application/json", "text/html,application/json;q=0.5", "application/json; q=0.5, text/csv; q=0.9", "application/json;q=0.5,text/csv;q=0.9", "text/csv;q=0.9 , application/json", "*/*", "application/sparql-results+json;charset=utf-8", "application/json ;q=0.2,text/csv;q=0.1", "application/json;Q=0.5,text/csv;q=0.7", "text/csv;q=0.7;ext=1", ""]:
    t(repr(h), lambda: handle_header(h))
from curies import Converter, Record
from curies.mapping_service import MappingServiceGraph, MappingServiceSPARQLProcessor
c = Converter([Record(prefix="a", uri_prefix="http://a/", uri_prefix_synonyms=["http://a2/", "http://a/x/"]), Record(prefix="b", uri_prefix="http://a/b_")])
g = MappingServiceGraph(converter=c)
proc = MappingServiceSPARQLProcessor(graph=g)
for q in ["SELECT ?o WHERE { VALUES ?s { <http://a/1> } ?s owl:sameAs ?o }", "SELECT ?o WHERE { ?s owl:sameAs ?o } VALUES ?s { <http://a/x/1> }", "SELECT ?s WHERE { VALUES ?o { <http://a2/1> } ?s owl:sameAs ?o }", "SELECT ?o WHERE { VALUES ?s { <http://zz/1> } ?s owl:sameAs ?o }","SELECT ?o WHERE { VALUES ?s { <http://a/1> } ?s rdfs:seeAlso ?o }"]:
    print(q, sorted(map(str, (r[0] for r in g.query(q, processor=proc)))))
