import warnings; warnings.simplefilter("ignore")
import curies, tempfile, os, json
from pathlib import Path
from curies import Converter, Record, chain
from curies.api import *
from curies.reconciliation import *
def t(label, f):
    try:
        print(label, "->", repr(f()))
    except Exception as e:
        print(label, "-> RAISES", type(e).__name__, e)

# C11 partially applicable chain
c = Converter.from_prefix_map({"b": "http://b/"})
t("C11 partial chain", lambda: remap_curie_prefixes(c, {"a": "b", "b": "c"}).records)
c = Converter([Record(prefix="p", prefix_synonyms=["b"], uri_prefix="http://p/"), Record(prefix="a", uri_prefix="http://a/")])
t("C11 synonym key in intersection", lambda: remap_curie_prefixes(c, {"a": "b", "b": "c"}).records)
c = Converter.from_prefix_map({"a": "http://a/", "b": "http://b/"})
t("C11 swap", lambda: remap_curie_prefixes(c, {"a": "b", "b": "a"}).records)
c = Converter.from_prefix_map({"a": "http://a/", "b": "http://b/", "c": "http://c/"})
t("C11 chain onto existing c", lambda: remap_curie_prefixes(c, {"a": "b", "b": "c"}).records)
# C12
c = Converter([Record(prefix="a", uri_prefix="http://a/", uri_prefix_synonyms=["http://a2/"]), Record(prefix="b", uri_prefix="http://b/")])
t("C12 remap_uri syn key -> new", lambda: remap_uri_prefixes(c, {"http://a2/": "http://a3/"}).records)
c = Converter([Record(prefix="a", uri_prefix="http://a/", uri_prefix_synonyms=["http://a2/"]), Record(prefix="b", uri_prefix="http://b/")])
t("C12 remap_uri canon -> own synonym", lambda: remap_uri_prefixes(c, {"http://a/": "http://a2/"}).records)
c = Converter([Record(prefix="a", uri_prefix="http://a/", uri_prefix_synonyms=["http://a2/"]), Record(prefix="b", uri_prefix="http://b/")])
t("C12 remap_uri -> own canonical (new==canonical)", lambda: remap_uri_prefixes(c, {"http://a2/": "http://a/"}))
c = Converter([Record(prefix="a", uri_prefix="http://a/", uri_prefix_synonyms=["http://a2/"]), Record(prefix="b", uri_prefix="http://b/")])
t("C12 remap_uri -> other's", lambda: remap_uri_prefixes(c, {"http://a/": "http://b/"}).records)
c = Converter([Record(prefix="a", uri_prefix="http://a/", uri_prefix_synonyms=["http://a2/"]), Record(prefix="b", uri_prefix="http://b/")])
t("C12 rewire twice", lambda: (rewire(rewire(c, {"a": "http://n/"}), {"a": "http://n/"}).records))
# non-injective rewire creating duplicates
c = Converter.from_prefix_map({"a": "http://a/", "b": "http://b/"})
t("C12 rewire two -> same new (non-injective)", lambda: rewire(c, {"a": "http://n/", "b": "http://n/"}).records)
# C13 loaders
t("C13 reverse", lambda: Converter.from_reverse_prefix_map({"http://aaa/": "a", "http://a/": "a", "http://bb/":"a"}).records)
t("C13 upgrade", lambda: upgrade_prefix_map({"b": "http://x/", "a": "http://x/", "c": "http://y/"}))
t("C13 jsonld", lambda: Converter.from_jsonld({"@context": {"@base": "x", "": "http://e/", "a": "http://a/", "b": {"@id": "http://b/", "@prefix": True}, "c": {"@id": "http://c/"}, "d": 5}}).records)
t("C13 jsonld @prefix no id", lambda: Converter.from_jsonld({"@context": {"b": {"@prefix": True}}}).records)
t("C13 priority empty list", lambda: Converter.from_priority_prefix_map({"a": []}).records)
# C14
d = tempfile.mkdtemp()
c = Converter([Record(prefix="a", uri_prefix="http://a/", prefix_synonyms=["A"], pattern=r"^\d+$"), Record(prefix="b", uri_prefix="http://b/")])
p = Path(d)/"x.json"
write_extended_prefix_map(c, p); t("C14 epm", lambda: load_extended_prefix_map(p).records == c.records)
p = Path(d)/"x.ttl"
write_shacl(c, p, include_synonyms=True); t("C14 shacl", lambda: (Converter.from_shacl(p).records, Converter.from_shacl(p).pattern_map))
write_shacl(Converter([]), p); print(open(p).read()); t("C14 shacl empty", lambda: Converter.from_shacl(p).records)
c = Converter([Record(prefix="ü", uri_prefix="http://ü/", prefix_synonyms=["A"], pattern=r"^\d+$")])
p = Path(d)/"y.json"
write_extended_prefix_map(c, p); t("C14 epm unicode", lambda: load_extended_prefix_map(p).records == c.records)
