import warnings; warnings.simplefilter("ignore")
import curies
from curies import Converter, Record, chain, discover
from curies.reconciliation import *
def t(label, f):
    try:
        print(label, "->", repr(f()))
    except Exception as e:
        print(label, "-> RAISES", type(e).__name__, e)
c = Converter([Record(prefix="a", prefix_synonyms=["A"], uri_prefix="http://a/")], delimiter="/")
t("parent expand a/1", lambda: c.expand("a/1"))
t("sub expand a/1", lambda: c.get_subconverter(["A"]).expand("a/1"))
t("sub delimiter", lambda: c.get_subconverter(["A"]).delimiter)
t("chain([c]) delimiter", lambda: chain([c]).delimiter)
t("remap delimiter", lambda: remap_curie_prefixes(c, {"a": "b"}).delimiter)
# chain case-insensitive
c1 = Converter.from_prefix_map({"a": "http://a/"}); c2 = Converter.from_prefix_map({"A": "http://A2/"})
t("chain ci", lambda: chain([c1, c2], case_sensitive=False).records)
c1 = Converter.from_prefix_map({"a": "http://a/"}); c2 = Converter.from_prefix_map({"A": "http://A2/"})
t("chain cs", lambda: chain([c1, c2], case_sensitive=True).records)
# chain bridging
c1 = Converter.from_prefix_map({"a": "http://a/", "b": "http://b/"}); c2 = Converter([Record(prefix="a", uri_prefix="http://b/")])
t("chain bridge", lambda: chain([c1, c2]).records)
# discover
uris = ["http://x/a_1", "http://x/a_2", "http://x/b", "http://y#1", "http://z/q/", "nodelim"]
t("discover", lambda: discover(uris).records)
t("discover rev", lambda: discover(list(reversed(uris))*2).records == discover(uris).records)
t("discover cutoff2", lambda: discover(uris, cutoff=2).records)
d = discover(uris)
for u in uris: print(u, d.compress(u), d.expand(d.compress(u)) if d.compress(u) else None)
# nested discovered prefixes
uris = ["http://x/a_1", "http://x/b", "http://x/a_"]
d = discover(uris); print(d.records)
for u in uris: print(u, d.compress(u), d.expand(d.compress(u)) if d.compress(u) else None)
