import warnings, random; warnings.simplefilter("ignore")
from curies import Converter, Record
from curies.api import _get_duplicate_prefixes, _get_duplicate_uri_prefixes
random.seed(1)
P = ["a","A","b","B","c","",  "ab"]
U = ["http://a/","http://A/","http://b/","http://a/b","", "http://c/"]
def rr():
    p = random.choice(P); u = random.choice(U)
    ps = random.sample([x for x in P if x!=p], random.randint(0,2))
    us = random.sample([x for x in U if x!=u], random.randint(0,2))
    return Record(prefix=p, uri_prefix=u, prefix_synonyms=ps, uri_prefix_synonyms=us, pattern=random.choice([None,"^x$"]))
bad = 0
for trial in range(3000):
    c = Converter([])
    for step in range(random.randint(1,6)):
        r = rr()
        snap = [x.model_dump() for x in c.records], dict(c.prefix_map), dict(c.synonym_to_prefix), dict(c.reverse_prefix_map), dict(c.trie), dict(c.pattern_map)
        try:
            c.add_record(r, case_sensitive=random.random()<0.5, merge=random.random()<0.6)
        except ValueError:
            now = [x.model_dump() for x in c.records], dict(c.prefix_map), dict(c.synonym_to_prefix), dict(c.reverse_prefix_map), dict(c.trie), dict(c.pattern_map)
            if now != snap: bad += 1; print("REJECT CHANGED", r)
            continue
        try:
            f = Converter([x.model_copy(deep=True) for x in c.records])
        except Exception as e:
            bad += 1; print("FRESH FAIL", type(e).__name__, [x.model_dump() for x in c.records]); break
        for name in ["prefix_map","synonym_to_prefix","reverse_prefix_map","pattern_map"]:
            if dict(getattr(c,name)) != dict(getattr(f,name)):
                bad += 1; print("DRIFT", name, getattr(c,name), getattr(f,name), c.records); break
        if dict(c.trie) != dict(f.trie): bad+=1; print("DRIFT trie")
    if bad > 5: break
print("bad", bad)
