import warnings; warnings.simplefilter("ignore")
import curies, tempfile, os, json
from pathlib import Path
from curies import Converter, Record, chain
from curies.api import *
from curies.reconciliation import *
from curies.w3c import *
def t(label, f):
    try:
        print(label, "->", repr(f()))
    except Exception as e:
        print(label, "-> RAISES", type(e).__name__, e)
d = tempfile.mkdtemp()
# C14 backslash in prefix
c = Converter([Record(prefix="a\\b", uri_prefix="http://a\\n/", pattern=r"^\d+$")])
p = Path(d)/"x.ttl"
write_shacl(c, p); print(open(p).read()); t("C14 shacl backslash prefix", lambda: (Converter.from_shacl(p).records))
# C20
t("C20 prefix GO\\n", lambda: is_w3c_prefix("GO\n"))
t("C20 curie 'a b'", lambda: is_w3c_curie("a b"))
t("C20 curie 'GO:12 34'", lambda: is_w3c_curie("GO:12 34"))
t("C20 curie 'GO://x'", lambda: is_w3c_curie("GO://x"))
t("C20 curie '//x'", lambda: is_w3c_curie("//x"))
t("C20 curie 'GO:1\\n'", lambda: is_w3c_curie("GO:1\n"))
# C07
c = Converter.from_prefix_map({"GO": "GO:", "http": "http://x/"})
t("C07 parse 'GO:1' both", lambda: (c.parse("GO:1", strict=False), c.compress_or_standardize("GO:1"), c.expand_or_standardize("GO:1")))
t("C07 is_curie no delim", lambda: c.is_curie("abc"))
# compress returning falsy?  is_uri(s) = compress(s) is not None  fine.
# C07: compress uses `if reference:` truthiness of tuple OK.
# C16 file atomicity
c = Converter.from_prefix_map({"a": "http://a/"})
p = Path(d)/"f.tsv"
p.write_text("h1\th2\nhttp://a/1\tx\nzzz\ty\n")
t("C16 strict file", lambda: c.file_compress(p, 0, strict=True)); print(repr(p.read_text()))
p.write_text("h1\th2\na:1\tx\nzzz\ty\n")
t("C16 malformed file expand", lambda: c.file_expand(p, 0)); print(repr(p.read_text()))
p.write_text("h1\th2\na:1\tx\nb:2\ty\n")
t("C16 file expand", lambda: c.file_expand(p, 0)); print(repr(p.read_text()))
import pandas as pd
df = pd.DataFrame({"c": ["a:1", "b:2"], "o": [1,2]})
c.pd_expand(df, "c", target_column="t"); print(df)
# C15
from curies import Reference, NamableReference, NamedReference, ReferenceTuple
r1 = Reference(prefix="a", identifier="1"); r2 = NamableReference(prefix="a", identifier="1", name="x"); r3 = NamedReference(prefix="a", identifier="1", name="y")
print("C15 eq", r1==r2, r2==r3, r3==r1, hash(r1)==hash(r2)==hash(r3), len({r1,r2,r3}))
t("C15 frozen", lambda: setattr(r1, "prefix", "b"))
t("C15 lt", lambda: sorted([r3, Reference(prefix="Z", identifier="9"), r1]))
t("C15 json", lambda: Reference.model_validate_json(r1.model_dump_json()))
t("C15 str validate", lambda: Reference.model_validate("a:b:c"))
t("C15 ctx", lambda: Reference.model_validate("A:1", context=Converter([Record(prefix="a", prefix_synonyms=["A"], uri_prefix="http://a/")])))
t("C15 ctx unknown", lambda: Reference.model_validate("Q:1", context=Converter([Record(prefix="a", prefix_synonyms=["A"], uri_prefix="http://a/")])))
t("C15 ctx empty prefix", lambda: Reference.model_validate(":1", context=Converter([Record(prefix="", uri_prefix="http://a/")])))
t("C15 le", lambda: r1 <= r2)
t("C15 gt", lambda: r1 > r2)
t("C15 tuple curie with sep", lambda: ReferenceTuple.from_curie("a/b/c", sep="/").curie)
