import sys, os, shutil, subprocess, pathlib, json
from concurrent.futures import ThreadPoolExecutor
BASE = pathlib.Path("/tmp/scratch/repo")
M = [
 # id, prop, file, old, new
 ("c01_index_trie_syn", "C01", "api.py", "            self.reverse_prefix_map[uri_prefix_synonym] = record.prefix\n            self.trie[uri_prefix_synonym] = record.prefix\n", "            self.reverse_prefix_map[uri_prefix_synonym] = record.prefix\n"),
 ("c01_skip_empty_uri", "C01", "api.py", "    for record in records:\n        rv[record.uri_prefix] = record.prefix\n", "    for record in records:\n        if not record.uri_prefix:\n            continue\n        rv[record.uri_prefix] = record.prefix\n"),
 ("c01_format_colon", "C01", "api.py", 'return f"{prefix}{self.delimiter}{identifier}"', 'return f"{prefix}:{identifier}"'),
 ("c02_split_default_sep", "C02", "api.py", "_split(curie, sep=self.delimiter)", "_split(curie)"),
 ("c02_expand_ref_truthy", "C02", "api.py", "        if uri_prefix is not None:\n            return uri_prefix + reference.identifier", "        if uri_prefix:\n            return uri_prefix + reference.identifier"),
 ("c02_rpartition", "C02", "api.py", "curie.partition(sep)", "curie.rpartition(sep)"),
 ("c04_dup_prefix_canonical_only", "C04", "api.py", "for prefix, p2 in itt.product(record_1._all_prefixes, record_2._all_prefixes)", "for prefix, p2 in itt.product([record_1.prefix], [record_2.prefix])"),
 ("c04_adjacent_pairs", "C04", "api.py", "        for record_1, record_2 in itt.combinations(records, 2)\n        for uri_prefix, up2", "        for record_1, record_2 in zip(records, records[1:])\n        for uri_prefix, up2"),
 ("c04_order_swapped", "C04", "api.py", "            duplicate_uri_prefixes = _get_duplicate_uri_prefixes(records)\n            if duplicate_uri_prefixes:\n                raise DuplicateURIPrefixes(duplicate_uri_prefixes)\n            duplicate_prefixes = _get_duplicate_prefixes(records)\n            if duplicate_prefixes:\n                raise DuplicatePrefixes(duplicate_prefixes)\n", "            duplicate_prefixes = _get_duplicate_prefixes(records)\n            if duplicate_prefixes:\n                raise DuplicatePrefixes(duplicate_prefixes)\n            duplicate_uri_prefixes = _get_duplicate_uri_prefixes(records)\n            if duplicate_uri_prefixes:\n                raise DuplicateURIPrefixes(duplicate_uri_prefixes)\n"),
 ("c05_index_no_synmap_syn", "C05", "api.py", "            self.prefix_map[prefix_synonym] = record.uri_prefix\n            self.synonym_to_prefix[prefix_synonym] = record.prefix\n", "            self.prefix_map[prefix_synonym] = record.uri_prefix\n"),
 ("c05_append_before_check", "C05", "api.py", "        matched = self._match_record(record, case_sensitive=case_sensitive)\n        if len(matched) > 1:", "        matched = self._match_record(record, case_sensitive=case_sensitive)\n        if not matched:\n            self.records.append(record)\n            self._index(record)\n            return\n        if len(matched) > 1:"),
 ("c05_match_drop_syn_syn_uri", "C05", "api.py", "                if _in(\n                    uri_prefix_synonym, record.uri_prefix_synonyms, case_sensitive=case_sensitive\n                ):\n                    rv[record._key].append(\"URI prefix match\")\n", ""),
 ("c07_parse_order", "C07", "api.py", "        if self.is_uri(uri_or_curie):\n            if strict:\n                return self.parse_uri(uri_or_curie, strict=True, return_none=True)\n            else:\n                return self.parse_uri(uri_or_curie, strict=False, return_none=True)\n        if self.is_curie(uri_or_curie):\n            if strict:\n                return self.parse_curie(uri_or_curie, strict=True)\n            else:\n                return self.parse_curie(uri_or_curie, strict=False)\n", "        if self.is_curie(uri_or_curie):\n            if strict:\n                return self.parse_curie(uri_or_curie, strict=True)\n            else:\n                return self.parse_curie(uri_or_curie, strict=False)\n        if self.is_uri(uri_or_curie):\n            if strict:\n                return self.parse_uri(uri_or_curie, strict=True, return_none=True)\n            else:\n                return self.parse_uri(uri_or_curie, strict=False, return_none=True)\n"),
 ("c08_passthrough_first_std_uri", "C08", "api.py", "        if strict:\n            raise URIStandardizationError(uri)\n        if passthrough:\n            return uri\n", "        if passthrough:\n            return uri\n        if strict:\n            raise URIStandardizationError(uri)\n"),
 ("c08_unfix_parse_curie", "C08", "api.py", "        try:\n            prefix, identifier = _split(curie, sep=self.delimiter)\n        except NoCURIEDelimiterError:\n            if strict:\n                raise\n            return None\n", "        prefix, identifier = _split(curie, sep=self.delimiter)\n"),
 ("c09_sub_canonical_only", "C09", "api.py", "if any(prefix in prefixes for prefix in record._all_prefixes)", "if record.prefix in prefixes"),
 ("c10_chain_no_copy", "C10", "api.py", "                record.model_copy(deep=True), case_sensitive=case_sensitive, merge=True", "                record, case_sensitive=case_sensitive, merge=True"),
 ("c10_rewire_no_copy", "C10", "reconciliation.py", "    for record in converter.records:\n        record = record.model_copy(deep=True)\n        new_uri_prefix = _get_curie_preferred_or_synonym(record, rewiring)", "    for record in converter.records:\n        new_uri_prefix = _get_curie_preferred_or_synonym(record, rewiring)"),
 ("c11_drop_union", "C11", "reconciliation.py", "                set(record.prefix_synonyms).union({record.prefix}).difference({new_prefix})", "                set(record.prefix_synonyms).difference({new_prefix})"),
 ("c12_drop_union_rewire", "C12", "reconciliation.py", "            record.uri_prefix_synonyms = sorted(\n                set(record.uri_prefix_synonyms)\n                .union({record.uri_prefix})\n                .difference({new_uri_prefix})\n            )\n            record.uri_prefix = new_uri_prefix\n        records.append(record)\n\n    # potential", "            record.uri_prefix_synonyms = sorted(\n                set(record.uri_prefix_synonyms)\n                .difference({new_uri_prefix})\n            )\n            record.uri_prefix = new_uri_prefix\n        records.append(record)\n\n    # potential"),
 ("c13_reverse_lexicographic", "C13", "api.py", "sorted(uri_prefixes, key=len)", "sorted(uri_prefixes)"),
 ("c13_upgrade_unsorted", "C13", "api.py", "        uri_prefix: sorted(curie_prefixes)\n", "        uri_prefix: list(curie_prefixes)\n"),
 ("c13_jsonld_at_filter", "C13", "api.py", "            if key.startswith(\"@\"):\n                continue\n", ""),
 ("c13_jsonld_prefix_truthy", "C13", "api.py", 'value.get("@prefix") is True', 'value.get("@prefix")'),
 ("c14_epm_omit_uri_syn", "C14", "api.py", "    if record.uri_prefix_synonyms:\n        rv[\"uri_prefix_synonyms\"] = sorted(record.uri_prefix_synonyms)\n", ""),
 ("c14_shacl_no_pattern_escape", "C14", "api.py", "        pattern = pattern.replace(\"\\\\\", \"\\\\\\\\\")\n", ""),
 ("c14_jsonld_ignore_synonyms", "C14", "api.py", "        if include_synonyms:\n            for prefix_synonym in record.prefix_synonyms:\n                context[prefix_synonym] = term\n", ""),
 ("c15_hash_with_name", "C15", "api.py", "        return hash((self.prefix, self.identifier))", "        return hash((self.prefix, self.identifier, getattr(self, \"name\", None)))"),
 ("c15_lt_prefix_only", "C15", "api.py", "        return self.pair < other.pair", "        return self.prefix < other.prefix"),
 ("c15_named_not_frozen", "C15", "api.py", "        ..., description=\"The name of the entity referenced by this object's prefix and identifier.\"\n    )\n\n    model_config = ConfigDict(frozen=True)", "        ..., description=\"The name of the entity referenced by this object's prefix and identifier.\"\n    )\n\n    model_config = ConfigDict(frozen=False)"),
 ("c16_pd_std_curie_no_passthrough", "C16", "api.py", "func = partial(self.standardize_curie, strict=strict, passthrough=passthrough)", "func = partial(self.standardize_curie, strict=strict)"),
 ("c16_target_or", "C16", "api.py", "        func = partial(self.standardize_uri, strict=strict, passthrough=passthrough)\n        df[column if target_column is None else target_column] = df[column].map(func)", "        func = partial(self.standardize_uri, strict=strict, passthrough=passthrough)\n        df[target_column or column] = df[column].map(func)"),
 ("c16_write_while_reading", "C16", "api.py", "        with path.open() as file_in:\n            reader = csv.reader(file_in, delimiter=delimiter)\n            _header = next(reader) if header else None\n            for row in reader:\n                row[column] = func(row[column]) or \"\"\n                rows.append(row)\n        with path.open(\"w\") as file_out:\n            writer = csv.writer(file_out, delimiter=delimiter)\n            if _header:\n                writer.writerow(_header)\n            writer.writerows(rows)", "        with path.open() as file_in:\n            lines = list(csv.reader(file_in, delimiter=delimiter))\n        _header = lines.pop(0) if header else None\n        with path.open(\"w\") as file_out:\n            writer = csv.writer(file_out, delimiter=delimiter)\n            if _header:\n                writer.writerow(_header)\n            for row in lines:\n                row[column] = func(row[column]) or \"\"\n                writer.writerow(row)"),
 ("c17_no_path_conv", "C17", "resolver_service.py", "{{identifier:path}}", "{{identifier}}"),
 ("c17_no_resplit_flask", "C17", "resolver_service.py", "        \"\"\"Resolve a CURIE.\"\"\"\n        prefix, identifier = _split(\n            f\"{prefix}{converter.delimiter}{identifier}\", sep=converter.delimiter\n        )\n        location = converter.expand_pair(prefix, identifier)\n        if location is None:\n            prefixes = \"\".join(", "        \"\"\"Resolve a CURIE.\"\"\"\n        location = converter.expand_pair(prefix, identifier)\n        if location is None:\n            prefixes = \"\".join("),
 ("c17_fastapi_307", "C17", "resolver_service.py", "RedirectResponse(location, status_code=302)", "RedirectResponse(location)"),
 ("c18_sort_ascending", "C18", "mapping_service/utils.py", "sorted(parts, key=parts.__getitem__, reverse=True)", "sorted(parts, key=parts.__getitem__)"),
 ("c18_no_strip", "C18", "mapping_service/utils.py", "key, *parameters = (x.strip() for x in part.split(\";\"))", "key, *parameters = (x for x in part.split(\";\"))"),
 ("c18_triples_obj_asym", "C18", "mapping_service/api.py", "                    yield subj, pred, obj_query", "                    yield obj_query, pred, subj"),
 ("c19_no_sorted", "C19", "discovery.py", "for uri_prefix, luids in sorted(uri_prefix_to_luids.items())", "for uri_prefix, luids in uri_prefix_to_luids.items()"),
 ("c19_split_first", "C19", "discovery.py", "uri.rsplit(delimiter, maxsplit=1)", "uri.split(delimiter, maxsplit=1)"),
 ("c19_cutoff_gt", "C19", "discovery.py", "len(luids) >= cutoff", "len(luids) > cutoff"),
 ("c20_match_again", "C20", "w3c.py", "NCNAME_RE.fullmatch(prefix)", "NCNAME_RE.match(prefix)"),
 ("c20_digit_start", "C20", "w3c.py", 'NCNAME_PATTERN = r"[A-Za-z_][A-Za-z0-9\\.\\-_]*"', 'NCNAME_PATTERN = r"[A-Za-z_][A-Za-z0-9\\.\\-_:]*"'),
 ("c20_no_bracket_check", "C20", "w3c.py", '    if "[" in curie or "]" in curie:\n        return False\n', ''),
]
def run(m):
    mid, prop, file, old, new = m
    d = pathlib.Path("/tmp/scratch/mut") / mid
    if d.exists(): shutil.rmtree(d)
    shutil.copytree(BASE, d, ignore=shutil.ignore_patterns("__pycache__", ".git", ".benchmarks"))
    p = d / "src/curies" / file; s = p.read_text()
    if s.count(old) != 1:
        shutil.rmtree(d); return (mid, prop, "NOT-APPLIED(%d)" % s.count(old))
    p.write_text(s.replace(old, new))
    try:
        compile(p.read_text(), str(p), "exec")
    except SyntaxError as e:
        shutil.rmtree(d); return (mid, prop, "SYNTAX")
    r = subprocess.run(["/venv/bin/python", "-m", "pytest", "-q", "-p", "no:cacheprovider", "--timeout=900", "-q"], cwd=d, env={**os.environ, "PYTHONPATH": str(d / "src")}, capture_output=True, text=True)
    out = r.stdout
    BASEFAIL = {"test_bioregistry","test_from_github","test_go_registry","test_monarch","test_obo","test_remote","test_get_missing_query","test_post_missing_query","test_post_query","test_post_service_query","test_availability"}
    failed = sorted({l.split(" ")[1] for l in out.splitlines() if l.startswith("FAILED ")} | {l.split(") ")[-1].strip() for l in out.splitlines() if l.startswith("SUBFAILED")})
    failed = [f for f in failed if not (f.split("::")[-1] in BASEFAIL and ("FastAPIMappingApp" in f or f.split("::")[-1] in {"test_bioregistry","test_from_github","test_go_registry","test_monarch","test_obo","test_remote","test_availability"}))]
    if "error" in out.splitlines()[-1].lower() and not failed: failed = ["<collection error> " + out.splitlines()[-1]]
    shutil.rmtree(d)
    return (mid, prop, failed)
if __name__ == "__main__":
    sel = [m for m in M if len(sys.argv) < 2 or m[0] in sys.argv[1:]]
    with ThreadPoolExecutor(12) as ex:
        res = list(ex.map(run, sel))
    json.dump(res, open("/tmp/scratch/mutants_result.json", "w"), indent=1)
    for r in res: print(r)
