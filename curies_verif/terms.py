"""Normalised expression terms (DESIGN.md 2.3).

Terms are nested tuples ``(op, ...)``; they are hashable, comparable and printable.
The lowering from ``ast`` performs the normalisations the rules rely on, so that
behaviour-preserving rewrites of the source reach the rules as the same term.
"""

from __future__ import annotations

import ast
import builtins
from typing import Callable, Iterator

from .model import AnalysisError, ClassInfo, FunctionInfo, Model, ModuleInfo

NONE = ("const", None)
TRUE = ("const", True)
FALSE = ("const", False)

CMP = {
    ast.Eq: "==",
    ast.NotEq: "!=",
    ast.Lt: "<",
    ast.LtE: "<=",
    ast.Gt: ">",
    ast.GtE: ">=",
    ast.In: "in",
    ast.NotIn: "not in",
    ast.Is: "is",
    ast.IsNot: "is not",
}
CMP_NEG = {
    "==": "!=",
    "!=": "==",
    "<": ">=",
    ">=": "<",
    ">": "<=",
    "<=": ">",
    "in": "not in",
    "not in": "in",
    "is": "is not",
    "is not": "is",
}
BINOPS = {
    ast.Add: "+",
    ast.Sub: "-",
    ast.Mult: "*",
    ast.Div: "/",
    ast.FloorDiv: "//",
    ast.Mod: "%",
    ast.BitOr: "|",
    ast.BitAnd: "&",
    ast.BitXor: "^",
    ast.Pow: "**",
    ast.LShift: "<<",
    ast.RShift: ">>",
    ast.MatMult: "@",
}


def const(v) -> tuple:
    return ("const", v)


def is_const(t, v=...) -> bool:
    if not (isinstance(t, tuple) and t and t[0] == "const"):
        return False
    if v is ...:
        return True
    return type(t[1]) is type(v) and t[1] == v


def call(func, *args, **kwargs) -> tuple:
    return ("call", func, tuple(args), tuple(sorted(kwargs.items())))


def attr(base, name) -> tuple:
    return ("attr", base, name)


def op(t) -> str | None:
    return t[0] if isinstance(t, tuple) and t else None


def kwargs_of(t) -> dict:
    """Keyword arguments of a call/bound term (excluding ** splats)."""
    if op(t) == "call":
        return {k: v for k, v in t[3] if k is not None}
    if op(t) == "bound":
        return {k: v for k, v in t[3] if k is not None}
    return {}


def args_of(t) -> tuple:
    return t[2] if op(t) in ("call", "bound") else ()


def callee_name(t) -> str | None:
    """Last component of the callee of a call term (method or function name)."""
    if op(t) not in ("call", "bound"):
        return None
    f = t[1]
    if op(f) == "attr":
        return f[2]
    if op(f) in ("func", "cls", "closure"):
        return f[1].rsplit(".", 1)[-1]
    if op(f) == "ext":
        return f[1].rsplit(".", 1)[-1]
    if op(f) in ("builtin", "name", "param", "free"):
        return f[1]
    return None


def receiver(t):
    if op(t) in ("call", "bound") and op(t[1]) == "attr":
        return t[1][1]
    return None


def subterms(t) -> Iterator[tuple]:
    """All sub-terms (pre-order), including ``t`` itself."""
    if not isinstance(t, tuple):
        return
    if t and isinstance(t[0], str):
        yield t
    for x in t[1:] if (t and isinstance(t[0], str)) else t:
        if isinstance(x, tuple):
            yield from subterms(x)


def contains(t, pred: Callable[[tuple], bool]) -> bool:
    return any(pred(s) for s in subterms(t))


def find_calls(t, name: str | None = None) -> list[tuple]:
    return [s for s in subterms(t) if op(s) == "call" and (name is None or callee_name(s) == name)]


def substitute(t, mapping: dict) -> tuple:
    if not isinstance(t, tuple):
        return t
    if t in mapping:
        return mapping[t]
    r = tuple(substitute(x, mapping) if isinstance(x, tuple) else x for x in t)
    # getattr(x, "<literal>") that became literal through the substitution is the attribute itself
    if r and r[0] == "call" and r[1] == ("builtin", "getattr") and len(r[2]) == 2 and not r[3] and r[2][1][0] == "const" and isinstance(r[2][1][1], str):
        return ("attr", r[2][0], r[2][1][1])
    return r


def rewrite(t, f) -> tuple:
    """Apply ``f`` to every subterm, innermost first."""
    if not isinstance(t, tuple):
        return t
    r = tuple(rewrite(x, f) if isinstance(x, tuple) else x for x in t)
    return f(r) if r and isinstance(r[0], str) else r


def concat_parts(t) -> list | None:
    """View a string concatenation (f-string or ``+`` chain) as a flat list of parts."""
    if op(t) == "concat":
        out = []
        for p in t[1]:
            sub = concat_parts(p) if op(p) in ("concat",) else None
            out.extend(sub if sub is not None else [p])
        return out
    if op(t) == "bin" and t[1] == "+":
        left = concat_parts(t[2]) or [t[2]]
        right = concat_parts(t[3]) or [t[3]]
        return left + right
    return None


def show(t, depth: int = 0) -> str:
    """Compact human-readable rendering."""
    if not isinstance(t, tuple) or not t:
        return repr(t)
    o = t[0]
    if depth > 12:
        return "…"
    if not isinstance(o, str):
        return "(" + ", ".join(show(x, depth + 1) if isinstance(x, tuple) else repr(x) for x in t) + ")"
    s = lambda x: show(x, depth + 1)  # noqa: E731
    if o == "const":
        return repr(t[1])
    if o in ("param", "free", "name", "builtin"):
        return t[1]
    if o in ("func", "cls", "closure"):
        return t[1].replace("curies.api.", "").replace("curies.", "")
    if o == "gconst":
        return t[2]
    if o == "ext":
        return t[1]
    if o == "new":
        return f"<new {t[1]}#{t[2]}>"
    if o == "bv":
        return f"${t[1]}"
    if o == "phi":
        return f"φ({t[1]})"
    if o == "attr":
        return f"{s(t[1])}.{t[2]}"
    if o in ("call", "bound"):
        a = [s(x) for x in t[2]] + [(f"{k}={s(v)}" if k else f"**{s(v)}") for k, v in t[3]]
        head = "partial:" if o == "bound" else ""
        return f"{head}{s(t[1])}({', '.join(a)})"
    if o == "item":
        return f"{s(t[1])}[{s(t[2])}]"
    if o == "slice":
        f = lambda x: "" if is_const(x, None) else s(x)  # noqa: E731
        return f"{s(t[1])}[{f(t[2])}:{f(t[3])}" + (f":{f(t[4])}]" if not is_const(t[4], None) else "]")
    if o == "concat":
        return "f'" + "".join(p[1] if is_const(p) and isinstance(p[1], str) else "{" + s(p) + "}" for p in t[1]) + "'"
    if o == "bin":
        return f"({s(t[2])} {t[1]} {s(t[3])})"
    if o == "cmp":
        return f"({s(t[2])} {t[1]} {s(t[3])})"
    if o == "not":
        return f"not {s(t[1])}"
    if o == "neg":
        return f"-{s(t[1])}"
    if o in ("and", "or"):
        return "(" + f" {o} ".join(s(x) for x in t[1]) + ")"
    if o == "ifexp":
        return f"({s(t[2])} if {s(t[1])} else {s(t[3])})"
    if o in ("tuple", "list", "set"):
        br = {"tuple": "()", "list": "[]", "set": "{}"}[o]
        return br[0] + ", ".join(s(x) for x in t[1]) + br[1]
    if o == "dict":
        return "{" + ", ".join((f"{s(k)}: {s(v)}" if k is not None else f"**{s(v)}") for k, v in t[1]) + "}"
    if o == "star":
        return f"*{s(t[1])}"
    if o == "comp":
        gens = " ".join(
            f"for {s(g[0])} in {s(g[1])}" + "".join(f" if {s(c)}" for c in g[2]) for g in t[3]
        )
        return f"<{t[1]}comp {s(t[2])} {gens}>"
    if o == "kv":
        return f"{s(t[1])}: {s(t[2])}"
    if o == "lambda":
        return f"(lambda {', '.join(t[1])}: {s(t[2])})"
    if o == "fmt":
        return f"{s(t[1])}!{t[2]}"
    if o == "yield":
        return f"yield {s(t[1])}"
    if o == "unk":
        return f"?{t[1]}"
    return o + "(" + ", ".join(s(x) if isinstance(x, tuple) else repr(x) for x in t[1:]) + ")"


NEW_KINDS = {
    "list": "list",
    "dict": "dict",
    "set": "set",
    "defaultdict": "defaultdict",
    "collections.defaultdict": "defaultdict",
    "OrderedDict": "dict",
    "collections.OrderedDict": "dict",
}


def _rebound_global(mod, name: str) -> bool:
    """Is the module-level ``name`` assigned anywhere but once at top level (``global name`` in a function, a second
    top-level assignment, an augmented assignment)?  Then it is a variable, not a named literal."""
    cache = mod.__dict__.setdefault("_rebound_cache", {})
    if name not in cache:
        n_top = 0
        rebound = False
        for st in mod.tree.body:
            tgts = st.targets if isinstance(st, ast.Assign) else [st.target] if isinstance(st, (ast.AnnAssign, ast.AugAssign)) else []
            for t_ in tgts:
                if isinstance(t_, ast.Name) and t_.id == name:
                    n_top += 1
                    if isinstance(st, ast.AugAssign):
                        rebound = True
        for n in ast.walk(mod.tree):
            if isinstance(n, (ast.Global, ast.Nonlocal)) and name in n.names:
                rebound = True
        cache[name] = rebound or n_top > 1
    return cache[name]


_KNOWN_CONSTANTS = None


def _known_constants() -> dict:
    global _KNOWN_CONSTANTS
    if _KNOWN_CONSTANTS is None:
        import json
        import pathlib

        p = pathlib.Path(__file__).with_name("known_constants.json")
        _KNOWN_CONSTANTS = {k: set(v) for k, v in json.loads(p.read_text()).items()} if p.exists() else {}
    return _KNOWN_CONSTANTS


class Lowering:
    """Lower ``ast`` expressions of one function to terms, given a variable environment."""

    def __init__(self, model: Model, fn: FunctionInfo | None, mod: ModuleInfo) -> None:
        self.model = model
        self.fn = fn
        self.mod = mod
        self.counter = 0
        self.local_imports: dict[str, str] = {}
        # imports made inside enclosing functions are visible to closures
        chain = []
        f = fn
        while f is not None:
            chain.append(f)
            f = f.parent
        for f in reversed(chain[1:]):
            for n in ast.walk(f.node):
                if isinstance(n, ast.Import):
                    for a in n.names:
                        self.local_imports[a.asname or a.name.split(".")[0]] = (
                            a.name if a.asname else a.name.split(".")[0]
                        )
                elif isinstance(n, ast.ImportFrom) and not n.level:
                    for a in n.names:
                        self.local_imports[a.asname or a.name] = f"{n.module}.{a.name}"

    def fresh(self) -> int:
        self.counter += 1
        return self.counter

    # ------------------------------------------------------------------ names
    def name(self, ident: str, env: dict) -> tuple:
        if ident in env:
            return env[ident]
        if ident in self.local_imports:
            return self._resolved(self.model.resolve_dotted(self.local_imports[ident]), ident)
        fn = self.fn
        while fn is not None and fn.parent is not None:
            fn = fn.parent
            if ident in fn.param_names:
                return ("param", ident)
            if ident in fn.nested:
                return ("closure", fn.nested[ident].qualname)
            if self._assigned_in(fn, ident):
                return ("free", ident)
        r = self.model.resolve_global(self.mod, ident)
        if r is not None:
            return self._resolved(r, ident)
        if hasattr(builtins, ident):
            return ("builtin", ident)
        return ("name", ident)

    @staticmethod
    def _assigned_in(fn: FunctionInfo, ident: str) -> bool:
        for n in ast.walk(fn.node):
            if isinstance(n, ast.Name) and n.id == ident and isinstance(n.ctx, ast.Store):
                return True
            if isinstance(n, (ast.Import, ast.ImportFrom)):
                for a in n.names:
                    if (a.asname or a.name.split(".")[0]) == ident:
                        return True
        return False

    def _resolved(self, r, ident: str) -> tuple:
        kind = r[0]
        if kind == "func":
            return ("func", r[1].qualname)
        if kind == "cls":
            return ("cls", r[1].qualname)
        if kind == "const":
            # a module-level name the pinned tree does not have, bound once to a plain literal: the literal
            # (magic strings / numbers given a name by the change under analysis)
            known = _known_constants().get(r[1].name)
            node = r[1].constants.get(r[2])
            if known is not None and r[2] not in known and isinstance(node, ast.Constant) and isinstance(node.value, (str, int, float, bool)) and node.value is not None and not _rebound_global(r[1], r[2]):
                return ("const", node.value)
            return ("gconst", r[1].name, r[2])
        if kind == "ext":
            return ("ext", r[1])
        if kind == "mod":
            return ("ext", r[1].name)
        return ("name", ident)

    # ------------------------------------------------------------------ expressions
    def expr(self, e: ast.expr | None, env: dict) -> tuple:
        if e is None:
            return NONE
        m = getattr(self, "e_" + type(e).__name__, None)
        if m is None:
            return ("unk", type(e).__name__)
        return m(e, env)

    def e_Constant(self, e, env):
        return ("const", e.value)

    def e_Name(self, e, env):
        return self.name(e.id, env)

    def e_Attribute(self, e, env):
        return self.mk_attr(self.expr(e.value, env), e.attr)

    def mk_attr(self, base: tuple, name: str) -> tuple:
        if op(base) == "ext":
            dotted = f"{base[1]}.{name}"
            r = self.model.resolve_dotted(dotted)
            return self._resolved(r, name) if r[0] != "ext" else ("ext", dotted)
        if op(base) == "tuple" and False:
            pass
        if name == "delimiter" and op(base) == "call" and op(base[1]) == "cls" and base[1][1].endswith(".Converter"):
            # Converter(.., delimiter=d).delimiter is d (the constructor keeps it as given)
            d_ = dict(base[3]).get("delimiter")
            if d_ is not None:
                return d_
        prop = self.model_props().get(name)
        if prop is not None:
            return self._project_fields(substitute(prop, {("param", "$self"): base}))
        idx = self._typed_field_index(base, name)
        if idx is not None:
            return ("item", base, ("const", idx))
        nt = self._namedtuple_ctor(base)
        if nt is not None:
            ci, fields = nt
            if name in fields:
                return fields[name]
            m = ci.methods.get(name)
            if m is not None and m.is_property and depth_guard(self) < 4:
                body = [s for s in m.node.body if not (isinstance(s, ast.Expr) and isinstance(s.value, ast.Constant))]
                if len(body) == 1 and isinstance(body[0], ast.Return) and body[0].value is not None:
                    self._nt_depth = getattr(self, "_nt_depth", 0) + 1
                    try:
                        low = Lowering(self.model, m, m.module)
                        low._nt_depth = self._nt_depth
                        return low.expr(body[0].value, {m.params[0].name: base})
                    finally:
                        self._nt_depth -= 1
        return ("attr", base, name)

    def _project_fields(self, t):
        """``Cls(a, b).x`` left behind by a substitution (a property body instantiated on a NamedTuple built in
        place) is the argument the field was given."""
        if not isinstance(t, tuple):
            return t
        t = tuple(self._project_fields(x) if isinstance(x, tuple) else x for x in t)
        if op(t) == "attr" and isinstance(t[2], str) and op(t[1]) == "call":
            nt = self._namedtuple_ctor(t[1])
            if nt is not None and t[2] in nt[1]:
                return nt[1][t[2]]
        return t

    def _declared_length(self, x):
        """Number of components of ``x`` when it is a call of a package function declared to return a fixed-size
        tuple (``tuple[str, str]``) or a package NamedTuple; else None."""
        if op(x) != "call":
            return None
        f = x[1]
        fn = self.model.functions.get(f[1]) if op(f) == "func" else None
        if fn is None or fn.node.returns is None:
            return None
        r = fn.node.returns
        if isinstance(r, ast.Constant) and isinstance(r.value, str):
            try:
                r = ast.parse(r.value, mode="eval").body
            except SyntaxError:
                return None
        if isinstance(r, ast.Subscript) and ast.unparse(r.value).rsplit(".", 1)[-1] in ("tuple", "Tuple"):
            elts = r.slice.elts if isinstance(r.slice, ast.Tuple) else [r.slice]
            if any(isinstance(e_, ast.Constant) and e_.value is Ellipsis for e_ in elts):
                return None
            return len(elts)
        ret = ast.unparse(r).rsplit(".", 1)[-1]
        for ci in self.model.classes.values():
            if ci.name == ret and any(b.split("[")[0].rsplit(".", 1)[-1] == "NamedTuple" for b in ci.base_exprs):
                return len([n for n, (ann, _) in ci.fields.items() if ann is not None])
        return None

    def _typed_field_index(self, base, name: str):
        """``f(..).field`` where the package function f is declared to return a package NamedTuple: the position of
        the field (a NamedTuple IS the tuple of its fields, so ``.field`` and ``[i]`` are one value)."""
        if op(base) != "call":
            return None
        f = base[1]
        fn = None
        if op(f) == "func":
            fn = self.model.functions.get(f[1])
        elif op(f) == "attr" and isinstance(f[2], str):
            cands = [g for q, g in self.model.functions.items() if q.endswith("." + f[2]) and g.cls is not None]
            fn = cands[0] if len(cands) == 1 else None
        if fn is None or fn.node.returns is None:
            return None
        ret = ast.unparse(fn.node.returns).strip("'\"").rsplit(".", 1)[-1]
        for q, ci in self.model.classes.items():
            if ci.name == ret and any(b.split("[")[0].rsplit(".", 1)[-1] == "NamedTuple" for b in ci.base_exprs):
                names = [n for n, (ann, _) in ci.fields.items() if ann is not None]
                return names.index(name) if name in names else None
        return None

    def _namedtuple_ctor(self, base):
        """``Cls(a, b)`` of a package NamedTuple class: (ClassInfo, {field: argument term})."""
        if op(base) == "call" and op(base[1]) == "attr" and base[1][2] == "_make" and op(base[1][1]) == "cls" and len(base[2]) == 1 and not base[3]:
            # Cls._make(seq) is Cls(*seq)
            base = ("call", base[1][1], (("star", base[2][0]),), ())
        if op(base) != "call" or op(base[1]) != "cls" or base[1][1] not in self.model.classes:
            return None
        ci = self.model.classes[base[1][1]]
        if not any(b.split("[")[0].rsplit(".", 1)[-1] == "NamedTuple" for b in ci.base_exprs):
            return None
        names = [n for n, (ann, _) in ci.fields.items() if ann is not None]
        if len(base[2]) == 1 and op(base[2][0]) == "star" and not base[3]:
            # Cls(*pair): the fields are the components of the splatted value, in order
            x = base[2][0][1]
            return ci, {n: self.mk_item(x, ("const", i)) if hasattr(self, "mk_item") else ("item", x, ("const", i)) for i, n in enumerate(names)}
        if any(op(a) == "star" for a in base[2]) or any(k is None for k, _ in base[3]) or len(base[2]) > len(names):
            return None
        fields = dict(zip(names, base[2]))
        for k, v in base[3]:
            if k in names:
                fields[k] = v
        if set(fields) != set(names):
            return None
        return ci, fields

    def model_props(self) -> dict:
        cache = getattr(self.model, "_prop_cache", None)
        if cache is None:
            cache = {}
            self.model._prop_cache = cache  # type: ignore[attr-defined]
            cache.update(build_property_table(self.model))
        return cache

    def e_Call(self, e, env):
        func = self.expr(e.func, env)
        args = []
        for a in e.args:
            if isinstance(a, ast.Starred):
                args.append(("star", self.expr(a.value, env)))
            else:
                args.append(self.expr(a, env))
        kws = []
        for k in e.keywords:
            v = self.expr(k.value, env)
            if k.arg is None and isinstance(k.value, ast.Name) and self._only_splatted(k.value.id):
                # f(**kw) with kw a local dict display that is only ever splatted: the keywords written out
                d = v[4] if op(v) == "new" and v[1] == "dict" else v
                if op(d) == "dict" and all(kk is not None and is_const(kk) and isinstance(kk[1], str) for kk, _ in d[1]):
                    kws.extend((kk[1], vv) for kk, vv in d[1])
                    continue
            kws.append((k.arg, v))
        kws.sort(key=lambda kv: (kv[0] is None, kv[0] or ""))
        return self.norm_call(("call", func, tuple(args), tuple(kws)))

    def _only_splatted(self, name: str) -> bool:
        """The local ``name`` is assigned once (a dict display) and otherwise used only as ``**name``."""
        fn = self.fn
        if fn is None or getattr(fn, "node", None) is None:
            return False
        cache = self.__dict__.setdefault("_splat_cache", {})
        # a closure variable is judged in the enclosing function that binds it
        while getattr(fn, "parent", None) is not None and not any(isinstance(n, ast.Name) and n.id == name and isinstance(n.ctx, ast.Store) for n in ast.walk(fn.node)):
            fn = fn.parent
        key = (fn.qualname, name)
        if key in cache:
            return cache[key]
        stores = loads = splats = 0
        splat_nodes = set()
        for n in ast.walk(fn.node):
            if isinstance(n, ast.Call):
                for k in n.keywords:
                    if k.arg is None and isinstance(k.value, ast.Name) and k.value.id == name:
                        splat_nodes.add(id(k.value))
        ok = True
        for n in ast.walk(fn.node):
            if isinstance(n, ast.Name) and n.id == name:
                if isinstance(n.ctx, ast.Store):
                    stores += 1
                elif id(n) not in splat_nodes:
                    loads += 1
            elif isinstance(n, ast.arg) and n.arg == name:
                ok = False
        for n in ast.walk(fn.node):
            if isinstance(n, ast.Assign) and any(isinstance(t, ast.Name) and t.id == name for t in n.targets) and not isinstance(n.value, ast.Dict):
                ok = False
        cache[key] = ok and stores == 1 and loads == 0
        return cache[key]

    def _callable_constant(self, func):
        """A module-level name bound to attrgetter(..) / itemgetter(..) / partial(..) / a lambda: that callable."""
        mod = self.model.modules.get(func[1])
        node = mod.constants.get(func[2]) if mod is not None else None
        if not isinstance(node, (ast.Call, ast.Lambda)):
            return None
        # lru_cache(...)(f) / cache(f) of a stdlib function f: memoising a pure function of its argument text
        # (json.loads, re.compile ...) answers what f answers
        inner = None
        if isinstance(node, ast.Call) and len(node.args) == 1 and not node.keywords:
            head = node.func.func if isinstance(node.func, ast.Call) else node.func
            hname = head.attr if isinstance(head, ast.Attribute) else head.id if isinstance(head, ast.Name) else None
            if hname in ("lru_cache", "cache"):
                inner = node.args[0]
        if inner is not None:
            try:
                f_ = Lowering(self.model, None, mod).expr(inner, {})
            except Exception:  # noqa: BLE001
                f_ = None
            if op(f_) == "ext":
                return f_
            if op(f_) == "func" and _pure_of_immutables(self.model, f_[1]):
                # memoising a package function that computes an immutable value from its (hashable) arguments and
                # nothing else answers what the function answers
                return f_
            return None
        try:
            v = Lowering(self.model, None, mod).expr(node, {})
        except Exception:  # noqa: BLE001
            return None
        if op(v) in ("lambda", "bound") or (op(v) == "call" and op(v[1]) == "ext" and v[1][1] in ("operator.attrgetter", "operator.itemgetter")):
            return v
        return None

    def norm_call(self, t: tuple) -> tuple:
        func, args, kws = t[1], t[2], t[3]
        # a TypedDict "constructor" is dict(): TD({...}) is that dict, TD(a=1) is {"a": 1}
        is_td = False
        if op(func) == "gconst":
            mod_ = self.model.modules.get(func[1])
            node_ = mod_.constants.get(func[2]) if mod_ is not None else None
            is_td = isinstance(node_, ast.Call) and (getattr(node_.func, "id", None) or getattr(node_.func, "attr", None)) == "TypedDict"
        elif op(func) == "cls" and func[1] in self.model.classes:
            is_td = any(b.split("[")[0].rsplit(".", 1)[-1] == "TypedDict" for b in self.model.classes[func[1]].base_exprs)
        if is_td and len(args) == 1 and not kws and op(args[0]) != "star":
            return args[0]
        if is_td and not args and kws and all(k is not None for k, _ in kws):
            return ("dict", tuple((("const", k), v) for k, v in kws))
        if op(func) == "cls" and func[1].endswith(".ReferenceTuple") and not kws and len(args) == 2 and all(op(a) == "const" and a[1] is None for a in args):
            # the legacy "no match" answer of parse_uri spelled through the class: a NamedTuple IS the tuple
            return ("tuple", tuple(args))
        if op(func) == "attr" and isinstance(func[2], str) and getattr(self, "_nt_depth", 0) < 4:
            nt = self._namedtuple_ctor(func[1])
            if nt is not None:
                # a method of a package NamedTuple called on a value built in place: its one return expression, with
                # self bound to that value (helper classes that carry intermediate results)
                ci, _fields = nt
                m = ci.methods.get(func[2])
                if m is not None and not m.is_property and not m.is_classmethod and not any(op(a) == "star" for a in args):
                    body = [s_ for s_ in m.node.body if not (isinstance(s_, ast.Expr) and isinstance(s_.value, ast.Constant))]
                    pos = [p for p in m.params[1:] if p.kind == "pos"]
                    if len(body) == 1 and isinstance(body[0], ast.Return) and body[0].value is not None and len(args) <= len(pos):
                        env = {m.params[0].name: func[1]}
                        for p_, a_ in zip(pos, args):
                            env[p_.name] = a_
                        ok = True
                        for k_, v_ in kws:
                            if k_ is None or m.param(k_) is None:
                                ok = False
                            else:
                                env[k_] = v_
                        if ok and all(p_.name in env or p_.default is not None for p_ in m.params[1:]):
                            self._nt_depth = getattr(self, "_nt_depth", 0) + 1
                            try:
                                low = Lowering(self.model, m, m.module)
                                low._nt_depth = self._nt_depth
                                for p_ in m.params[1:]:
                                    if p_.name not in env:
                                        env[p_.name] = low.expr(p_.default, {})
                                return low.expr(body[0].value, env)
                            finally:
                                self._nt_depth -= 1
        if op(func) == "gconst" and len(args) == 1 and not kws and op(args[0]) != "star":
            # X = NewType("X", str): calling X is the identity at run time
            mod_n = self.model.modules.get(func[1])
            node_n = mod_n.constants.get(func[2]) if mod_n is not None else None
            if isinstance(node_n, ast.Call) and (getattr(node_n.func, "id", None) or getattr(node_n.func, "attr", None)) == "NewType":
                return args[0]
        if op(func) == "gconst":
            fv = self._callable_constant(func)
            if fv is not None:
                func = fv
                t = ("call", func, args, kws)
        if any(op(a) == "star" and self._declared_length(a[1]) for a in args):
            # f(*pair) with pair = g(..) declared to return a 2-tuple  is  f(pair[0], pair[1])
            flat2: list = []
            for a in args:
                k_ = self._declared_length(a[1]) if op(a) == "star" else None
                if k_:
                    flat2.extend(("item", a[1], ("const", i)) for i in range(k_))
                else:
                    flat2.append(a)
            args = tuple(flat2)
            t = ("call", func, args, kws)
        if any(op(a) == "star" and op(a[1]) in ("tuple", "list") for a in args):
            # f(*(a, b))  is  f(a, b)
            flat: list = []
            for a in args:
                if op(a) == "star" and op(a[1]) in ("tuple", "list"):
                    flat.extend(a[1][1])
                else:
                    flat.append(a)
            args = tuple(flat)
            t = ("call", func, args, kws)
        fname = func[1] if op(func) in ("ext", "builtin") else None
        if op(func) == "builtin" and fname == "len" and len(args) == 1 and not kws and op(args[0]) in ("tuple", "list") and not any(op(x) == "star" for x in args[0][1]):
            return ("const", len(args[0][1]))  # the length of a display is the number of its elements
        if fname == "itertools.chain" and not kws and not any(op(a) == "star" for a in args):
            elts = []
            for a in args:
                if op(a) in ("list", "tuple"):
                    elts.extend(a[1])
                else:
                    elts.append(("star", a))
            return ("list", tuple(elts))
        if fname == "functools.partial" and args and not any(op(a) == "star" for a in args):
            return ("bound", args[0], tuple(args[1:]), kws)
        if op(func) == "builtin" and fname in ("filter", "map") and len(args) == 2 and not kws and not any(op(a) == "star" for a in args):
            # filter(p, xs) == (x for x in xs if p(x));  map(f, xs) == (f(x) for x in xs)
            v = ("bv", self.fresh(), "_" + fname)
            if fname == "filter":
                cond = v if is_const(args[0], None) else ("call", args[0], (v,), ())
                return ("comp", "gen", v, ((v, args[1], (cond,)),))
            return ("comp", "gen", self.norm_call(("call", args[0], (v,), ())), ((v, args[1], ()),))
        def _rep(a):
            return op(a) == "call" and a[1] == ("ext", "itertools.repeat") and len(a[2]) == 1 and not a[3]

        if op(func) == "builtin" and fname == "zip" and len(args) >= 2 and not kws and not any(op(a) == "star" for a in args) and sum(1 for a in args if not _rep(a)) == 1:
            # zip(xs, itertools.repeat(v))  ==  ((x, v) for x in xs)
            v = ("bv", self.fresh(), "_zip")
            src = next(a for a in args if not _rep(a))
            return ("comp", "gen", ("tuple", tuple(a[2][0] if _rep(a) else v for a in args)), ((v, src, ()),))
        if op(func) == "builtin" and fname == "map" and len(args) >= 3 and not kws and not any(op(a) == "star" for a in args) and sum(1 for a in args[1:] if not _rep(a)) == 1:
            # map(f, xs, itertools.repeat(v))  ==  (f(x, v) for x in xs)
            v = ("bv", self.fresh(), "_map")
            src = next(a for a in args[1:] if not _rep(a))
            return ("comp", "gen", self.norm_call(("call", args[0], tuple(a[2][0] if _rep(a) else v for a in args[1:]), ())), ((v, src, ()),))
        if op(func) == "attr" and func[2] == "__getitem__" and len(args) == 1 and not kws and op(args[0]) != "star":
            return self.mk_item(func[1], args[0])
        if fname == "itertools.compress" and len(args) == 2 and not kws and op(args[1]) == "comp" and args[1][1] in ("gen", "list") and len(args[1][3]) == 1 and not args[1][3][0][2]:
            # compress(xs, (P(y) for y in ys)) with ys computed element by element from the same xs is a filter of xs
            data, sel = args
            stgt, ssrc, _ = sel[3][0]
            x = ("bv", self.fresh(), "_compress")
            if ssrc == data:
                return ("comp", "gen", x, ((x, data, (substitute(sel[2], {stgt: x}),)),))
            if op(ssrc) == "comp" and ssrc[1] in ("gen", "list") and len(ssrc[3]) == 1 and not ssrc[3][0][2] and ssrc[3][0][1] == data:
                inner = substitute(ssrc[2], {ssrc[3][0][0]: x})
                return ("comp", "gen", x, ((x, data, (substitute(sel[2], {stgt: inner}),)),))
        if fname in ("operator.add", "operator.concat") and len(args) == 2 and not kws and not any(op(a) == "star" for a in args):
            return ("bin", "+", args[0], args[1])
        if fname == "itertools.chain.from_iterable" and len(args) == 1 and not kws and op(args[0]) == "comp" and args[0][1] in ("gen", "list") and op(args[0][2]) == "comp" and args[0][2][1] in ("gen", "list"):
            # chain.from_iterable(inner(c) for c in cs) with inner(c) = (e for x in xs(c))  ==  (e for c in cs for x in xs(c))
            outer, inner = args[0], args[0][2]
            return ("comp", "gen", inner[2], tuple(outer[3]) + tuple(inner[3]))
        if op(func) == "builtin" and fname == "dict" and len(args) == 1 and not kws and op(args[0]) == "comp" and args[0][1] in ("gen", "list") and op(args[0][2]) == "tuple" and len(args[0][2][1]) == 2 and not any(op(x) == "star" for x in args[0][2][1]):
            # dict((k, v) for ...)  ==  {k: v for ...}
            k_, v_ = args[0][2][1]
            return ("comp", "dict", ("kv", k_, v_), args[0][3])
        if op(func) == "builtin" and fname in ("list", "set") and len(args) == 1 and not kws and op(args[0]) == "comp" and args[0][1] == "gen":
            return ("comp", fname, args[0][2], args[0][3])
        if op(func) == "builtin" and fname == "zip" and len(args) == 2 and not kws and op(args[0]) == "call" and args[0][1] == ("ext", "itertools.count") and len(args[0][2]) <= 1 and not args[0][3] and op(args[1]) != "star":
            # zip(itertools.count(k), xs) yields the pairs of enumerate(xs, start=k)
            return ("call", ("builtin", "enumerate"), (args[1],), (("start", args[0][2][0]),) if args[0][2] else ())
        if op(func) == "builtin" and fname in ("sorted", "min", "max") and any(k == "key" and is_const(v, None) for k, v in kws):
            kws = tuple((k, v) for k, v in kws if not (k == "key" and is_const(v, None)))
            return self.norm_call(("call", func, args, kws))
        if op(func) == "builtin" and fname == "sorted" and any(k == "reverse" and is_const(v, False) for k, v in kws):
            kws = tuple((k, v) for k, v in kws if not (k == "reverse" and is_const(v, False)))
            return self.norm_call(("call", func, args, kws))
        if op(func) == "builtin" and fname == "sorted" and len(args) == 1 and op(args[0]) == "call" and args[0][1] == ("builtin", "sorted") and len(args[0][2]) == 1 and args[0][3] == kws:
            return args[0]  # sorting a list that was just sorted with the same key (the sort is stable and idempotent)
        if op(func) == "builtin" and fname in ("sorted", "set", "frozenset", "sum", "min", "max", "any", "all") and len(args) >= 1 and op(args[0]) == "call" and args[0][1] in (("builtin", "list"), ("builtin", "tuple")) and len(args[0][2]) == 1 and not args[0][3]:
            # a consumer that only enumerates its argument sees the same elements with or without a list() copy
            return self.norm_call(("call", func, (args[0][2][0], *args[1:]), kws))
        if fname == "typing.cast" and len(args) == 2:
            return args[1]
        if fname in ("list", "dict", "set") and not args and not kws:
            return ("display0", fname)
        if fname == "bool" and len(args) == 1 and not kws and op(args[0]) == "param" and self.fn is not None:
            prm = self.fn.param(args[0][1])
            if prm is not None and prm.annotation is not None and ast.unparse(prm.annotation) == "bool":
                return args[0]
        if op(func) == "attr" and func[2] == "format" and not any(op(a) == "star" for a in args) and not any(k is None for k, _ in kws):
            tmpl = func[1]
            if op(tmpl) == "gconst":
                try:
                    val = self.model.const_value(self.model.modules[tmpl[1]], tmpl[2])
                except Exception:  # noqa: BLE001
                    val = None
                tmpl = ("const", val) if isinstance(val, str) else tmpl
            if is_const(tmpl) and isinstance(tmpl[1], str):
                r = self._format_template(tmpl[1], args, dict(kws))
                if r is not None:
                    return r
        if op(func) == "attr" and func[2] == "join" and is_const(func[1]) and len(args) == 1 and not kws:
            inner = args[0]
            if op(inner) == "call" and op(inner[1]) == "attr" and inner[1][2] == "split" and len(inner[2]) == 1 and not inner[3]:
                return ("call", ("attr", inner[1][1], "replace"), (inner[2][0], func[1]), ())
        if op(func) == "attr" and func[2] == "_asdict" and not args and not kws:
            nt = self._namedtuple_ctor(func[1])
            if nt is not None:
                return ("dict", tuple((("const", k), v) for k, v in nt[1].items()))
        if fname == "getattr" and len(args) in (2, 3) and not kws and is_const(args[1]) and isinstance(args[1][1], str):
            return self.mk_attr(args[0], args[1][1])
        if op(func) == "call" and op(func[1]) == "ext" and len(args) == 1 and not kws and not func[3] and op(args[0]) != "star":
            # operator.attrgetter("a.b")(x) == x.a.b ;  operator.itemgetter(k)(x) == x[k]  (several keys: a tuple)
            g, gargs = func[1][1], func[2]
            if g == "operator.attrgetter" and gargs and all(is_const(a) and isinstance(a[1], str) for a in gargs):
                def walk_(x, dotted):
                    for part in dotted.split("."):
                        x = self.mk_attr(x, part)
                    return x

                vals = [walk_(args[0], a[1]) for a in gargs]
                return vals[0] if len(vals) == 1 else ("tuple", tuple(vals))
            if g == "operator.itemgetter" and gargs and all(is_const(a) for a in gargs):
                vals = [self.mk_item(args[0], a) for a in gargs]
                return vals[0] if len(vals) == 1 else ("tuple", tuple(vals))
        return t

    def e_Subscript(self, e, env):
        base = self.expr(e.value, env)
        s = e.slice
        if isinstance(s, ast.Slice):
            return self.mk_slice(base, self.expr(s.lower, env), self.expr(s.upper, env), self.expr(s.step, env))
        idx = self.expr(s, env)
        return self.mk_item(base, idx)

    @staticmethod
    def mk_slice(base, lo, hi, step):
        # [e0, .., e(k-1), *rest][k:]  is a list of the elements of rest
        if op(base) in ("list", "tuple") and is_const(lo) and isinstance(lo[1], int) and not isinstance(lo[1], bool) and lo[1] >= 0 and (hi is None or is_const(hi, None)) and (step is None or is_const(step, None)):
            elts = base[1]
            k = lo[1]
            if len(elts) == k + 1 and op(elts[k]) == "star" and not any(op(x) == "star" for x in elts[:k]):
                return ("call", ("builtin", "list"), (elts[k][1],), ())
        # (a, b, c)[i:j] with literal bounds and no splat among the elements: the display of the elements kept
        def _b(x):
            return None if (x is None or is_const(x, None)) else x[1] if (is_const(x) and isinstance(x[1], int) and not isinstance(x[1], bool)) else "?"

        if op(base) in ("list", "tuple") and not any(op(x) == "star" for x in base[1]) and (step is None or is_const(step, None)):
            lo_, hi_ = _b(lo), _b(hi)
            if lo_ != "?" and hi_ != "?":
                return (op(base), tuple(base[1][lo_:hi_]))
        return ("slice", base, lo, hi, step)

    @staticmethod
    def mk_item(base, idx):
        if op(base) == "tuple" and is_const(idx) and isinstance(idx[1], int) and not isinstance(idx[1], bool):
            elts = base[1]
            if not any(op(x) == "star" for x in elts) and -len(elts) <= idx[1] < len(elts):
                return elts[idx[1]]
        if op(base) in ("tuple", "list") and is_const(idx) and isinstance(idx[1], int) and not isinstance(idx[1], bool) and 0 <= idx[1] < len(base[1]):
            # [a, b, *rest][0]: the elements in front of the first splat are where they are written
            if not any(op(x) == "star" for x in base[1][: idx[1] + 1]):
                return base[1][idx[1]]
        return ("item", base, idx)

    def _format_template(self, template: str, args, kws: dict):
        """'..{}..{name}..{0.attr}..'.format(...) as the concatenation an f-string with the same fields is."""
        import string

        try:
            fields = list(string.Formatter().parse(template))
        except ValueError:
            return None
        parts: list = []
        auto = 0
        numbered = False
        for lit, name, spec, conv in fields:
            if lit:
                self._push_part(parts, ("const", lit))
            if name is None:
                continue
            if "[" in name:
                return None
            head, *attrs = name.split(".")
            if head == "":
                if numbered:
                    return None
                if auto >= len(args):
                    return None
                v = args[auto]
                auto += 1
            elif head.isdigit():
                if auto:
                    return None
                numbered = True
                if int(head) >= len(args):
                    return None
                v = args[int(head)]
            else:
                if head not in kws:
                    return None
                v = kws[head]
            for a in attrs:
                v = self.mk_attr(v, a)
            if spec or conv:
                if spec and ("{" in spec):
                    return None
                v = ("fmt", v, conv or "", ("const", spec) if spec else NONE)
            if op(v) == "concat":
                for q in v[1]:
                    self._push_part(parts, q)
            else:
                self._push_part(parts, v)
        if len(parts) == 1 and is_const(parts[0]) and isinstance(parts[0][1], str):
            return parts[0]
        return ("concat", tuple(parts)) if parts else ("const", "")

    def e_JoinedStr(self, e, env):
        parts: list = []
        for v in e.values:
            if isinstance(v, ast.Constant):
                p = ("const", v.value)
            elif isinstance(v, ast.FormattedValue):
                inner = self.expr(v.value, env)
                if v.conversion != -1 or v.format_spec is not None:
                    spec = self.expr(v.format_spec, env) if v.format_spec is not None else NONE
                    p = ("fmt", inner, chr(v.conversion) if v.conversion != -1 else "", spec)
                else:
                    p = inner
            else:  # pragma: no cover
                p = ("unk", "fpart")
            if op(p) == "concat":
                for q in p[1]:
                    self._push_part(parts, q)
            else:
                self._push_part(parts, p)
        if len(parts) == 1 and is_const(parts[0]) and isinstance(parts[0][1], str):
            return parts[0]
        if not parts:
            return ("const", "")
        return ("concat", tuple(parts))

    @staticmethod
    def _push_part(parts: list, p: tuple) -> None:
        if is_const(p) and isinstance(p[1], str) and parts and is_const(parts[-1]) and isinstance(parts[-1][1], str):
            parts[-1] = ("const", parts[-1][1] + p[1])
        elif is_const(p, ""):
            return
        else:
            parts.append(p)

    def e_BinOp(self, e, env):
        l, r = self.expr(e.left, env), self.expr(e.right, env)
        o = BINOPS.get(type(e.op), "?")
        if o == "+" and is_const(l) and is_const(r) and isinstance(l[1], str) and isinstance(r[1], str):
            return ("const", l[1] + r[1])
        return ("bin", o, l, r)

    def e_UnaryOp(self, e, env):
        x = self.expr(e.operand, env)
        if isinstance(e.op, ast.Not):
            return self.mk_not(x)
        if isinstance(e.op, ast.USub):
            if is_const(x) and isinstance(x[1], (int, float)) and not isinstance(x[1], bool):
                return ("const", -x[1])
            return ("neg", x)
        return ("unary", type(e.op).__name__, x)

    @staticmethod
    def mk_not(x):
        if is_const(x) and isinstance(x[1], bool):
            return ("const", not x[1])
        if op(x) == "cmp" and x[1] in CMP_NEG:
            return ("cmp", CMP_NEG[x[1]], x[2], x[3])
        if op(x) == "not":
            return ("truth", x[1])
        if is_const(x) and isinstance(x[1], bool):
            return ("const", not x[1])
        return ("not", x)

    def e_BoolOp(self, e, env):
        parts = []
        kind = "and" if isinstance(e.op, ast.And) else "or"
        for v in e.values:
            t = self.expr(v, env)
            if op(t) == kind:
                parts.extend(t[1])
            else:
                parts.append(t)
        # a leading literal decides or drops out:  True and X == X,  False and X == False,  False or X == X,  True or X == True
        while len(parts) > 1 and is_const(parts[0]) and isinstance(parts[0][1], bool):
            if parts[0][1] == (kind == "and"):
                parts.pop(0)
            else:
                return parts[0]
        # ... and so does a trailing neutral literal after operands that are booleans themselves
        def _boolean(t):
            return op(t) in ("cmp", "not", "truth") or (op(t) == "call" and t[1] in (("builtin", "any"), ("builtin", "all"), ("builtin", "isinstance"), ("builtin", "bool"))) or (op(t) in ("and", "or") and all(_boolean(x) for x in t[1]))

        while len(parts) > 1 and is_const(parts[-1]) and isinstance(parts[-1][1], bool) and parts[-1][1] == (kind == "and") and all(_boolean(x) for x in parts[:-1]):
            parts.pop()
        if len(parts) == 1:
            return parts[0]
        return (kind, tuple(parts))

    def e_Compare(self, e, env):
        left = self.expr(e.left, env)
        out = []
        for o, c in zip(e.ops, e.comparators):
            right = self.expr(c, env)
            one = ("cmp", CMP[type(o)], left, right)
            # a comparison of two literals (a new keyword read with its default: `flag is None`) is decided
            if is_const(left) and is_const(right) and CMP[type(o)] in ("is", "is not", "==", "!="):
                a_, b_ = left[1], right[1]
                simple = lambda v: v is None or isinstance(v, (bool, int, str, float))  # noqa: E731
                if simple(a_) and simple(b_):
                    if CMP[type(o)] in ("is", "is not") and (a_ is None or b_ is None or isinstance(a_, bool) or isinstance(b_, bool)):
                        same = a_ is b_
                        one = ("const", same if CMP[type(o)] == "is" else not same)
                    elif CMP[type(o)] in ("==", "!=") and type(a_) is type(b_):
                        same = a_ == b_
                        one = ("const", same if CMP[type(o)] == "==" else not same)
            out.append(one)
            left = right
        if len(out) == 1:
            return out[0]
        if all(is_const(x) and isinstance(x[1], bool) for x in out):
            return ("const", all(x[1] for x in out))
        return ("and", tuple(out))

    def e_IfExp(self, e, env):
        c = self.expr(e.test, env)
        a, b = self.expr(e.body, env), self.expr(e.orelse, env)
        if is_const(c) and isinstance(c[1], bool):
            return a if c[1] else b
        if c == a:
            return ("or", (a, b))
        if c == ("not", b) or (op(c) == "not" and ("truth", c[1]) == b):
            return ("or", (b, a))  # a if not b else b
        return ("ifexp", c, a, b)

    def _elts(self, elts, env):
        out = []
        for x in elts:
            if isinstance(x, ast.Starred):
                inner = self.expr(x.value, env)
                if op(inner) in ("list", "tuple"):
                    out.extend(inner[1])
                else:
                    out.append(("star", inner))
            else:
                out.append(self.expr(x, env))
        return tuple(out)

    def e_Tuple(self, e, env):
        return ("tuple", self._elts(e.elts, env))

    def e_List(self, e, env):
        return ("list", self._elts(e.elts, env))

    def e_Set(self, e, env):
        return ("set", self._elts(e.elts, env))

    def e_Dict(self, e, env):
        items = []
        for k, v in zip(e.keys, e.values):
            items.append((self.expr(k, env) if k is not None else None, self.expr(v, env)))
        return ("dict", tuple(items))

    def e_Starred(self, e, env):
        return ("star", self.expr(e.value, env))

    def e_Lambda(self, e, env):
        names = [a.arg for a in e.args.posonlyargs + e.args.args + e.args.kwonlyargs]
        env2 = dict(env)
        for n in names:
            env2[n] = ("lv", n)
        body = self.expr(e.body, env2)
        # eta-reduction and partial-normal form
        if len(names) == 1 and op(body) == "call":
            x = ("lv", names[0])
            f, args, kws = body[1], body[2], body[3]
            uses_elsewhere = contains(f, lambda s: s == x) or any(contains(v, lambda s: s == x) for _, v in kws)
            if args and args[0] == x and not uses_elsewhere and not any(contains(a, lambda s: s == x) for a in args[1:]):
                if len(args) == 1 and not kws:
                    return f
                return ("bound", f, tuple(args[1:]), kws)
        return ("lambda", tuple(names), body)

    def _comp(self, kind, elt_fn, generators, env):
        env2 = dict(env)
        gens = []
        for g in generators:
            it = self.expr(g.iter, env2)
            tgt = self.bind_target(g.target, env2, None)
            ifs = tuple(self.expr(c, env2) for c in g.ifs)
            # a generator whose source is itself an identity comprehension is that comprehension's
            # source with its filters:  for x in (y for y in ys if p(y)) if q(x)  ==  for x in ys if p(x) if q(x)
            while op(it) == "comp" and it[1] in ("gen", "list") and len(it[3]) == 1 and it[2] == it[3][0][0] and op(it[2]) == "bv":
                itgt, isrc, iifs = it[3][0]
                ifs = tuple(substitute(c, {itgt: tgt}) for c in iifs) + ifs
                it = isrc
            gens.append((tgt, it, ifs))
        return ("comp", kind, elt_fn(env2), tuple(gens))

    def e_ListComp(self, e, env):
        return self._comp("list", lambda ev: self.expr(e.elt, ev), e.generators, env)

    def e_SetComp(self, e, env):
        return self._comp("set", lambda ev: self.expr(e.elt, ev), e.generators, env)

    def e_GeneratorExp(self, e, env):
        return self._comp("gen", lambda ev: self.expr(e.elt, ev), e.generators, env)

    def e_DictComp(self, e, env):
        return self._comp(
            "dict", lambda ev: ("kv", self.expr(e.key, ev), self.expr(e.value, ev)), e.generators, env
        )

    def e_Yield(self, e, env):
        return ("yield", self.expr(e.value, env))

    def e_YieldFrom(self, e, env):
        return ("yieldfrom", self.expr(e.value, env))

    def e_Await(self, e, env):
        return ("await", self.expr(e.value, env))

    def e_NamedExpr(self, e, env):
        v = self.expr(e.value, env)
        env[e.target.id] = v
        return v

    def e_Slice(self, e, env):  # pragma: no cover - handled in Subscript
        return ("unk", "slice")

    # ------------------------------------------------------------------ binding
    def bind_target(self, target: ast.expr, env: dict, value: tuple | None) -> tuple:
        """Bind an assignment/loop target.  With ``value`` None fresh bound variables are made.

        Returns the pattern term (bound variables, tuples of them).
        """
        if isinstance(target, ast.Name):
            v = value if value is not None else ("bv", self.fresh(), target.id)
            env[target.id] = v
            return v
        if isinstance(target, (ast.Tuple, ast.List)):
            if value is None:
                parts = tuple(self.bind_target(t, env, None) for t in target.elts)
                return ("tuple", parts)
            # destructure a value
            elts = target.elts
            star = [i for i, t in enumerate(elts) if isinstance(t, ast.Starred)]
            if op(value) in ("tuple", "list") and not any(op(x) == "star" for x in value[1]) and not star and len(value[1]) == len(elts):
                return ("tuple", tuple(self.bind_target(t, env, v) for t, v in zip(elts, value[1])))
            out = []
            n = len(elts)
            for i, t in enumerate(elts):
                if isinstance(t, ast.Starred):
                    after = n - i - 1
                    hi = ("const", -after) if after else NONE
                    out.append(self.bind_target(t.value, env, self.mk_slice(value, ("const", i), hi, NONE)))
                elif star and i > star[0]:
                    out.append(self.bind_target(t, env, self.mk_item(value, ("const", i - n))))
                else:
                    out.append(self.bind_target(t, env, self.mk_item(value, ("const", i))))
            return ("tuple", tuple(out))
        if isinstance(target, ast.Starred):
            inner = self.bind_target(target.value, env, value)
            return ("star", inner) if value is None else inner
        # attribute / subscript targets are handled by the summariser as stores
        return self.expr(target, env)


def depth_guard(low) -> int:
    return getattr(low, "_nt_depth", 0)


def _pure_of_immutables(model: Model, qualname: str) -> bool:
    """A module-level function that reads nothing but its parameters (and builtins / str methods on them), writes
    nothing, and returns None, strings, numbers or tuples of those: its value is a function of the argument VALUES,
    and sharing one result object between callers is harmless."""
    fi = model.functions.get(qualname)
    if fi is None or fi.cls is not None or fi.parent is not None or fi.decorators:
        return False
    params = {p.name for p in fi.params}
    local: set = set()
    for n in ast.walk(fi.node):
        if isinstance(n, ast.Name) and isinstance(n.ctx, ast.Store):
            local.add(n.id)
    import builtins

    for n in ast.walk(fi.node):
        if isinstance(n, (ast.Global, ast.Nonlocal, ast.Yield, ast.YieldFrom, ast.Await, ast.Lambda, ast.ListComp, ast.DictComp, ast.SetComp, ast.GeneratorExp)):
            return False
        if isinstance(n, (ast.Attribute, ast.Subscript)) and isinstance(n.ctx, (ast.Store, ast.Del)):
            return False
        if isinstance(n, ast.Name) and isinstance(n.ctx, ast.Load) and n.id not in params and n.id not in local and not hasattr(builtins, n.id):
            return False
        if isinstance(n, ast.Call):
            f = n.func
            if isinstance(f, ast.Attribute):
                if f.attr not in ("partition", "rpartition", "split", "rsplit", "find", "index", "startswith", "endswith", "strip", "lstrip", "rstrip", "lower", "upper", "casefold", "removeprefix", "removesuffix", "count", "join", "replace", "isdigit", "isalnum", "encode"):
                    return False
            elif not (isinstance(f, ast.Name) and f.id in ("len", "str", "int", "tuple", "bool", "min", "max", "isinstance", "type", "repr", "ord", "chr")):
                return False
        if isinstance(n, ast.Return) and n.value is not None:
            v = n.value
            elts = v.elts if isinstance(v, ast.Tuple) else [v]
            for e in elts:
                if isinstance(e, (ast.List, ast.Dict, ast.Set)):
                    return False
    return True


def _inline_self_helpers(model: Model, ci, t, depth: int = 0):
    """``self._helper(a, b)`` inside a property, with ``_helper`` a one-expression (static) method of the class that
    the rule set does not know: its return expression with the arguments in place - the property table holds terms
    over ``$self`` only, and once ``$self`` is replaced by a record term the method could no longer be resolved."""
    if depth > 2:
        return t

    def f(x):
        if not (op(x) == "call" and op(x[1]) == "attr" and x[1][1] == ("param", "$self") and isinstance(x[1][2], str)):
            return x
        m = model.find_method(ci, x[1][2]) if hasattr(model, "find_method") else None
        if m is None or m.is_property or m.is_classmethod or any(op(a) == "star" for a in x[2]) or any(k is None for k, _ in x[3]):
            return x
        body = [s_ for s_ in m.node.body if not (isinstance(s_, ast.Expr) and isinstance(s_.value, ast.Constant))]
        if len(body) != 1 or not isinstance(body[0], ast.Return) or body[0].value is None:
            return x
        params = list(m.params)
        env = {}
        if not m.is_staticmethod and params:
            env[params[0].name] = ("param", "$self")
            params = params[1:]
        pos = [p_ for p_ in params if p_.kind == "pos"]
        if len(x[2]) > len(pos):
            return x
        for p_, a_ in zip(pos, x[2]):
            env[p_.name] = a_
        for k_, v_ in x[3]:
            if m.param(k_) is None:
                return x
            env[k_] = v_
        if any(p_.name not in env and p_.default is None for p_ in params if p_.kind in ("pos", "kwonly")):
            return x
        try:
            low = Lowering(model, m, m.module)
            for p_ in params:
                if p_.name not in env and p_.default is not None:
                    env[p_.name] = low.expr(p_.default, {})
            return _inline_self_helpers(model, ci, low.expr(body[0].value, env), depth + 1)
        except Exception:  # noqa: BLE001
            return x

    return rewrite(t, f)


def build_property_table(model: Model) -> dict:
    """name -> term over ('param','$self') for @property methods whose body is one return.

    A name is only tabled when every class in the package defining a property of that name
    gives the same term (``Reference.curie`` / ``ReferenceTuple.curie``).
    """
    table: dict[str, set] = {}
    model._prop_cache = {}  # type: ignore[attr-defined]  # avoid recursion while building
    for fi in model.functions.values():
        if not fi.is_property or fi.cls is None:
            continue
        body = [s for s in fi.node.body if not (isinstance(s, ast.Expr) and isinstance(s.value, ast.Constant))]
        if len(body) != 1 or not isinstance(body[0], ast.Return) or body[0].value is None:
            table.setdefault(fi.name, set()).add(None)
            continue
        low = Lowering(model, fi, fi.module)
        env = {fi.params[0].name: ("param", "$self")}
        table.setdefault(fi.name, set()).add(_inline_self_helpers(model, fi.cls, low.expr(body[0].value, env)))
    # a name that is ALSO a data field / instance attribute of some class of the package (a NamedTuple with a
    # property `uri_prefix` next to Record's field `uri_prefix`) cannot be resolved by name alone
    plain: set = set()
    for ci in model.classes.values():
        plain.update(k for k, (ann, _) in ci.fields.items() if ann is not None)
    for fi in model.functions.values():
        if fi.cls is None or not fi.self_name:
            continue
        if any(a in model.mro_names(fi.cls) for a in ("BaseException", "Exception", "ValueError", "KeyError", "TypeError")):
            # what an exception object remembers (``NoCURIEDelimiterError.curie``) is read only from the bound
            # exception in a handler - never where a reference / record is expected
            continue
        for n in ast.walk(fi.node):
            if isinstance(n, ast.Attribute) and isinstance(n.ctx, ast.Store) and isinstance(n.value, ast.Name) and n.value.id == fi.self_name:
                plain.add(n.attr)
    out = {}
    for name, terms in table.items():
        if len(terms) == 1 and None not in terms and name not in plain:
            out[name] = next(iter(terms))
    # second pass so that properties using properties are expanded
    model._prop_cache = out  # type: ignore[attr-defined]
    return out


__all__ = [
    "AnalysisError",
    "ClassInfo",
    "Lowering",
    "show",
]
