"""Static verification of biopragmatics/curies (see /verif/DESIGN.md)."""
