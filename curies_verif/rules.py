"""Shared recognisers: provenance / field cover, index tables (IDX), None-discipline (LOOKUP)."""

from __future__ import annotations

from dataclasses import dataclass

from .model import ClassInfo, AnalysisError, FunctionInfo
from .report import Cx, Ob
from .summ import Ctx, Ev, Summary, describe_path
from .terms import NONE, callee_name, concat_parts, is_const, op, receiver, show, subterms

API = "curies.api"
CONV = "curies.api.Converter"
CANON = {"prefix", "uri_prefix", "pattern"}
LISTS = {"prefix_synonyms", "uri_prefix_synonyms"}
CURIE_SIDE = {"prefix", "prefix_synonyms"}
URI_SIDE = {"uri_prefix", "uri_prefix_synonyms"}
TABLES = {
    # table -> (key fields, value field)
    "prefix_map": (CURIE_SIDE, "uri_prefix"),
    "synonym_to_prefix": (CURIE_SIDE, "prefix"),
    "reverse_prefix_map": (URI_SIDE, "prefix"),
    "trie": (URI_SIDE, "prefix"),
    "pattern_map": ({"prefix"}, "pattern"),
}
PASS_THROUGH_CALLS = {"sorted", "list", "set", "tuple", "reversed", "iter", "frozenset"}


def where(fn: FunctionInfo, line: int) -> str:
    return f"src/curies/{fn.module.relpath}:{line}"


# ---------------------------------------------------------------------- provenance
class Prov:
    """Where bound variables come from (loop targets, comprehension targets)."""

    def __init__(self, summary: Summary | None = None) -> None:
        self.binders: dict[int, tuple] = {}  # bv id -> (iter term, position path)
        self.summary = summary
        if summary is not None:
            for ev, _ in summary.walk():
                if ev.kind == "loop":
                    self.add_binding(ev.a, ev.b)
            for t, _, _ in summary.all_terms():
                self.scan(t)

    def scan(self, t) -> None:
        for s in subterms(t):
            if op(s) == "comp":
                for tgt, it, _ in s[3]:
                    self.add_binding(tgt, it)

    def add_binding(self, tgt, it, path=()) -> None:
        if op(tgt) == "bv":
            self.binders[tgt[1]] = (it, path)
        elif op(tgt) == "tuple":
            for i, x in enumerate(tgt[1]):
                if op(x) == "star":
                    self.add_binding(x[1], it, path + (("tail", i),))
                else:
                    self.add_binding(x, it, path + (i,))
        self.scan(it)

    def partial(self, t, depth: int = 0):
        """A bound variable that ranges over a proper SLICE of its source (``xs[n:]``, ``xs[:k]``):
        it does not cover the source.  Returns the slice term or None."""
        if depth > 4 or op(t) != "bv" or t[1] not in self.binders:
            return None
        it, _ = self.binders[t[1]]
        seen = 0
        while op(it) == "call" and op(it[1]) == "builtin" and it[1][1] in ("sorted", "list", "tuple", "reversed", "iter") and it[2] and seen < 4:
            it = it[2][0]
            seen += 1
        if op(it) == "slice":
            lo, hi, st = it[2], it[3], it[4]
            full = (is_const(lo, None) or is_const(lo, 0)) and is_const(hi, None) and (is_const(st, None) or is_const(st, 1))
            if not full:
                return it
        return None

    # -- alternatives a value may equal ------------------------------------------------
    def vals(self, t, depth: int = 0) -> list:
        if depth > 8:
            return [t]
        if op(t) == "bv" and t[1] in self.binders:
            it, path = self.binders[t[1]]
            alts = self.elems(it, depth + 1)
            for i in path:
                nxt = []
                if isinstance(i, tuple):  # ('tail', k): the rest of a sequence from position k
                    for a in alts:
                        nxt.append(("slice", a, ("const", i[1]), NONE, NONE))
                    alts = nxt
                    continue
                for a in alts:
                    if op(a) == "T" and i < len(a[1]):
                        nxt.extend(a[1][i])
                    elif op(a) == "elemof":
                        nxt.append(("item", a, ("const", i)))
                    else:
                        nxt.append(("item", a, ("const", i)))
                alts = nxt
            return alts
        if op(t) == "ifexp":
            return self.vals(t[2], depth + 1) + self.vals(t[3], depth + 1)
        return [t]

    def elems(self, it, depth: int = 0) -> list:
        """Alternatives for an element of the iterable ``it``."""
        if depth > 8:
            return [("elemof", it)]
        o = op(it)
        if o in ("list", "tuple", "set"):
            out = []
            for e in it[1]:
                if op(e) == "star":
                    out.extend(self.elems(e[1], depth + 1))
                else:
                    out.extend(self.vals(e, depth + 1))
            return out
        if o == "bin" and it[1] == "+":
            return self.elems(it[2], depth + 1) + self.elems(it[3], depth + 1)
        if o == "call":
            name = callee_name(it)
            f = it[1]
            args = it[2]
            if op(f) == "builtin" and name in PASS_THROUGH_CALLS and args:
                return self.elems(args[0], depth + 1)
            if op(f) == "attr" and f[1] == ("builtin", "dict") and name == "fromkeys" and args:
                return self.elems(args[0], depth + 1)  # the distinct elements, in order of first occurrence
            if op(f) == "ext" and f[1] == "itertools.product":
                return [("T", tuple(self.elems(a, depth + 1) for a in args))]
            if op(f) == "ext" and f[1] in ("itertools.combinations", "itertools.permutations") and len(args) == 2 and is_const(args[1]):
                e = self.elems(args[0], depth + 1)
                return [("T", tuple(e for _ in range(args[1][1])))]
            if op(f) == "ext" and f[1] == "itertools.pairwise" and args:
                e = self.elems(args[0], depth + 1)
                return [("T", (e, e))]
            if op(f) == "builtin" and name == "enumerate" and args:
                return [("T", ([("index",)], self.elems(args[0], depth + 1)))]
            if op(f) == "builtin" and name == "zip":
                return [("T", tuple(self.elems(a, depth + 1) for a in args))]
            if op(f) == "attr" and name == "items" and not args:
                if op(f[1]) == "comp" and f[1][1] == "dict":
                    for tgt, src, _ in f[1][3]:
                        self.add_binding(tgt, src)
                    return [("T", (self.vals(f[1][2][1], depth + 1), self.vals(f[1][2][2], depth + 1)))]
                return [("T", ([("keyof", f[1])], [("valof", f[1])]))]
            if op(f) == "attr" and name == "values" and not args:
                return [("valof", f[1])]
            if op(f) == "attr" and name == "keys" and not args:
                return [("keyof", f[1])]
        if o == "comp" and it[1] in ("list", "set", "gen"):
            for tgt, src, _ in it[3]:
                self.add_binding(tgt, src)
            return self.vals(it[2], depth + 1)
        if o == "slice":
            return self.elems(it[1], depth + 1)
        if o == "new" and it[1] in ("list", "set") and self.summary is not None:
            out = []
            init = it[4] if len(it) > 4 else None
            if op(init) in ("list", "set", "tuple"):
                out.extend(self.elems(init, depth + 1))
            for ev, _ in self.summary.mutations_of(it):
                if ev.kind == "expr" and op(ev.a) == "call":
                    m, args = callee_name(ev.a), ev.a[2]
                    if m in ("append", "add", "insert") and args:
                        out.extend(self.vals(args[-1], depth + 1))
                    elif m in ("extend", "update") and args:
                        out.extend(self.elems(args[0], depth + 1))
            return out or [("elemof", it)]
        return [("elemof", it)]

    # -- record field cover ---------------------------------------------------------------
    def fields(self, t) -> set:
        """Set of (record term, field) pairs ``t`` may denote; ('?', alt) for anything else."""
        out = set()
        for a in self.vals(t):
            if op(a) == "attr" and a[2] in CANON:
                out.add((a[1], a[2]))
            elif op(a) == "elemof" and op(a[1]) == "attr" and a[1][2] in LISTS:
                out.add((a[1][1], a[1][2]))
            else:
                out.add(("?", a))
        return out

    def field_names(self, t) -> set:
        return {f for _, f in self.fields(t)}

    def record_of(self, t):
        """The record term a field-valued term belongs to (None if mixed/unknown)."""
        recs = {r for r, _ in self.fields(t)}
        return next(iter(recs)) if len(recs) == 1 and "?" not in recs else None


# ---------------------------------------------------------------------- index tables
@dataclass
class Entry:
    table: str
    key_fields: frozenset
    key_unknown: bool
    value: tuple
    value_field: str | None
    conditions: tuple  # guard/filter terms under which the write happens
    site: str
    fn: str
    line: int
    record: tuple | None
    key: tuple | None = None


def _value_field(prov: Prov, v) -> str | None:
    fs = prov.fields(v)
    if len(fs) == 1:
        r, f = next(iter(fs))
        if r != "?":
            return f
    return None


def _partial_cond(prov, key) -> tuple:
    sl = prov.partial(key) if prov is not None else None
    return ((("partial", sl), True),) if sl is not None else ()


def _contains_stmt(paths_or_path, ev: Ev) -> bool:
    for e in paths_or_path.events:
        if e.line == ev.line and e.kind == ev.kind:
            return True
        if e.body and any(_contains_stmt(q, ev) for q in e.body):
            return True
    return False


def bypass_cond(s: Summary, ev: Ev) -> tuple:
    """A statement that lies on both arms of every test is still conditional when some complete path of the
    function (an early ``return``) never reaches it: (('bypass', exit lines), True)."""
    exits = set()
    for p in s.paths:
        if p.out is not None and p.out[0] == "raise":
            continue
        if not _contains_stmt(p, ev):
            exits.add(p.out[2] if p.out is not None and len(p.out) > 2 else 0)
    return ((("bypass", tuple(sorted(exits))), True),) if exits else ()


def _raise_only_guards(s: Summary, guards: tuple) -> tuple:
    """Drop the must-guards whose other arm always raises: `if not x: raise ...` in front of a statement does not
    make the statement conditional - when the test fails there is no result at all (the constructor / call fails),
    not a result with something missing."""
    def all_paths(paths):
        for p in paths:
            yield p
            for e in p.events:
                if e.body:
                    yield from all_paths(e.body)

    keep = []
    for a, pol in guards:
        other = [p for p in all_paths(s.paths) if any(g.kind == "guard" and g.a == a and g.b == (not pol) for g in p.events)]
        if other and all(p.out is not None and p.out[0] == "raise" for p in other):
            continue
        keep.append((a, pol))
    return tuple(keep)


def _idempotent_skip_guards(s: Summary, ev: Ev, guards: tuple) -> tuple:
    """Drop the guards under which a keyed write ``T[k] = v`` is skipped although it would change nothing:
    ``T.get(k) != v`` (the entry is there already), and ``k != k2`` where ``T[k2] = v`` is written
    unconditionally with the same value (a synonym repeating the canonical name)."""
    if not (ev.kind == "store" and op(ev.a) == "item"):
        return guards
    T, k, v = ev.a[1], ev.a[2], ev.b
    got = ("call", ("attr", T, "get"), (k,), ())
    keep = []
    uncond = None
    for a, pol in guards:
        if op(a) == "cmp" and a[1] == "==" and {a[2], a[3]} == {got, v} and pol is False:
            continue
        if op(a) == "cmp" and a[1] == "==" and k in (a[2], a[3]) and pol is False:
            k2 = a[3] if a[2] == k else a[2]
            if uncond is None:
                uncond = [(e2.a[2], e2.b) for e2, c2 in s.walk() if e2.kind == "store" and op(e2.a) == "item" and e2.a[1] == T and not [g for g in c2.guards if g.kind == "guard"]]
            if (k2, v) in uncond:
                continue
        keep.append((a, pol))
    return tuple(keep)


def _conds(ctx: Ctx, s: Summary | None = None, ev: Ev | None = None) -> tuple:
    if s is not None and ev is not None:
        return _idempotent_skip_guards(s, ev, _raise_only_guards(s, s.must_guards(ev))) + bypass_cond(s, ev)
    out = []
    for g in ctx.guards:
        if g.kind == "guard":
            out.append((g.a, g.b))
    return tuple(out)


def dict_builder_entries(cx: Cx, fn: FunctionInfo, table: str, ob_id: str) -> list[Entry]:
    """Entries of the dict a builder function returns (loop form or comprehension form)."""
    s = cx.summary(fn, ob_id)
    prov = Prov(s)
    out: list[Entry] = []
    rets = s.returns()
    if not rets:
        raise AnalysisError(f"{fn.qualname} has no return", ob_id)
    for t, ctx in rets:
        if ctx.loops:
            raise AnalysisError(f"{fn.qualname} returns from inside a loop", ob_id)
        if op(t) == "new" and t[1] in ("dict", "defaultdict"):
            init = t[4] if len(t) > 4 else None
            if op(init) == "dict":
                for k, v in init[1]:
                    if k is None:
                        raise AnalysisError(f"dict splat in builder {fn.qualname}", ob_id)
                    kf = prov.fields(k)
                    out.append(Entry(table, frozenset(f for r, f in kf if r != "?"), any(r == "?" for r, _ in kf), v, _value_field(prov, v), (), where(fn, t[3]), fn.qualname, t[3], prov.record_of(k)))
            for ev, ectx in s.mutations_of(t):
                if ev.kind == "store" and op(ev.a) == "item" and ev.a[1] == t:
                    k, v = ev.a[2], ev.b
                    kf = prov.fields(k)
                    rec = prov.record_of(k)
                    out.append(
                        Entry(table, frozenset(f for r, f in kf if r != "?"), any(r == "?" for r, _ in kf), v, _value_field(prov, v), _conds(ectx, s, ev) + _partial_cond(prov, k), where(fn, ev.line), fn.qualname, ev.line, rec)
                    )
                elif ev.kind == "expr" and op(ev.a) == "call" and callee_name(ev.a) == "setdefault" and ev.a[1][1] == t and len(ev.a[2]) == 2:
                    k, v = ev.a[2]
                    kf = prov.fields(k)
                    out.append(Entry(table, frozenset(f for r, f in kf if r != "?"), any(r == "?" for r, _ in kf), v, _value_field(prov, v), _conds(ectx, s, ev) + _partial_cond(prov, k), where(fn, ev.line), fn.qualname, ev.line, prov.record_of(k), k))
                elif (fk := _fromkeys_update(ev, t)) is not None:
                    keys, v = fk
                    kf = iter_fields(prov, keys)
                    out.append(Entry(table, frozenset(f for r, f in kf if r != "?"), any(r == "?" for r, _ in kf), v, _value_field(prov, v), _conds(ectx, s, ev), where(fn, ev.line), fn.qualname, ev.line, _iter_record(prov, keys)))
                elif (pc := _pairs_update(ev, t)) is not None:
                    prov.scan(pc)
                    k, v = pc[2][1], pc[2][2]
                    conds = tuple((c, True) for g in pc[3] for c in g[2])
                    kf = prov.fields(k)
                    out.append(Entry(table, frozenset(f for r, f in kf if r != "?"), any(r == "?" for r, _ in kf), v, _value_field(prov, v), _conds(ectx, s, ev) + conds + _partial_cond(prov, k), where(fn, ev.line), fn.qualname, ev.line, prov.record_of(k)))
                else:
                    raise AnalysisError(f"unrecognised mutation of the result dict in {fn.qualname} at line {ev.line}", ob_id)
        elif op(t) == "comp" and t[1] == "dict":
            prov.scan(t)
            kv = t[2]
            conds = tuple((c, True) for g in t[3] for c in g[2])
            kf = prov.fields(kv[1])
            out.append(
                Entry(table, frozenset(f for r, f in kf if r != "?"), any(r == "?" for r, _ in kf), kv[2], _value_field(prov, kv[2]), conds, where(fn, ctx.path.out[2] if ctx.path.out else fn.node.lineno), fn.qualname, ctx.path.out[2] if ctx.path.out else fn.node.lineno, prov.record_of(kv[1]))
            )
        elif op(t) == "dict":
            for k, v in t[1]:
                if k is None:
                    raise AnalysisError(f"dict splat in builder {fn.qualname}", ob_id)
                kf = prov.fields(k)
                out.append(Entry(table, frozenset(f for r, f in kf if r != "?"), any(r == "?" for r, _ in kf), v, _value_field(prov, v), _conds(ctx), where(fn, fn.node.lineno), fn.qualname, fn.node.lineno, prov.record_of(k)))
        else:
            raise AnalysisError(f"builder {fn.qualname} returns an unrecognised term {show(t)[:80]}", ob_id)
    # de-duplicate (the same store appears on several paths)
    seen = {}
    for e in out:
        seen.setdefault((e.line, e.key_fields, e.value, e.conditions), e)
    return list(seen.values())


def _fromkeys_update(ev, target):
    """``target.update(dict.fromkeys(KEYS, VALUE))`` -> (KEYS, VALUE)."""
    c = ev.a
    if ev.kind != "expr" or op(c) != "call" or callee_name(c) != "update" or op(c[1]) != "attr" or c[1][1] != target or len(c[2]) != 1 or c[3]:
        return None
    a = c[2][0]
    if op(a) == "call" and a[1] == ("attr", ("builtin", "dict"), "fromkeys") and len(a[2]) == 2 and not a[3]:
        return a[2][0], a[2][1]
    return None


def _pairs_update(ev, target):
    """``target.update(<(k, v) pairs or {k: v} comprehension>)`` -> the dict comprehension it stands for."""
    c = ev.a
    if ev.kind != "expr" or op(c) != "call" or callee_name(c) != "update" or op(c[1]) != "attr" or c[1][1] != target or len(c[2]) != 1 or c[3]:
        return None
    a = c[2][0]
    if op(a) == "comp" and a[1] == "dict":
        return a
    if op(a) == "comp" and a[1] in ("gen", "list") and op(a[2]) == "tuple" and len(a[2][1]) == 2:
        return ("comp", "dict", ("kv", a[2][1][0], a[2][1][1]), a[3])
    return None


def iter_fields(prov: "Prov", it) -> set:
    """Record fields the ELEMENTS of an iterable term denote."""
    out = set()
    for a in prov.elems(it):
        if op(a) == "attr" and a[2] in CANON:
            out.add((a[1], a[2]))
        elif op(a) == "elemof" and op(a[1]) == "attr" and a[1][2] in LISTS:
            out.add((a[1][1], a[1][2]))
        else:
            out.add(("?", a))
    return out


def _iter_record(prov: "Prov", it):
    recs = {r for r, _ in iter_fields(prov, it)}
    return next(iter(recs)) if len(recs) == 1 and "?" not in recs else None


def _strip_views(t):
    """dict(x) / x.items() / list(x) / x.copy() / x[:] denote the same entries as x."""
    from .terms import is_const

    while True:
        if op(t) == "call" and t[1] in (("builtin", "dict"), ("builtin", "list"), ("builtin", "tuple")) and len(t[2]) == 1 and not t[3]:
            t = t[2][0]
        elif op(t) == "call" and op(t[1]) == "attr" and t[1][2] in ("items", "copy") and not t[2]:
            t = t[1][1]
        elif op(t) == "slice" and (is_const(t[2], None) or is_const(t[2], 0)) and is_const(t[3], None) and (is_const(t[4], None) or is_const(t[4], 1)):
            t = t[1]
        else:
            return t


def merger(cx: Cx) -> FunctionInfo | None:
    """The method that merges an incoming record into one the converter owns: ``Converter._merge`` - or, when it
    has been renamed / fused with the indexing, the Converter method with Record parameters ``record`` and ``into``
    that adds to the synonym lists of ``into``."""
    import ast as _ast

    fn = cx.model.functions.get(f"{CONV}._merge")
    if fn is not None:
        return fn
    ci = cx.model.classes.get(CONV)
    hits = []
    for m in (ci.methods.values() if ci is not None else ()):
        names = [p.name for p in m.params]
        if "into" not in names or "record" not in names:
            continue
        for n in _ast.walk(m.node):
            if isinstance(n, _ast.Call) and isinstance(n.func, _ast.Attribute) and n.func.attr in ("append", "extend", "insert") and isinstance(n.func.value, _ast.Attribute) and n.func.value.attr.endswith("_synonyms") and isinstance(n.func.value.value, _ast.Name) and n.func.value.value.id == "into":
                hits.append(m)
                break
    return hits[0] if len(hits) == 1 else None


def merger_name(cx: Cx) -> str:
    m = merger(cx)
    return m.name if m is not None else "_merge"


def constructor_tables(cx: Cx, ob_id: str) -> dict[str, list[Entry]]:
    """Entries of each derived table as built by ``Converter.__init__``."""
    init = cx.fn(f"{CONV}.__init__", ob_id)
    s = cx.summary(init, ob_id)
    self_name = init.self_name
    tables: dict[str, list[Entry]] = {}
    alias: dict[str, str] = {}
    for ev, ctx in s.distinct_events("store"):
        tgt = ev.a
        if not (op(tgt) == "attr" and tgt[1] == ("param", self_name)):
            continue
        name = tgt[2]
        v = ev.b
        if op(v) == "call" and op(v[1]) == "func":
            b = cx.model.functions[v[1][1]]
            if name in TABLES or _returns_dict(b):
                tables[name] = _for_this_call(dict_builder_entries(cx, b, name, ob_id), b, v)
                for e in tables[name]:
                    e.conditions = e.conditions + s.must_guards(ev)
                continue
        if op(v) == "call" and callee_name(v) == "StringTrie" and not v[2] and not v[3]:
            # empty trie filled by one .update(<table>) in the constructor
            ups = [e2.a for e2, _ in s.distinct_events("expr") if op(e2.a) == "call" and callee_name(e2.a) == "update" and e2.a[1][1] == tgt and len(e2.a[2]) == 1]
            if len(ups) == 1:
                src = ups[0][2][0]
                if op(src) == "attr" and src[1] == ("param", self_name):
                    alias[name] = src[2]
                    continue
                if op(src) == "call" and op(src[1]) == "func":
                    tables[name] = dict_builder_entries(cx, cx.model.functions[src[1][1]], name, ob_id)
                    continue
        if op(v) == "call" and callee_name(v) == "StringTrie" and not v[2] and not v[3] and name not in alias and name not in tables:
            # empty trie filled item by item from another table: for k, v in <table>.items(): self.trie[k] = v
            for e2, c2 in s.walk():
                if e2.kind == "store" and op(e2.a) == "item" and e2.a[1] == tgt and c2.loops:
                    lp2 = c2.loops[-1]
                    it2 = _strip_views(lp2.b)
                    if op(lp2.a) == "tuple" and len(lp2.a[1]) == 2 and e2.a[2] == lp2.a[1][0] and e2.b == lp2.a[1][1] and op(lp2.b) == "call" and callee_name(lp2.b) == "items":
                        src2 = lp2.b[1][1]
                        if op(src2) == "attr" and src2[1] == ("param", self_name):
                            alias[name] = src2[2]
                        elif op(src2) == "call" and op(src2[1]) == "func":
                            tables[name] = dict_builder_entries(cx, cx.model.functions[src2[1][1]], name, ob_id)
            if name in alias or name in tables:
                continue
        if op(v) == "call" and callee_name(v) == "StringTrie" and len(v[2]) == 1:
            src = _strip_views(v[2][0])
            if op(src) == "attr" and src[1] == ("param", self_name):
                alias[name] = src[2]
                continue
            if op(src) == "call" and op(src[1]) == "func":
                tables[name] = dict_builder_entries(cx, cx.model.functions[src[1][1]], name, ob_id)
                continue
        if op(v) in ("comp",) and v[1] == "dict" and name in TABLES:
            # inline dict comprehension in __init__
            prov = Prov(s)
            prov.scan(v)
            kf = prov.fields(v[2][1])
            conds = tuple((c, True) for g in v[3] for c in g[2])
            tables[name] = [Entry(name, frozenset(f for r, f in kf if r != "?"), any(r == "?" for r, _ in kf), v[2][2], _value_field(prov, v[2][2]), conds, where(init, ev.line), init.qualname, ev.line, prov.record_of(v[2][1]))]
    # tables created empty and filled entry by entry inside __init__ itself (one pass over the records for all of them)
    inline = None
    for name in TABLES:
        if name in tables or name in alias:
            continue
        if inline is None:
            inline = index_method_entries(cx, init, ob_id)
        if inline.get(name):
            tables[name] = inline[name]
    # ... or by running the class's own indexing step over every record: `for record in records: self._index(record)`
    missing_ = [n for n in TABLES if n not in tables and n not in alias]
    if missing_:
        idx_fn = cx.model.functions.get(f"{CONV}._index")
        me_ = ("param", self_name)
        calls_ = [(e2.a, c2) for e2, c2 in s.walk() if e2.kind == "expr" and op(e2.a) == "call" and op(e2.a[1]) == "attr" and e2.a[1][1] == me_ and e2.a[1][2] == "_index" and c2.loops and e2.a[2][:1] == (c2.loops[-1].a,)]
        if idx_fn is not None and calls_:
            call_, cctx_ = calls_[0]
            over_records = any(x == ("param", init.params[1].name) for x in subterms(cctx_.loops[-1].b)) if len(init.params) > 1 else False
            if over_records and not [g for g in cctx_.guards if g.kind == "guard" and g.line >= cctx_.loops[-1].line]:
                via = index_method_entries(cx, idx_fn, ob_id)
                for n in missing_:
                    if via.get(n):
                        tables[n] = _for_this_call([Entry(n, e.key_fields, e.key_unknown, e.value, e.value_field, e.conditions, e.site, e.fn, e.line, e.record) for e in via[n]], idx_fn, call_)
    for name, src in alias.items():
        if src in tables:
            tables[name] = [Entry(name, e.key_fields, e.key_unknown, e.value, e.value_field, e.conditions, e.site, e.fn, e.line, e.record) for e in tables[src]]
    # entries __init__ adds item by item to a table it has built wholesale (aliases, extra spellings)
    if inline is None:
        inline = index_method_entries(cx, init, ob_id)
    for name, ents in inline.items():
        if name in TABLES and name in tables and not any(e.fn == init.qualname for e in tables[name]):
            # (a bare loop variable as key is the item-by-item copy of another table: the alias handled above)
            tables[name] = list(tables[name]) + [e for e in ents if e.key_unknown and not e.key_fields and op(e.key) != "bv"]
    return tables


def _for_this_call(entries: list, builder: FunctionInfo, call_t) -> list:
    """Entries of a table builder as THIS call runs it: a condition that only tests a parameter the call (or the
    default) binds to a literal is decided - true ones are dropped from the entry, an entry under a false one is
    not written by this call at all (a keyword that lets ANOTHER caller build a smaller table)."""
    b = bind_args(builder, call_t)
    if b is None:
        return entries
    out = []
    for e in entries:
        keep, conds = True, []
        for c, pol in e.conditions:
            v = b.get(c[1]) if op(c) == "param" else None
            if v is not None and is_const(v):
                if bool(v[1]) != bool(pol):
                    keep = False
                    break
                continue
            conds.append((c, pol))
        if keep:
            e.conditions = tuple(conds)
            out.append(e)
    return out


def _returns_dict(fn: FunctionInfo) -> bool:
    r = fn.node.returns
    import ast

    return r is not None and ast.unparse(r).startswith(("dict", "Mapping", "defaultdict"))


def index_method_entries(cx: Cx, fn: FunctionInfo, ob_id: str) -> dict[str, list[Entry]]:
    """Entries written by an incremental indexer (stores ``self.<table>[k] = v``)."""
    s = cx.summary(fn, ob_id)
    prov = Prov(s)
    self_name = fn.self_name
    out: dict[str, list[Entry]] = {}
    for ev, ctx in s.distinct_events("store"):
        tgt = ev.a
        if op(tgt) == "item" and op(tgt[1]) == "attr" and tgt[1][1] == ("param", self_name):
            table = tgt[1][2]
            kf = prov.fields(tgt[2])
            out.setdefault(table, []).append(
                Entry(table, frozenset(f for r, f in kf if r != "?"), any(r == "?" for r, _ in kf), ev.b, _value_field(prov, ev.b), _conds(ctx, s, ev) + _partial_cond(prov, tgt[2]), where(fn, ev.line), fn.qualname, ev.line, prov.record_of(tgt[2]), tgt[2])
            )
    for ev, ctx in s.distinct_events("expr"):
        c = ev.a
        if op(c) == "call" and callee_name(c) == "update" and op(c[1]) == "attr" and op(c[1][1]) == "attr" and c[1][1][1] == ("param", self_name):
            fk = _fromkeys_update(ev, c[1][1])
            if fk is not None:
                table = c[1][1][2]
                keys, v = fk
                kf = iter_fields(prov, keys)
                out.setdefault(table, []).append(
                    Entry(table, frozenset(f for r, f in kf if r != "?"), any(r == "?" for r, _ in kf), v, _value_field(prov, v), _conds(ctx, s, ev), where(fn, ev.line), fn.qualname, ev.line, _iter_record(prov, keys))
                )
                continue
            pc = _pairs_update(ev, c[1][1])
            if pc is not None:
                table = c[1][1][2]
                prov.scan(pc)
                k, v = pc[2][1], pc[2][2]
                conds = tuple((cc, True) for g in pc[3] for cc in g[2])
                kf = prov.fields(k)
                out.setdefault(table, []).append(
                    Entry(table, frozenset(f for r, f in kf if r != "?"), any(r == "?" for r, _ in kf), v, _value_field(prov, v), _conds(ctx, s, ev) + conds + _partial_cond(prov, k), where(fn, ev.line), fn.qualname, ev.line, prov.record_of(k), k)
                )
                continue
        if op(c) == "call" and callee_name(c) == "setdefault" and op(c[1]) == "attr" and op(c[1][1]) == "attr" and c[1][1][1] == ("param", self_name) and len(c[2]) == 2:
            table = c[1][1][2]
            kf = prov.fields(c[2][0])
            out.setdefault(table, []).append(
                Entry(table, frozenset(f for r, f in kf if r != "?"), any(r == "?" for r, _ in kf), c[2][1], _value_field(prov, c[2][1]), _conds(ctx, s, ev) + ((("absent",), True),), where(fn, ev.line), fn.qualname, ev.line, prov.record_of(c[2][0]), c[2][0])
            )
    return out


def _reset_unconditionally(cx: Cx, ob: Ob, attr: str) -> bool:
    """Does every path of ``Converter._index`` empty ``self.<attr>`` (``.clear()`` or rebinding to an empty
    display), outside any test or loop?"""
    ix = cx.model.functions.get(f"{CONV}._index")
    if ix is None or not ix.self_name:
        return False
    s = cx.summary(ix, ob.id)
    me = ("param", ix.self_name)
    tgt = ("attr", me, attr)

    def resets(p) -> bool:
        for ev in p.events:
            if ev.kind == "expr" and op(ev.a) == "call" and ev.a[1] == ("attr", tgt, "clear"):
                return True
            if ev.kind == "store" and ev.a == tgt and is_const(ev.b, None):
                return True  # a single slot emptied
            if ev.kind == "store" and ev.a == tgt and (op(ev.b) in ("dict", "list", "set", "tuple") and not ev.b[1] or (op(ev.b) == "new" and not s.mutations_of(ev.b) and op(ev.b[4] if len(ev.b) > 4 else None) in ("dict", "list", "set") and not ev.b[4][1])):
                return True
        return False

    normal = [p for p in s.paths if p.out is None or p.out[0] == "return"]
    return bool(normal) and all(resets(p) for p in normal)


def self_state_writes(cx: Cx, cls_q: str, ob_id: str) -> list[tuple[FunctionInfo, str, Ev, str]]:
    """All writes through ``self`` in methods of a class: (method, attribute, event, how)."""
    ci = cx.model.cls(cls_q, ob_id)
    out = []
    for m in ci.methods.values():
        if m.self_name is None or m.is_classmethod:
            continue
        if cx.S.inlinable(m) and _has_caller(cx, m):
            continue  # a helper unknown to the rules: its writes are attributed to its callers (inlined)
        s = cx.summary(m, ob_id, full=True)  # who writes state holds for every call
        me = ("param", m.self_name)
        for ev, ctx in s.walk():
            if ev.kind == "store":
                t = ev.a
                if op(t) == "attr" and t[1] == me:
                    out.append((m, t[2], ev, "assign"))
                elif op(t) == "item" and op(t[1]) == "attr" and t[1][1] == me:
                    out.append((m, t[1][2], ev, "item-store"))
            elif ev.kind in ("expr", "bind"):
                t = ev.a if ev.kind == "expr" else ev.b
                for c in subterms(t):
                    if op(c) == "call" and op(c[1]) == "attr" and callee_name(c) in MUTATORS:
                        r = c[1][1]
                        if op(r) == "attr" and r[1] == me:
                            out.append((m, r[2], ev, f"call .{callee_name(c)}()"))
                        elif op(r) == "item" and op(r[1]) == "attr" and r[1][1] == me:
                            out.append((m, r[1][2], ev, f"call [..].{callee_name(c)}()"))
            elif ev.kind == "delete":
                t = ev.a
                if op(t) == "item" and op(t[1]) == "attr" and t[1][1] == me:
                    out.append((m, t[1][2], ev, "delete"))
    return out


def _has_caller(cx: Cx, m: FunctionInfo) -> bool:
    import ast as _ast

    for mod in cx.model.modules.values():
        for n in _ast.walk(mod.tree):
            if isinstance(n, _ast.Call) and isinstance(n.func, _ast.Attribute) and n.func.attr == m.name:
                return True
    return False


MUTATORS = {"append", "extend", "insert", "remove", "pop", "clear", "sort", "reverse", "update", "add", "discard", "setdefault", "popitem", "__setitem__", "__delitem__", "cache_clear"}


# ---------------------------------------------------------------------- None discipline
STRING_TABLES = {"prefix_map", "synonym_to_prefix", "reverse_prefix_map"}


def optional_str_methods(cx: Cx) -> set[str]:
    """Names of Converter methods whose return annotation is ``str | None``."""
    import ast

    out = set()
    ci = cx.model.cls(CONV)
    for m in ci.methods.values():
        r = m.node.returns
        if r is None:
            continue
        txt = ast.unparse(r).replace(" ", "")
        if txt in ("str|None", "None|str", "Optional[str]"):
            out.add(m.name)
    return out


def is_optional_str_lookup(cx: Cx, t, opt_methods: set[str]) -> str | None:
    """Describe ``t`` if it is a lookup whose legitimate results include the empty string."""
    if op(t) == "call":
        name = callee_name(t)
        r = receiver(t)
        if name == "get" and op(r) == "attr" and r[2] in STRING_TABLES and len(t[2]) == 1:
            return f"{r[2]}.get(...)"
        if name in opt_methods and op(t[1]) == "attr":
            kw = dict(t[3])
            if is_const(kw.get("strict"), True):
                return None
            return f"{name}(...)"
    if op(t) == "item" and op(t[1]) == "attr" and t[1][2] in STRING_TABLES:
        return f"{t[1][2]}[...]"
    return None


def truthiness_tests(t) -> list[tuple]:
    """Sub-terms of a condition that are tested by truthiness (not by comparison)."""
    o = op(t)
    if o in ("and", "or"):
        out = []
        for x in t[1]:
            out.extend(truthiness_tests(x))
        return out
    if o in ("not", "truth"):
        return truthiness_tests(t[1])
    if o == "cmp":
        return []
    if o == "call" and callee_name(t) == "bool" and t[2]:
        return truthiness_tests(t[2][0])
    return [t]


def classes_with_falsy_instances(cx: Cx) -> dict:
    """Package classes whose ``__bool__`` can answer False for an instance with legitimate field values:
    {class name: (ClassInfo, verdict, text)} with verdict True (can be False), False (never) or None (not decided).
    A NamedTuple / pydantic model without ``__bool__`` is always truthy - which is what `if reference:` on a
    ``ReferenceTuple | None`` relies on."""
    import ast as _ast

    from .terms import is_const, show

    out = {}
    for ci in cx.model.classes.values():
        m = ci.methods.get("__bool__")
        if m is None:
            continue
        me = ("param", m.params[0].name) if m.params else None
        str_fields = {n.target.id for n in ci.node.body if isinstance(n, _ast.AnnAssign) and isinstance(n.target, _ast.Name) and _ast.unparse(n.annotation).replace(" ", "") in ("str", "Prefix")}

        def may_be_false(t):
            o = op(t)
            if o == "const":
                return not t[1]
            if o == "truth":
                return may_be_false(t[1])
            if o == "not":
                return None
            if o == "cmp" and t[1] in ("is not", "!=") and is_const(t[3], None) and op(t[2]) == "attr" and t[2][1] == me and t[2][2] in str_fields:
                return False  # a field declared str is never None
            if o == "and":
                vs = [may_be_false(x) for x in t[1]]
                return True if any(v is True for v in vs) else None if any(v is None for v in vs) else False
            if o == "or":
                vs = [may_be_false(x) for x in t[1]]
                return False if any(v is False for v in vs) else None if any(v is None for v in vs) else True
            if o == "ifexp":
                vs = [may_be_false(t[2]), may_be_false(t[3])]
                return True if any(v is True for v in vs) else None if any(v is None for v in vs) else False
            if o == "call" and t[1] == ("builtin", "bool") and len(t[2]) == 1:
                return may_be_false(t[2][0])
            if o == "call" and t[1] in (("builtin", "all"), ("builtin", "any")) and t[2] == (me,):
                return True  # truthiness of the fields: '' is a legitimate prefix / identifier
            if o == "attr" and t[1] == me and t[2] in str_fields:
                return True
            if o == "tuple":
                return not t[1]
            return None

        try:
            rets = [t for t, _ in cx.summary(m).returns()]
        except Exception:  # noqa: BLE001
            rets = []
        vs = [may_be_false(t) for t in rets] or [None]
        verdict = True if any(v is True for v in vs) else None if any(v is None for v in vs) else False
        out[ci.name] = (ci, verdict, "; ".join(show(t)[:60] for t in rets))
    return out


def optional_instance_methods(cx: Cx, cls_names) -> dict:
    """Converter methods whose return annotation is ``<cls> | None``: {method name: class name}."""
    import ast as _ast

    out = {}
    for m in cx.model.cls(CONV).methods.values():
        r = m.node.returns
        if r is None:
            continue
        parts = set(_ast.unparse(r).replace(" ", "").replace("Optional[", "").rstrip("]").split("|"))
        for c in cls_names:
            if c in parts and ("None" in parts or "Optional[" in _ast.unparse(r)):
                out[m.name] = c
    return out


def scan_none_discipline(cx: Cx, ob: Ob, fns: list[FunctionInfo]) -> None:
    """LOOKUP: Optional[str] lookups whose range contains '' must be tested with ``is None``."""
    opt = optional_str_methods(cx)
    falsy = classes_with_falsy_instances(cx)
    opt_inst = optional_instance_methods(cx, set(falsy)) if falsy else {}
    # helpers the scope's functions call, new to the pinned tree: a parameter declared `str | None` that names a
    # prefix / identifier / URI prefix and is tested by truthiness takes '' for "not given"
    import ast as _ast

    from .summ import KNOWN_SIGNATURES as _KS

    helpers = [g for g in cx.model.functions.values() if g.qualname not in _KS and g.parent is None and g.module.name == API]  # api.py: where '' is a legitimate name
    for g in list(fns) + helpers:
        for prm in g.params:
            if prm.name not in ("identifier", "prefix", "uri_prefix", "reference") or prm.annotation is None:
                continue
            ann = _ast.unparse(prm.annotation).replace(" ", "")
            if not ("None" in ann.split("|") or ann.startswith("Optional[")) or "str" not in ann:
                continue
            gs = cx.summary(g, ob.id, full=True)
            for ev, _c in gs.walk():
                if ev.kind == "guard" and any(tt == ("param", prm.name) for tt in truthiness_tests(ev.a)):
                    ob.violate(
                        g.qualname,
                        where(g, ev.line),
                        f"{g.name} tests its `{prm.name}: {ann}` parameter by truthiness (`{show(ev.a)[:40]}`): the empty string - a legitimate {prm.name} (the identifier of a URI equal to its URI prefix, rdflib's default prefix) - is taken for 'not given'; use `is None`",
                        witness=f"{g.name}(.., '') behaves like {g.name}(.., None)",
                        detail=f"truthiness:param:{prm.name}",
                    )
                    break
    for fn in fns:
        s = cx.summary(fn, ob.id)
        seen = set()
        if opt_inst:
            # `if reference:` on a `Cls | None` answer is a None-test only as long as every instance is truthy
            for ev, ctx in s.walk():
                if ev.kind != "guard":
                    continue
                for tt in truthiness_tests(ev.a):
                    if not (op(tt) == "call" and op(tt[1]) == "attr" and callee_name(tt) in opt_inst):
                        continue
                    cname = opt_inst[callee_name(tt)]
                    ci_, verdict, text = falsy[cname]
                    key = (fn.qualname, cname, ev.line)
                    if key in seen:
                        continue
                    seen.add(key)
                    if verdict is True:
                        ob.violate(
                            fn.qualname,
                            where(fn, ev.line),
                            f"the `{cname} | None` answer of {callee_name(tt)}(...) is tested by truthiness, and {cname}.__bool__ (`{text}`) is False for instances with an empty prefix or an empty identifier: a successful answer is taken for 'no match' - the empty prefix (rdflib's default namespace) and the empty identifier (a URI equal to its URI prefix) are legitimate",
                            witness=f"condition `{show(ev.a)[:60]}`; e.g. compress of a URI that equals a registered URI prefix, or lies under the record whose prefix is ''",
                            detail=f"truthiness:{cname}.__bool__",
                        )
                    elif verdict is None:
                        ob.undecide(f"{fn.name} tests the `{cname} | None` answer of {callee_name(tt)}(...) by truthiness and {cname}.__bool__ (`{text}`) was not decided")
                    else:
                        ob.site(f"{where(fn, ev.line)} {fn.qualname}", f"truthiness of a {cname} | None answer; {cname}.__bool__ is never False for an instance")
        for ev, ctx in s.walk():
            conds = []
            if ev.kind == "guard":
                conds.append((ev.a, ev.line))
            for t in (ev.a, ev.b):
                if isinstance(t, tuple):
                    for sub in subterms(t):
                        if op(sub) == "ifexp":
                            conds.append((sub[1], ev.line))
                        if op(sub) == "comp":
                            for g in sub[3]:
                                for c in g[2]:
                                    conds.append((c, ev.line))
        # returns may contain ifexp / boolean operators too
            for cond, line in conds:
                for tt in truthiness_tests(cond):
                    d = is_optional_str_lookup(cx, tt, opt)
                    if d is None:
                        continue
                    key = (fn.qualname, d, line)
                    if key in seen:
                        continue
                    seen.add(key)
                    ob.violate(
                        fn.qualname,
                        where(fn, line),
                        f"result of {d} is tested by truthiness, but the empty string is a legitimate prefix / URI prefix (rdflib default namespace); use `is None` / `is not None`",
                        witness=f"condition `{show(cond)}`: with a registered empty prefix the lookup yields '' which is falsy",
                        detail=f"truthiness:{d}",
                    )
        # FLOW: a str|None result put where a string is needed (a component of a ReferenceTuple, an operand of `+`,
        # an argument of format_curie) on a path that has not tested it: None ends up inside the reference / raises
        # TypeError far from the cause
        def string_positions(t):
            for sub in subterms(t):
                pa = reftuple_args(sub) if op(sub) == "call" else None
                if pa is not None:
                    yield from pa
                if op(sub) == "concat":
                    yield from sub[1]
                if op(sub) == "bin" and sub[1] == "+":
                    yield sub[2]
                    yield sub[3]
                if op(sub) == "call" and callee_name(sub) == "format_curie":
                    yield from sub[2]

        flagged = set()
        for t, ctx in list(s.returns()) + [(ev.b, ctx) for ev, ctx in s.walk() if ev.kind in ("bind", "store") and isinstance(ev.b, tuple)]:
            for x in string_positions(t):
                d = is_optional_str_lookup(cx, x, opt) if op(x) == "call" else None  # a subscript raises, it is never None
                if d is None or (fn.qualname, d) in flagged:
                    continue
                tested = any(g.kind == "guard" and any(y == x for y in subterms(g.a)) for g in ctx.guards) or any(g.kind == "except" for g in ctx.guards)
                if tested:
                    continue
                flagged.add((fn.qualname, d))
                line = ctx.path.out[2] if ctx.path.out is not None and len(ctx.path.out) > 2 else fn.node.lineno
                ob.violate(
                    fn.qualname,
                    where(fn, line),
                    f"the result of {d} (str | None) is used as a string (`{show(t)[:60]}`) on a path that never tests it: when it is None the caller gets a reference holding None or a TypeError instead of the failure answer",
                    detail=f"untested-optional:{d}",
                )
        # ORDER: a str|None result as (part of) a sort key: None and str do not compare, so the sort raises
        # TypeError as soon as one element has no answer and another has
        for t, ev, _ in s.all_terms():
            for c in subterms(t):
                if not (op(c) == "call" and (c[1] in (("builtin", "sorted"), ("builtin", "min"), ("builtin", "max")) or (op(c[1]) == "attr" and c[1][2] == "sort"))):
                    continue
                key = dict(c[3]).get("key")
                if key is None:
                    continue
                bodies = []
                if op(key) == "lambda":
                    bodies = [key[2]]
                elif op(key) in ("func", "closure") and isinstance(key[1], str) and key[1] in cx.model.functions:
                    bodies = [r for r, _ in cx.summary(cx.model.functions[key[1]], ob.id).returns()]
                elif op(key) == "attr" and key[2] in opt:
                    bodies = [("call", key, (("bv", 0, "x"),), ())]
                for b in bodies:
                    for x in subterms(b):
                        d = is_optional_str_lookup(cx, x, opt) if op(x) == "call" else None
                        if d is None or is_const(dict(x[3]).get("passthrough"), True) or (fn.qualname, "sortkey", d) in seen:
                            continue
                        seen.add((fn.qualname, "sortkey", d))
                        ob.violate(
                            fn.qualname,
                            where(fn, ev.line),
                            f"the result of {d} (str | None) is (part of) the sort key in `{show(c)[:50]}`: for a name the converter does not know it is None, and None does not compare with the strings of the other elements - TypeError instead of an order",
                            witness="a remapping with one known and one unknown old prefix: sorted(...) raises TypeError: '<' not supported between 'NoneType' and 'str'",
                            detail=f"optional-sort-key:{d}",
                        )
        for t, ctx in s.returns():
            for sub in subterms(t):
                if op(sub) in ("or", "and"):
                    for x in sub[1][:-1]:
                        d = is_optional_str_lookup(cx, x, opt)
                        if d and not (op(sub) == "or" and is_const(sub[1][-1], "")):
                            ob.violate(fn.qualname, where(fn, fn.node.lineno), f"result of {d} used as boolean operand in a returned value", detail=f"boolop:{d}")
        ob.site(fn, "None-discipline scan")


# ---------------------------------------------------------------------- call binding / inlining
def bind_args(fn: FunctionInfo, call_t: tuple, recv=None) -> dict | None:
    """Map parameter names of ``fn`` to the argument terms of ``call_t`` (defaults lowered lazily as ('default', name))."""
    params = list(fn.params)
    out: dict[str, tuple] = {}
    if fn.cls is not None and not fn.is_staticmethod and params:
        out[params[0].name] = recv if recv is not None else ("unk", "recv")
        params = params[1:]
    pos = [p for p in params if p.kind == "pos"]
    args = list(call_t[2])
    if any(op(a) == "star" for a in args):
        # star-splat of a 2-component value: f(*x) -> f(x[0], x[1]) when the arity fits exactly
        if len(args) == 1 and len(pos) >= 2:
            x = args[0][1]
            need = [p for p in pos if p.default is None]
            args = [("item", x, ("const", i)) for i in range(len(need))]
        else:
            return None
    if len(args) > len(pos):
        return None
    for p, a in zip(pos, args):
        out[p.name] = a
    for k, v in call_t[3]:
        if k is None:
            continue
        if fn.param(k) is None:
            return None
        out[k] = v
    for p in params:
        if p.name not in out and p.kind in ("pos", "kwonly"):
            if p.default is None:
                return None
            import ast

            if isinstance(p.default, ast.Constant):
                out[p.name] = ("const", p.default.value)
            else:
                out[p.name] = ("default", p.name)
    return out


def single_return(cx: Cx, fn: FunctionInfo):
    """The return term of a function that is one straight-line ``return`` (else None)."""
    s = cx.summary(fn)
    if len(s.paths) != 1:
        return None
    p = s.paths[0]
    if p.out is None or p.out[0] != "return":
        return None
    if any(ev.kind not in ("bind",) for ev in p.events):
        return None
    return p.out[1]


def _specialised_return(cx: Cx, m: FunctionInfo, b: dict):
    """The return term of ``m`` for THIS call: paths whose tests of a parameter disagree with the literal the call
    (or the default) binds it to are not taken; exactly one straight-line path must remain."""
    import ast as _ast

    s = cx.summary(m)
    live = []
    for p in s.paths:
        ok = True
        for ev in p.events:
            if ev.kind == "guard":
                a = ev.a
                v = b.get(a[1]) if op(a) == "param" else None
                if op(v) == "default":
                    prm = m.param(v[1])
                    v = ("const", prm.default.value) if prm is not None and isinstance(prm.default, _ast.Constant) else None
                if v is not None and is_const(v):
                    if bool(v[1]) != ev.b:
                        ok = False
                        break
                    continue
                return None
            if ev.kind != "bind":
                return None
        if ok:
            live.append(p)
    if len(live) == 1 and live[0].out is not None and live[0].out[0] == "return":
        return live[0].out[1]
    return None


def inline_methods(cx: Cx, t, self_term, cls_q: str, names: set[str], depth: int = 0):
    """Replace ``self.<name>(...)`` calls by the (single-return) body of the method."""
    from .terms import substitute

    if not isinstance(t, tuple) or depth > 4:
        return t
    if op(t) == "call" and op(t[1]) == "attr" and t[1][2] in names:
        ci = cx.model.cls(cls_q)
        m = cx.model.find_method(ci, t[1][2])
        if m is not None:
            body = single_return(cx, m)
            b = bind_args(m, t, recv=t[1][1])
            if body is None and b is not None:
                body = _specialised_return(cx, m, b)
            if body is not None and b is not None:
                mapping = {("param", k): inline_methods(cx, v, self_term, cls_q, names, depth + 1) for k, v in b.items()}
                return inline_methods(cx, substitute(body, mapping), self_term, cls_q, names, depth + 1)
    return tuple(inline_methods(cx, x, self_term, cls_q, names, depth) if isinstance(x, tuple) else x for x in t)


def positional_shim_check(cx, ob, fn) -> None:
    """A pinned function whose positional-or-keyword parameters have become keyword-only behind a new ``*args``
    (deprecated positional passing kept alive): with 1 .. n values passed by position the function must behave as the
    pinned one does when they are bound, in order, to the parameters that used to sit there."""
    from .summ import KNOWN_SIGNATURES
    from .terms import show, substitute

    sig = KNOWN_SIGNATURES.get(fn.qualname)
    va = next((p for p in fn.params if p.kind == "vararg"), None)
    if sig is None or va is None or va.name in sig:
        return
    pos_now = [p.name for p in fn.params if p.kind == "pos"]
    moved = [n for n in sig if n not in pos_now and fn.param(n) is not None and fn.param(n).kind == "kwonly"]
    if not moved:
        return

    def signature(s_, drop):
        out = set()
        for p_ in s_.paths:
            gs = tuple(sorted((show(g.a), g.b) for g in p_.events if g.kind == "guard" and not any(x == drop for x in subterms(g.a))))
            calls_ = tuple(sorted(show(e.a) for e in p_.events if e.kind == "expr" and op(e.a) == "call" and "warn" not in show(e.a)[:40]))
            o_ = (p_.out[0], show(p_.out[1])[:200]) if p_.out is not None else None
            out.add((gs, calls_, o_))
        return out

    base = cx.summary(fn, ob.id, bind={va.name: ("tuple", ())})
    for k in range(1, len(moved) + 1):
        syms = tuple(("param", f"@pos{i}") for i in range(k))
        got = signature(cx.summary(fn, ob.id, bind={va.name: ("tuple", syms)}), ("param", va.name))
        # the pinned reading: the first k moved parameters ARE the positional values
        want_s = cx.summary(fn, ob.id, bind={va.name: ("tuple", ()), **{moved[i]: syms[i] for i in range(k)}})
        want = signature(want_s, ("param", va.name))
        ob.site(f"{fn.where} {fn.qualname}", f"{k} value(s) by position through *{va.name}")
        if got != want:
            ob.violate(
                fn.qualname,
                fn.where,
                f"{fn.name} keeps positional {moved} alive through *{va.name}, but with {k} value(s) passed by position it does not behave as with {', '.join(f'{moved[i]}=<value {i + 1}>' for i in range(k))}: a flag lands on the wrong parameter (or a keyword given next to it is overridden)",
                witness=f"{fn.name}(x, {', '.join(['True'] * k)}) vs {fn.name}(x, {', '.join(f'{moved[i]}=True' for i in range(k))})",
                detail=f"positional-shim:{k}",
            )
            return


def new_keyword_bindings(cx, fn, in_scope) -> list[dict]:
    """How the call sites in scope run ``fn``: for every call of ``fn`` inside a function for which
    ``in_scope(caller)`` holds, the literal values it passes for keywords the pinned tree does not have (an opt-in
    keyword of a shared helper that one caller switches off and another leaves on).  Distinct binding sets, [{}] if
    there is no such keyword or no call in scope."""
    import ast as _ast

    from .summ import KNOWN_SIGNATURES

    sig = KNOWN_SIGNATURES.get(fn.qualname)
    if sig is None:
        return [{}]
    new = {p.name: p.default.value for p in fn.params if p.name not in sig and isinstance(p.default, _ast.Constant)}
    if not new:
        return [{}]
    out: list[dict] = []
    for g in cx.model.functions.values():
        if not in_scope(g):
            continue
        for n in _ast.walk(g.node):
            if isinstance(n, _ast.Call) and (isinstance(n.func, _ast.Name) and n.func.id == fn.name or isinstance(n.func, _ast.Attribute) and n.func.attr == fn.name):
                b = {}
                for k in n.keywords:
                    if k.arg in new and isinstance(k.value, _ast.Constant):
                        b[k.arg] = k.value.value
                    elif k.arg in new or k.arg is None:
                        b = None  # not a literal: stays symbolic
                        break
                if b is None:
                    b = {}
                else:
                    b = {**{k_: v_ for k_, v_ in new.items()}, **b}
                if b not in out:
                    out.append(b)
    return out or [{}]


def construct_from_full_dump(c) -> bool:
    """``Record.model_construct([_fields_set=..,] **r.model_dump())``: every value of a record that HAS been validated,
    in containers of their own (model_dump copies lists) - a copy, with nothing for the skipped validators to find."""
    if not (op(c) == "call" and len(c[2]) <= 1):
        return False
    splats = [v for k, v in c[3] if k is None]
    named = [k for k, _ in c[3] if k is not None and k != "_fields_set"]
    if len(splats) != 1 or named:
        return False
    d = splats[0]
    return op(d) == "call" and callee_name(d) == "model_dump" and not any(k in ("exclude_unset", "exclude_defaults", "exclude", "include", "exclude_none") for k, _ in d[3]) and not d[2]


def construct_of_plain_strings(c) -> bool:
    """``Record.model_construct(prefix=str(a), uri_prefix=str(b))``: exactly the two canonical fields, both made plain
    strings in the call, no synonym list and no splat.  The validators that ``model_construct`` skips are vacuous for
    such a record (empty synonym lists come from the default factories, the ``str`` conversion is what validation
    would have done to a str subclass) and nothing mutable of the caller's is kept."""
    if not (op(c) == "call" and not c[2]):
        return False
    kw = dict((k, v) for k, v in c[3] if k is not None)
    if len(kw) != len(c[3]) or set(kw) != {"prefix", "uri_prefix"}:
        return False
    return all(op(v) == "call" and v[1] == ("builtin", "str") and len(v[2]) == 1 and not v[3] or (op(v) == "const" and isinstance(v[1], str)) for v in kw.values())


def delegated_record_updates(cx: Cx, fn: FunctionInfo, fields: set) -> list[str]:
    """Names of package functions / methods OTHER than ``fn`` that store into one of ``fields`` of some object and
    that ``fn`` calls (by name): the update has moved out of ``fn`` into them (a helper object with an ``apply``
    method, a shared "re-point" helper)."""
    import ast as _ast

    called = {n.func.attr if isinstance(n.func, _ast.Attribute) else n.func.id if isinstance(n.func, _ast.Name) else None for n in _ast.walk(fn.node) if isinstance(n, _ast.Call)}
    out = []
    for g in cx.model.functions.values():
        if g is fn or g.name not in called or g.parent is not None:
            continue
        for n in _ast.walk(g.node):
            tgts = n.targets if isinstance(n, _ast.Assign) else [n.target] if isinstance(n, (_ast.AugAssign, _ast.AnnAssign)) else []
            if any(isinstance(t_, _ast.Attribute) and t_.attr in fields for t_ in tgts):
                out.append(g.qualname)
                break
    return out


def namedtuple_as_tuple(cx: Cx, t):
    """``Cls(a, b)`` / ``Cls(y=b, x=a)`` of a package NamedTuple is the tuple of its fields in declaration order."""
    if op(t) != "call" or op(t[1]) != "cls" or t[1][1] not in cx.model.classes:
        return t
    ci = cx.model.classes[t[1][1]]
    if not any(b.split("[")[0].rsplit(".", 1)[-1] == "NamedTuple" for b in ci.base_exprs):
        return t
    names = [n for n, (ann, _) in ci.fields.items() if ann is not None]
    if any(op(a) == "star" for a in t[2]) or any(k is None for k, _ in t[3]) or len(t[2]) > len(names):
        return t
    fields = dict(zip(names, t[2]))
    fields.update({k: v for k, v in t[3] if k in names})
    if set(fields) != set(names):
        return t
    return ("tuple", tuple(fields[n] for n in names))


def inline_functions(cx: Cx, t, depth: int = 0):
    """Replace calls of module-level helpers that are ONE return expression for this call (literal arguments decide
    their parameter tests: ``_eq(a, b, True)`` is ``a == b``) by that expression."""
    from .terms import substitute

    if not isinstance(t, tuple) or depth > 4:
        return t
    if op(t) == "call" and op(t[1]) == "func":
        f = cx.model.functions.get(t[1][1])
        if f is not None and f.cls is None:
            b = bind_args(f, t)
            body = single_return(cx, f)
            if body is None and b is not None:
                body = _specialised_return(cx, f, b)
            if body is not None and b is not None and not any(op(v) == "default" for v in b.values()):
                mapping = {("param", k): inline_functions(cx, v, depth + 1) for k, v in b.items()}
                return inline_functions(cx, substitute(body, mapping), depth + 1)
    return tuple(inline_functions(cx, x, depth) if isinstance(x, tuple) else x for x in t)


REF_FIELDS = ("prefix", "identifier")


def component(t):
    """View ``x.prefix`` / ``x.identifier`` / ``x[0]`` / ``x[1]`` as (x, index)."""
    if op(t) == "attr" and t[2] in REF_FIELDS:
        return t[1], REF_FIELDS.index(t[2])
    if op(t) == "item" and is_const(t[2]) and t[2][1] in (0, 1) and not isinstance(t[2][1], bool):
        return t[1], t[2][1]
    return None


def reftuple_args(t):
    """Arguments (prefix, identifier) of a ``ReferenceTuple(...)`` construction or a 2-tuple."""
    if op(t) == "call" and op(t[1]) == "cls" and t[1][1].endswith(".ReferenceTuple"):
        kw = dict(t[3])
        if len(t[2]) == 2 and not kw:
            return t[2][0], t[2][1]
        if not t[2] and set(kw) == {"prefix", "identifier"}:
            return kw["prefix"], kw["identifier"]
        if len(t[2]) == 1 and set(kw) == {"identifier"}:
            return t[2][0], kw["identifier"]
    if op(t) == "tuple" and len(t[1]) == 2:
        return t[1][0], t[1][1]
    return None


def table_of_code(cx: Cx, paths) -> str | None:
    """A decision made through a TABLE OF RULES: the loop body consults a module-level tuple / list / dict whose
    elements hold code (lambdas, functions), or calls a callable it picked out of a data structure.  The tests and
    actions are then values, not control flow, and path-shaped rules have nothing to read.  Returns a description."""
    import ast as _ast

    from .terms import subterms as _sub

    def codeish_const(x) -> bool:
        mod = cx.model.modules.get(x[1])
        node = mod.constants.get(x[2]) if mod is not None else None
        if not isinstance(node, (_ast.Tuple, _ast.List, _ast.Dict)):
            return False
        for n in _ast.walk(node):
            if isinstance(n, _ast.Lambda):
                return True
            if isinstance(n, _ast.Name) and mod is not None:
                r = cx.model.resolve_global(mod, n.id)
                if r and r[0] == "func":
                    return True
        return False

    def scan(ps):
        for p in ps:
            for ev in p.events:
                for t in (ev.a, ev.b):
                    if not isinstance(t, tuple):
                        continue
                    for x in _sub(t):
                        if op(x) == "gconst" and codeish_const(x):
                            return f"the table `{x[2]}`"
                        if op(x) == "call" and (op(x[1]) in ("item", "bv", "phi") or (op(x[1]) == "attr" and op(x[1][1]) == "call" and x[1][1][1] == ("builtin", "next"))):
                            return f"the computed callable `{show(x[1])[:40]}`"
                if ev.body:
                    r = scan(ev.body)
                    if r:
                        return r
        return None

    return scan(paths)


#: what kind of string each conversion function of Converter recognises
INPUT_KIND = {
    "compress": "uri", "compress_strict": "uri", "parse_uri": "uri", "is_uri": "uri", "standardize_uri": "uri",
    "expand": "curie", "expand_strict": "curie", "parse_curie": "curie", "is_curie": "curie", "standardize_curie": "curie", "expand_all": "curie",
    "parse": "both", "compress_or_standardize": "both", "expand_or_standardize": "both",
}  # fmt: skip


def other_kind_call(t, self_term, expected: str) -> bool:
    """Does ``t`` answer through a conversion function of self that takes another kind of input than ``expected``?"""
    from .terms import subterms as _sub

    return any(self_call(y, self_term) and INPUT_KIND.get(y[1][2], expected) != expected for y in _sub(t))


def self_call(t, self_term, name: str | None = None) -> bool:
    return op(t) == "call" and op(t[1]) == "attr" and t[1][1] == self_term and (name is None or t[1][2] == name)


def flag_values(ctx: Ctx, flags=("strict", "passthrough", "return_none")) -> dict:
    """Values of boolean flag parameters fixed by the guards on the way to an event."""
    out = {}
    for g in ctx.guards:
        if g.kind != "guard":
            continue
        t, pol = g.a, g.b
        if op(t) == "not":
            t, pol = t[1], not pol
        if op(t) == "param" and t[1] in flags:
            out[t[1]] = pol
    return out


def _rename_self(t, frm, to):
    if t == frm:
        return to
    if isinstance(t, tuple):
        return tuple(_rename_self(x, frm, to) for x in t)
    return t


def state_closure(cx: Cx, ob: Ob) -> None:
    """Every piece of derived state of Converter is maintained by ``_index``; queries write no state."""
    init = cx.fn(f"{CONV}.__init__", ob.id)
    s = cx.summary(init, ob.id)
    me = ("param", init.self_name)
    BASE = {"delimiter", "records"}
    derived: dict[str, tuple] = {}
    for ev, _ in s.distinct_events("store"):
        if op(ev.a) == "attr" and ev.a[1] == me:
            derived[ev.a[2]] = (ev.b, ev.line)
    writers = self_state_writes(cx, CONV, ob.id)
    maintained = {attr for m, attr, ev, how in writers if m.name == "_index"}
    allowed_writers = {"__init__", "_index", "add_record", "_merge", "add_prefix", merger_name(cx)}
    for name, (value, line) in derived.items():
        if name in BASE:
            continue
        ob.site(f"{where(init, line)} self.{name}", "derived state set in __init__")
        mentions_state = any(
            op(x) == "attr" and x[1] == me and (x[2] in derived or x[2] in TABLES) for x in subterms(value)
        ) or any(x == ("param", "records") or (op(x) == "phi" and x[1] == "records") for x in subterms(value))
        if name not in maintained and (mentions_state or name in TABLES):
            ob.violate(
                f"{CONV}.__init__",
                where(init, line),
                f"self.{name} is derived from the records/lookup tables in __init__ but is not updated by Converter._index, so it goes stale after add_record/add_prefix",
                witness=f"self.{name} = {show(value)[:120]}; _index maintains only {sorted(maintained)}",
                detail=f"unmaintained:{name}",
            )
    # sibling agreement for derived values that are not tables: what __init__ computes over ALL keys of a lookup
    # table, _index must fold in for all the names of the record that enter that table
    ixf = cx.model.functions.get(f"{CONV}._index")
    if ixf is not None and ixf.self_name and len(ixf.params) > 1:
        ixs = cx.summary(ixf, ob.id)
        ime = ("param", ixf.self_name)
        rec = ("param", ixf.params[1].name)
        for name, (value, line) in derived.items():
            if name in BASE or name in TABLES or name not in maintained:
                continue
            src_tables = {x[2] for x in subterms(value) if op(x) == "attr" and x[1] == me and x[2] in TABLES}
            if not src_tables:
                continue
            for ev, _ in ixs.distinct_events("store"):
                if ev.a != ("attr", ime, name) or not isinstance(ev.b, tuple):
                    continue
                read = {x[2] for x in subterms(ev.b) if op(x) == "attr" and x[1] == rec and x[2] in (CANON | LISTS)}
                for tname in sorted(src_tables):
                    keys = TABLES[tname][0]
                    if read & keys and not keys <= read:
                        ob.violate(
                            ixf.qualname,
                            where(ixf, ev.line),
                            f"self.{name} is computed in __init__ over every key of {tname} ({sorted(keys)} of every record) but _index folds in only {sorted(read & keys)} of the record it indexes: after add_record / add_prefix the value no longer describes the table",
                            witness=f"__init__: self.{name} = {show(value)[:80]}; _index: self.{name} = {show(ev.b)[:80]}",
                            detail=f"partially-maintained:{name}",
                        )
    # a MUTABLE class-level default ({} / [] / set()) for a piece of converter state is one object shared by every
    # instance that has not bound its own: a write through self.<attr> on such an instance lands in all of them
    import ast as _ast

    ci_ = cx.model.cls(CONV, ob.id)
    # a DESCRIPTOR object as class attribute is one object for all converters: what its __set__ keeps on ITSELF
    # (self.value = ..) is shared by every instance - the last assignment through any converter decides for all
    for name_, val_ in list(ci_.assigns.items()) + [(k_, v_) for k_, (_a, v_) in ci_.fields.items() if v_ is not None]:
        if not (isinstance(val_, _ast.Call) and isinstance(val_.func, _ast.Name)):
            continue
        dcls = next((c_ for c_ in cx.model.classes.values() if c_.name == val_.func.id and c_.module is ci_.module), None)
        setter = dcls.methods.get("__set__") if dcls is not None else None
        if setter is None or len(setter.params) < 3:
            continue
        dself, dobj = setter.params[0].name, setter.params[1].name
        on_self = [n_ for n_ in _ast.walk(setter.node) if isinstance(n_, _ast.Attribute) and isinstance(n_.ctx, _ast.Store) and isinstance(n_.value, _ast.Name) and n_.value.id == dself]
        on_obj = [n_ for n_ in _ast.walk(setter.node) if (isinstance(n_, (_ast.Attribute, _ast.Subscript)) and isinstance(n_.ctx, _ast.Store) and dobj in {x.id for x in _ast.walk(n_.value) if isinstance(x, _ast.Name)}) or (isinstance(n_, _ast.Call) and _ast.unparse(n_.func) in ("setattr", "object.__setattr__") and n_.args and isinstance(n_.args[0], _ast.Name) and n_.args[0].id == dobj)]
        if on_self:
            ob.violate(
                setter.qualname,
                f"src/curies/{dcls.module.relpath}:{on_self[0].lineno}",
                f"Converter.{name_} is a descriptor ({dcls.name}) whose __set__ keeps the value on the descriptor itself (`{_ast.unparse(on_self[0])} = ..`): there is ONE descriptor for all converters, so constructing or configuring any converter changes `{name_}` of every other one - a derived converter built with the default resets it for the converters it was derived from",
                witness=f"a = Converter(rs, {name_}=X); b = Converter(rs): a.{name_} is now b's",
                detail=f"descriptor-shared-state:{name_}",
            )
        elif on_obj:
            ob.site(f"{setter.where} {setter.qualname}", f"descriptor for Converter.{name_} stores per instance")
        else:
            ob.undecide(f"Converter.{name_} is a descriptor ({dcls.name}) whose __set__ was not recognised as storing per instance")
    shared = {}
    for name_, (ann_, val_) in list(ci_.fields.items()) + [(k_, (None, v_)) for k_, v_ in ci_.assigns.items()]:
        if val_ is not None and (isinstance(val_, (_ast.Dict, _ast.List, _ast.Set)) or (isinstance(val_, _ast.Call) and _ast.unparse(val_.func) in ("dict", "list", "set", "defaultdict", "collections.defaultdict"))):
            shared[name_] = val_
    for name_, val_ in shared.items():
        binds = [(ev_, c_) for ev_, c_ in s.walk() if ev_.kind == "store" and ev_.a == ("attr", me, name_)]
        always = any(not [g for g in c_.guards if g.kind == "guard"] and not c_.loops for _, c_ in binds)
        if always:
            continue
        for m, attr, ev, how in writers:
            if attr != name_ or how == "assign" or m.name == "__init__":
                continue
            guarded = any(isinstance(n_, _ast.Call) and isinstance(n_.func, _ast.Name) and n_.func.id == "vars" for n_ in _ast.walk(m.node)) or any(isinstance(n_, _ast.Attribute) and n_.attr == "__dict__" for n_ in _ast.walk(m.node))
            if guarded:
                ob.site(f"{where(m, ev.line)} {m.qualname}", f"self.{name_} has a class-level default; {m.name} looks at the instance dictionary before writing")
                continue
            ob.violate(
                m.qualname,
                where(m, ev.line),
                f"Converter.{name_} has a mutable class-level default ({_ast.unparse(val_)}) that __init__ replaces only on some paths, and {m.name} writes into self.{name_} ({how}): on a converter that never got its own, the entry goes into the ONE object all such converters share - a record added to one converter shows up in the others (and in the inputs a derived converter was made from)",
                witness="chain([plain, with_pattern]): the pattern appears in plain.pattern_map",
                detail=f"shared-class-default:{name_}",
            )
            break
    # a record that LEAVES the record list (replaced in place, removed, popped) takes its names out of what a freshly
    # built converter would know: the lookup tables must lose them too
    LEAVES = ("item-store", "call .remove()", "call .pop()", "call .clear()", "delete", "call .__delitem__()", "call .__setitem__()")
    unindexers = {m_.qualname for m_, attr_, ev_, how_ in writers if attr_ in TABLES and how_ in ("delete", "call .pop()", "call .clear()", "call .popitem()", "call .__delitem__()")}
    for m, attr, ev, how in writers:
        if attr == "records" and how in LEAVES and m.name != "__init__":
            ms = cx.summary(m, ob.id, full=True)
            mme = ("param", m.self_name)
            calls_unindexer = any(self_call(c, mme) and f"{CONV}.{c[1][2]}" in unindexers for c, _, _ in ms.calls())
            if m.qualname in unindexers or calls_unindexer:
                ob.undecide(f"{m.name} takes a record out of self.records ({how}) and entries out of the lookup tables: that every name of the record leaves every table is not decided")
            else:
                ob.violate(
                    m.qualname,
                    where(m, ev.line),
                    f"{m.name} takes a record out of self.records ({how}: `{show(ev.a)[:50]}`) and nothing removes its names from the lookup tables: prefixes and URI prefixes of a record the converter no longer has keep resolving, and a converter built from the same records answers differently",
                    witness="add_record(r2, replace=True) over r1: compress of a URI under r1's URI prefix still succeeds; Converter(c.records) says None",
                    detail=f"record-leaves-still-indexed:{m.name}",
                )
    for m, attr, ev, how in writers:
        if m.name in allowed_writers:
            # in-place maintenance is fine; REBINDING a lookup table after construction is not:
            # tries and services hold references to the old object
            if how == "assign" and attr in TABLES and m.name != "__init__":
                ctxs_ = [c_ for e_, c_ in cx.summary(m, ob.id, full=True).walk() if e_ is ev or (e_.line == ev.line and e_.kind == ev.kind)]
                fresh_slot = any(
                    g.kind == "guard" and g.b is False and op(g.a) == "cmp" and g.a[1] == "in" and is_const(g.a[2], attr) and op(g.a[3]) in ("call", "attr") and ("vars" in show(g.a[3]) or "__dict__" in show(g.a[3]))
                    for c_ in ctxs_ for g in c_.guards
                ) or any(
                    g.kind == "guard" and g.b is True and op(g.a) == "cmp" and g.a[1] == "not in" and is_const(g.a[2], attr) and ("vars" in show(g.a[3]) or "__dict__" in show(g.a[3]))
                    for c_ in ctxs_ for g in c_.guards
                )
                if fresh_slot:
                    # bound for the FIRST time on this instance (the name was only a class-level default so far):
                    # nobody can hold an earlier instance table
                    ob.site(f"{where(m, ev.line)} {m.qualname}", f"self.{attr} bound for the first time on the instance")
                    continue
                ob.violate(
                    m.qualname,
                    where(m, ev.line),
                    f"{m.name} rebinds self.{attr} after construction: objects that captured the old table (resolver services, the trie built from reverse_prefix_map) keep answering from the stale one",
                    detail=f"rebind:{attr}",
                )
            continue
        ob.site(f"{where(m, ev.line)} {m.qualname}", f"writes self.{attr}")
        if attr.startswith("_") and attr not in TABLES and attr not in BASE and how in ("call .clear()", "call .popitem()") and m.name not in ("__setstate__",):
            # emptying (or shrinking) a private memo forgets answers, it cannot make one wrong
            ob.site(f"{where(m, ev.line)} {m.qualname}", f"self.{attr}{how[5:]}: a memo that forgets is still right")
            continue
        if m.name == "__setstate__":
            # a second initialiser (pickle / copy call it on a blank object): restoring __dict__ wholesale is what
            # it is for; a derived value it REBUILDS must be rebuilt the way __init__ builds it
            mme = ("param", m.self_name)
            if attr == "__dict__":
                continue
            if attr in derived and how == "assign" and isinstance(ev.b, tuple):
                mine = _rename_self(ev.b, mme, me)
                if mine == derived[attr][0]:
                    ob.site(f"{where(m, ev.line)} {m.qualname}", f"rebuilds self.{attr} like __init__")
                    continue
                theirs = {x[2] for x in subterms(derived[attr][0]) if op(x) == "attr" and x[1] == me}
                ours = {x[2] for x in subterms(mine) if op(x) == "attr" and x[1] == me}
                if ours != theirs and ours and theirs:
                    ob.violate(
                        m.qualname,
                        where(m, ev.line),
                        f"__setstate__ rebuilds self.{attr} from {sorted(ours)} while __init__ builds it from {sorted(theirs)}: a converter that went through pickle / copy.deepcopy answers from a different table than the one it was copied from",
                        witness=f"__init__: {show(derived[attr][0])[:70]}; __setstate__: {show(ev.b)[:70]}",
                        detail=f"setstate-source:{attr}",
                    )
                    continue
            ob.undecide(f"__setstate__ writes self.{attr} ({how}) in a way __init__ does not")
            continue
        if attr.startswith("_") and attr not in TABLES and attr not in BASE:
            # a private look-aside table filled by a query that still ends in the authoritative scan of self.records
            # when the table has no (valid) answer: whether hits are verified well enough is a value question
            ms_ = cx.summary(m, ob.id, full=True)
            mme_ = ("param", m.self_name)
            scans = [e2 for e2, c2 in ms_.walk() if e2.kind == "loop" and not c2.loops and _strip_views(e2.b) == ("attr", mme_, "records")]
            reads = [e2.line for e2, _ in ms_.walk() if any(isinstance(t_, tuple) and any(op(x) == "attr" and x[1] == mme_ and x[2] == attr for x in subterms(t_)) or (isinstance(t_, tuple) and any(op(x) == "call" and x[1] == ("builtin", "getattr") and len(x[2]) >= 2 and x[2][0] == mme_ and is_const(x[2][1], attr) for x in subterms(t_))) for t_ in (e2.a, e2.b))]
            if scans and reads and max(s_.line for s_ in scans) > min(reads):
                ob.undecide(f"{m.name} keeps a look-aside table self.{attr} and falls back on the scan of self.records (line {max(s_.line for s_ in scans)}): that a hit is always the record the scan would find is not decided")
                continue
        if how == "assign" and attr.startswith("_") and attr not in TABLES and attr not in BASE and _reset_unconditionally(cx, ob, attr):
            # a single remembered answer: re-used for a LATER query it is right only under a condition on the tables
            # (nothing registered that would answer that query differently).  A store that asks the tables nothing
            # remembers every answer - the plain history dependence; one that does is a value question.
            ms2 = cx.summary(m, ob.id, full=True)
            mme2 = ("param", m.self_name)
            asks = False
            for e2, c2 in ms2.walk():
                if e2.kind == "store" and e2.a == ev.a and e2.line == ev.line:
                    if any(g.kind == "guard" and any(op(x) == "attr" and x[1] == mme2 and x[2] in TABLES for x in subterms(g.a)) for g in c2.guards):
                        asks = True
            if not asks and not is_const(ev.b, None):
                ob.violate(
                    m.qualname,
                    where(m, ev.line),
                    f"{m.name} remembers its last answer in self.{attr} whatever it was and re-uses it for later queries: the answer to a query then depends on the queries before it (after a hit on an outer URI prefix, a URI under a longer, nested prefix is answered with the outer one)",
                    witness="parse_uri('http://x/obo/BFO_1') then parse_uri('http://x/obo/GO_1') with prefixes .../obo/ and .../obo/GO_",
                    detail=f"state-write:{attr}",
                )
                continue
        if attr not in TABLES and attr not in BASE and (how in ("item-store", "call .setdefault()") or (how == "assign" and attr.startswith("_"))) and _reset_unconditionally(cx, ob, attr):
            # a memo of query results keyed by the query, which _index - run on every mutation path (pairing
            # obligation) - resets on all of its paths.  That the key covers everything the answer depends on is
            # not a shape; a single-slot cache, or one reset only on some mutation paths, is reported below.
            ob.undecide(f"{m.name} fills self.{attr}, a keyed cache of query results that _index resets unconditionally: that the key determines the answer is not decided")
            continue
        if attr.startswith("_") and attr not in TABLES and attr not in BASE and _bookkeeping_only(cx, ob, attr):
            ob.site(f"{where(m, ev.line)} {m.qualname}", f"self.{attr} is bookkeeping: every test of it leads to the same answer on both arms (it decides only whether something is logged)")
            continue
        ob.violate(
            m.qualname,
            where(m, ev.line),
            f"{m.name} writes converter state self.{attr} ({how}); only __init__/add_record/_index/_merge may, so that answers never depend on query history",
            detail=f"state-write:{attr}",
        )
    # nobody outside the class writes the tables either - except to rebuild ALL of them, each the way __init__
    # derives it, from the records of the very converter they belong to (a working copy refreshed after its records
    # were renamed): then table and records agree by construction
    init_s = cx.summary(cx.fn(f"{CONV}.__init__", ob.id), ob.id)
    init_me = ("param", cx.fn(f"{CONV}.__init__", ob.id).self_name)
    builders = {}
    for ev_, _ in init_s.walk():
        if ev_.kind == "store" and op(ev_.a) == "attr" and ev_.a[1] == init_me and ev_.a[2] in TABLES and op(ev_.b) == "call":
            builders[ev_.a[2]] = ev_.b[1]
    for fn in cx.model.functions.values():
        if fn.cls is not None and fn.cls.qualname == CONV:
            continue
        fs = cx.summary(fn, ob.id)
        rebuilt: dict = {}
        index_calls: set = set()

        def canon(t_):
            """bound variables numbered in order of appearance"""
            from .terms import substitute as _subst

            seen_: dict = {}
            for x_ in subterms(t_):
                if op(x_) == "bv" and x_ not in seen_:
                    seen_[x_] = ("bv", -len(seen_) - 1, "_")
            return _subst(t_, seen_) if seen_ else t_

        for ev, _ in fs.walk():
            if ev.kind == "store" and op(ev.a) == "attr" and ev.a[2] in TABLES and op(ev.b) == "call" and ev.a[2] in builders and ev.b[1] == builders[ev.a[2]] and len(ev.b[2]) == 1:
                B = ev.a[1]
                arg = ev.b[2][0]
                if arg == ("attr", B, "records") or (ev.a[2] == "trie" and arg == ("attr", B, "reverse_prefix_map")):
                    rebuilt.setdefault(B, set()).add(ev.a[2])
            elif ev.kind == "store" and op(ev.a) == "attr" and ev.a[2] in TABLES and ev.a[2] in builders and op(builders[ev.a[2]]) == "func" and isinstance(ev.b, tuple):
                # the builder's own expression written out in place
                bf = cx.model.functions.get(builders[ev.a[2]][1])
                if bf is not None and bf.params:
                    from .terms import substitute as _subst

                    rets_ = [t_ for t_, _c in cx.summary(bf, ob.id).returns()]
                    if len(rets_) == 1 and canon(_subst(rets_[0], {("param", bf.params[0].name): ("attr", ev.a[1], "records")})) == canon(ev.b):
                        rebuilt.setdefault(ev.a[1], set()).add(ev.a[2])
            elif ev.kind == "expr" and op(ev.a) == "call" and op(ev.a[1]) == "attr" and ev.a[1][2] == "_index" and len(ev.a[2]) == 1:
                # B._index(record): the class's own way of (re-)entering a record into the four name tables
                idx_fn = cx.model.functions.get(f"{CONV}._index")
                kept = set()
                if idx_fn is not None:
                    ime = ("param", idx_fn.self_name)
                    for e3, _c3 in cx.summary(idx_fn, ob.id, full=True).walk():
                        if e3.kind == "store" and op(e3.a) == "item" and op(e3.a[1]) == "attr" and e3.a[1][1] == ime and e3.a[1][2] in builders:
                            kept.add(e3.a[1][2])
                # the class's own maintenance step is not a rebuild from outside: it is judged where it is defined
                index_calls.add(ev.a[1][1])
                rebuilt.setdefault(ev.a[1][1], set()).update(kept)
        complete = {B for B, ts in rebuilt.items() if ts >= set(builders)}
        explicit = {B for B in rebuilt if any(e4.kind == "store" and op(e4.a) == "attr" and e4.a[1] == B and e4.a[2] in builders for e4, _c4 in fs.walk())}
        for B, ts in rebuilt.items():
            if B in index_calls and B not in explicit:
                continue  # only `_index(record)` is called (as add_record does): no table is written from outside
            suspends = any(e4.kind == "store" and op(e4.a) == "attr" and e4.a[1] == B and isinstance(e4.a[2], str) and e4.a[2].startswith("_") for e4, _c4 in fs.walk())
            if B in complete:
                ob.site(f"{fn.where} {fn.qualname}", f"rebuilds every lookup table of `{show(B)[:30]}` from its own records, as __init__ does")
            elif suspends:
                # the function switches a private flag of that converter: rebuilding ONE table is the counterpart of
                # _index leaving that table alone meanwhile (judged by the pairing rule on the flag, IDX obligation)
                ob.site(f"{fn.where} {fn.qualname}", f"rebuilds {sorted(ts)} of `{show(B)[:30]}` while it holds a private flag of that converter")
            else:
                missing = sorted(set(builders) - ts)
                ob.violate(
                    fn.qualname,
                    fn.where,
                    f"{fn.name} rebuilds {sorted(ts)} of a converter from its records but not {missing}: after the records were changed those tables still answer from the old ones (reverse_prefix_map and the trie hold CURIE prefixes as VALUES, pattern_map as keys)",
                    witness="a record renamed in place: compress / parse_uri keep answering with the old canonical prefix",
                    detail="foreign-write:partial-rebuild:" + "+".join(missing),
                )
        for ev, _ in fs.walk():
            if ev.kind == "store":
                t = ev.a
                base = t[1] if op(t) in ("item", "attr") else None
                if op(t) == "attr" and t[2] in TABLES and base in rebuilt and t[2] in rebuilt[base]:
                    continue  # judged above
                if op(t) == "item" and op(base) == "attr" and base[2] in TABLES:
                    ob.violate(fn.qualname, where(fn, ev.line), f"{fn.name} writes lookup table .{base[2]} of a converter from outside the class", detail=f"foreign-write:{base[2]}")
                if op(t) == "attr" and t[2] in TABLES and op(base) == "call" and op(base[1]) == "attr" and base[1][2] == "__new__":
                    # an object allocated with __new__ and filled by hand: no existing converter is written, but
                    # nothing relates the tables it gets to its records either
                    ob.undecide(f"{fn.name} assembles a converter by hand (`{show(base)[:40]}`, then its tables are assigned one by one), bypassing __init__: agreement of its tables with its records is not decided")
                elif op(t) == "attr" and t[2] in TABLES and op(base) != "const":
                    ob.violate(fn.qualname, where(fn, ev.line), f"{fn.name} rebinds lookup table .{t[2]} of a converter from outside the class", detail=f"foreign-write:{t[2]}")


# ---------------------------------------------------------------------- list builders
def list_segments(s: Summary, t, prov: Prov, depth: int = 0) -> list | None:
    """Normal form of a list-valued term: [('elem', term, conds) | ('each', iterable, elt, conds)].

    Loop+append builders, list displays with splices and comprehensions reduce to the same form.
    Returns None when the construction is not recognised.
    """
    if depth > 4:
        return None
    o = op(t)
    if o == "call" and t[1] in (("builtin", "list"), ("builtin", "tuple")) and len(t[2]) == 1 and not t[3]:
        return list_segments(s, t[2][0], prov, depth + 1)  # a copy holds the same elements in the same order
    if o == "list" or o == "tuple":
        out = []
        for e in t[1]:
            if op(e) == "star":
                sub = list_segments(s, e[1], prov, depth + 1)
                out.extend(sub if sub is not None else [("each", e[1], ("it",), ())])
            else:
                out.append(("elem", e, ()))
        return out
    if o == "comp" and t[1] in ("list", "gen") and len(t[3]) == 1:
        tgt, it, ifs = t[3][0]
        prov.add_binding(tgt, it)
        conds = tuple((c, True) for c in ifs)
        from .terms import substitute

        if op(it) == "new" and it[1] == "list" and len(it) > 4 and op(it[4]) == "list" and not s.mutations_of(it):
            it = it[4]  # a local display (or itertools.chain) that is only iterated
        if op(it) in ("list", "tuple"):
            out = []
            for e in it[1]:
                if op(e) == "star":
                    out.append(("each", e[1], substitute(t[2], {tgt: ("it",)}), _subst_conds(conds, tgt)))
                elif op(tgt) == "bv":
                    out.append(("elem", substitute(t[2], {tgt: e}), tuple((substitute(c, {tgt: e}), p) for c, p in conds)))
                else:
                    return None
            return out
        return [("each", it, substitute(t[2], {tgt: ("it",)}) if op(tgt) == "bv" else t[2], _subst_conds(conds, tgt) if op(tgt) == "bv" else conds)]
    if o == "new" and t[1] == "list":
        init = t[4] if len(t) > 4 else None
        out = []
        if op(init) == "list":
            sub = list_segments(s, init, prov, depth + 1)
            if sub is None:
                return None
            out.extend(sub)
        from .terms import substitute

        base: set = set()
        for ev0, _ in s.walk():
            if ev0.kind == "bind" and ev0.b == t:
                base = set(s.must_guards(ev0))
                break
        for ev, ctx in _dedupe(s.mutations_of(t)):
            if ev.kind != "expr" or op(ev.a) != "call":
                return None
            name = callee_name(ev.a)
            args = ev.a[2]
            conds = tuple(c for c in s.must_guards(ev) if c not in base)
            if name == "append" and len(args) == 1:
                if ctx.loops:
                    if len(ctx.loops) != 1 or ctx.loops[0].kind != "loop":
                        return None
                    lp = ctx.loops[0]
                    elt = substitute(args[0], {lp.a: ("it",)}) if op(lp.a) == "bv" else args[0]
                    out.append(("each", lp.b, elt, _subst_conds(conds, lp.a) if op(lp.a) == "bv" else conds))
                else:
                    out.append(("elem", args[0], conds))
            elif name == "extend" and len(args) == 1 and not ctx.loops:
                sub = list_segments(s, args[0], prov, depth + 1)
                if sub is None:
                    out.append(("each", args[0], ("it",), conds))
                else:
                    out.extend((k, a, b, c + conds) if k == "each" else (k, a, b + conds) for k, a, b, *c in [x if len(x) == 4 else (*x, ()) for x in sub])
            else:
                return None
        return out
    return None


def as_comprehension(s: Summary, t):
    """A list that is allocated empty and filled by ONE ``append`` inside ONE ``for`` loop (under guards
    tested inside that loop) is the list comprehension with that element, source and filters."""
    if op(t) == "comp":
        return t
    if op(t) != "new" or t[1] != "list" or (len(t) > 4 and op(t[4]) in ("list", "tuple") and t[4][1]):
        return None
    all_muts = list(s.mutations_of(t))
    muts = _dedupe(all_muts)
    if len(muts) != 1:
        return None
    ev, ctx = muts[0]
    if ev.kind != "expr" or op(ev.a) != "call" or callee_name(ev.a) != "append" or len(ev.a[2]) != 1 or len(ctx.loops) != 1 or ctx.loops[0].kind != "loop":
        return None
    lp = ctx.loops[0]
    ifs = []
    for g in ctx.guards:
        if g.kind != "guard":
            continue
        if g.line < lp.line:
            continue
        ifs.append(g.a if g.b else ("not", g.a))
    # the same statement reached along several paths of the body (a test in front of it that only logs / warns):
    # when EVERY path of the body passes through the append, nothing is filtered
    body = lp.body or ()
    if body and all(any(e.line == ev.line and e.kind == "expr" and e.a == ev.a for e in q.events) for q in body):
        ifs = []
    else:
        variants = {tuple((g.a, g.b) for g in c_.guards if g.kind == "guard" and g.line >= lp.line) for e_, c_ in all_muts if e_.line == ev.line}
        if len(variants) > 1:
            return None
    # every path of the loop body that does not append must simply go on to the next element
    for q in lp.body or ():
        if q.out is not None and q.out[0] in ("return", "raise", "break"):
            return None
    return ("comp", "list", ev.a[2][0], ((lp.a, lp.b, tuple(ifs)),))


def _subst_conds(conds, tgt):
    from .terms import substitute

    return tuple((substitute(c, {tgt: ("it",)}), p) for c, p in conds)


def _dedupe(evs):
    seen = set()
    out = []
    for ev, ctx in evs:
        k = (ev.line, ev.kind, ev.a if isinstance(ev.a, tuple) else None)
        if k in seen:
            continue
        seen.add(k)
        out.append((ev, ctx))
    return sorted(out, key=lambda x: x[0].line)


def cmp_cover(prov: Prov, cond, probe) -> set:
    """Record fields that ``cond`` compares (==, in) against the term ``probe``."""
    out = set()
    for c in subterms(cond):
        if op(c) != "cmp":
            continue
        o, a, b = c[1], c[2], c[3]
        if o in ("==", "!="):
            other = b if a == probe else a if b == probe else None
            if other is not None:
                out |= prov.fields(other)
        elif o in ("in", "not in") and a == probe:
            for alt in prov.elems(b):
                if op(alt) == "attr" and alt[2] in CANON:
                    out.add((alt[1], alt[2]))
                elif op(alt) == "elemof" and op(alt[1]) == "attr" and alt[1][2] in LISTS:
                    out.add((alt[1][1], alt[1][2]))
                else:
                    out.add(("?", alt))
    return out


# ---------------------------------------------------------------------- MATRIX: comparison cover
def _container_fields(prov: Prov, container) -> set:
    out = set()
    for alt in prov.elems(container):
        if op(alt) == "attr" and alt[2] in CANON:
            out.add((alt[1], alt[2]))
        elif op(alt) == "elemof" and op(alt[1]) == "attr" and alt[1][2] in LISTS:
            out.add((alt[1][1], alt[1][2]))
        else:
            out.add(("?", alt))
    return out


def pair_compare_cover(prov: Prov, terms) -> list[tuple]:
    """All ((recA, fieldA), (recB, fieldB), how, term) comparisons found in ``terms``."""
    out = []
    for t in terms:
        for c in subterms(t):
            if op(c) == "cmp" and c[1] in ("==", "!="):
                for x in prov.fields(c[2]):
                    for y in prov.fields(c[3]):
                        out.append((x, y, "==", c))
            elif op(c) == "cmp" and c[1] in ("in", "not in"):
                for x in prov.fields(c[2]):
                    for y in _container_fields(prov, c[3]):
                        out.append((x, y, "in", c))
            elif op(c) == "call" and op(c[1]) == "func" and c[1][1].endswith("._eq") and len(c[2]) >= 2:
                for x in prov.fields(c[2][0]):
                    for y in prov.fields(c[2][1]):
                        out.append((x, y, "_eq", c))
            elif op(c) == "call" and op(c[1]) == "func" and c[1][1].endswith("._in") and len(c[2]) >= 2:
                for x in prov.fields(c[2][0]):
                    for y in _container_fields(prov, c[2][1]):
                        out.append((x, y, "_in", c))
            elif op(c) == "bin" and c[1] == "&":
                for x in _container_fields(prov, _unset(c[2])):
                    for y in _container_fields(prov, _unset(c[3])):
                        out.append((x, y, "&", c))
            elif op(c) == "call" and op(c[1]) == "attr" and c[1][2] in ("intersection", "isdisjoint") and len(c[2]) == 1:
                for x in _container_fields(prov, _unset(c[1][1])):
                    for y in _container_fields(prov, _unset(c[2][0])):
                        out.append((x, y, c[1][2], c))
    return out


def _unset(t):
    if op(t) == "call" and op(t[1]) == "builtin" and t[1][1] in ("set", "frozenset", "list", "tuple") and len(t[2]) == 1:
        return t[2][0]
    return t


def dict_items(s: Summary | None, t) -> dict | None:
    """Constant-keyed items of a dict-valued term (display, or local dict with later `d[k] = v` stores)."""
    d = t[4] if op(t) == "new" and len(t) > 4 else t
    if op(t) == "new" and t[1] != "dict":
        return None
    # dict(zip((k1, k2, ...), X)) / dict(k1=..., k2=...)
    if op(d) == "call" and d[1] == ("builtin", "dict"):
        if not d[2] and d[3] and all(k is not None for k, _ in d[3]):
            return {k: v for k, v in d[3]}
        if len(d[2]) == 1 and not d[3] and op(d[2][0]) == "call" and d[2][0][1] == ("builtin", "zip") and len(d[2][0][2]) == 2:
            keys, vals = d[2][0][2]
            if op(keys) in ("tuple", "list") and all(is_const(k) for k in keys[1]):
                if op(vals) in ("tuple", "list") and len(vals[1]) == len(keys[1]) and not any(op(v) == "star" for v in vals[1]):
                    return {k[1]: v for k, v in zip(keys[1], vals[1])}
                return {k[1]: ("item", vals, ("const", i)) for i, k in enumerate(keys[1])}
    if op(d) != "dict":
        return None if op(t) != "new" else {}
    out = {}
    for k, v in d[1]:
        if k is None or not is_const(k):
            return None
        out[k[1]] = v
    if op(t) == "new" and s is not None:
        for ev, _ in s.mutations_of(t):
            if ev.kind == "store" and op(ev.a) == "item" and ev.a[1] == t and is_const(ev.a[2]):
                out[ev.a[2][1]] = ev.b
            elif ev.kind == "expr" and callee_name(ev.a) == "update" and ev.a[2] and op(ev.a[2][0]) in ("dict",):
                for k, v in ev.a[2][0][1]:
                    if k is not None and is_const(k):
                        out[k[1]] = v
            else:
                return None
    return out


def _cache_cleared_by_index(cx: Cx, method_name: str) -> bool:
    """``<anything>.<method_name>.cache_clear()`` as a top-level statement of Converter._index (outside any test)."""
    import ast as _ast

    ix = cx.model.functions.get(f"{CONV}._index")
    if ix is None:
        return False
    for st in ix.node.body:
        if isinstance(st, _ast.Expr) and isinstance(st.value, _ast.Call) and isinstance(st.value.func, _ast.Attribute) and st.value.func.attr == "cache_clear":
            tgt = st.value.func.value
            if isinstance(tgt, _ast.Attribute) and tgt.attr == method_name:
                return True
    return False


def stale_tables(cx: Cx, ob: Ob, qualnames: list[str]) -> None:
    """A converter a function constructs, whose records it then changes in place, and which it hands out AS IT IS:
    the lookup tables were built from the records as they were at construction (only ``Converter(...)`` and
    ``_index`` write them), so the result lists names its own tables do not know."""
    for q in qualnames:
        fn = cx.model.functions.get(q)
        if fn is None:
            continue
        s = cx.summary(fn, ob.id)
        ob.site(f"{fn.where} {fn.qualname}", "constructed converters are not changed in place before they are returned")
        for t, ctx in s.returns():
            if not (op(t) == "call" and op(t[1]) == "cls" and t[1][1] == CONV):
                continue
            recs_attr = ("attr", t, "records")
            for lp, lctx in s.walk():
                if lp.kind != "loop" or _strip_views(lp.b) != recs_attr or not lp.body:
                    continue

                def stores(paths):
                    for p_ in paths:
                        for e in p_.events:
                            if e.kind == "store" and op(e.a) == "attr" and e.a[2] in (CANON | LISTS) and any(x == lp.a for x in subterms(e.a[1])):
                                yield e
                            if e.kind == "expr" and op(e.a) == "call" and callee_name(e.a) in MUTATORS and op(e.a[1]) == "attr" and op(e.a[1][1]) == "attr" and e.a[1][1][2] in LISTS and any(x == lp.a for x in subterms(e.a[1][1][1])):
                                yield e
                            if e.body:
                                yield from stores(e.body)

                hit = next(stores(lp.body), None)
                if hit is not None:
                    ob.violate(
                        fn.qualname,
                        where(fn, hit.line),
                        f"{fn.name} changes the records of the converter it constructed (`{show(hit.a)[:50]}`) and then returns that converter as it is: its lookup tables were built before the change, so it lists names its tables do not know (and answers for names it no longer lists)",
                        witness="the result's records carry the new URI prefix, result.compress(<URI under it>) is None",
                        detail="stale-tables",
                    )
                    break


def _bookkeeping_only(cx: Cx, ob: Ob, attr: str) -> bool:
    """``self.<attr>`` (a private set / dict a query fills) never influences an answer: it is read only in tests whose
    two arms end in the same outcome and differ in nothing but the update of the attribute itself and logging /
    warning calls ("report each passed-through URI once")."""
    from .terms import show

    ci = cx.model.cls(CONV, ob.id)
    used = False
    for m in ci.methods.values():
        if m.name == "__init__":
            continue
        src = __import__("ast").unparse(m.node)
        if attr not in src:
            continue
        s = cx.summary(m, ob.id, full=True)
        me = ("param", m.self_name)
        slot = ("attr", me, attr)

        def mentions(t):
            return isinstance(t, tuple) and any(x == slot for x in subterms(t))

        def quiet(e):
            """an event that changes no answer: the update of the slot itself, a logging / warning call"""
            if e.kind == "expr" and op(e.a) == "call":
                f = e.a[1]
                if op(f) == "attr" and f[1] == slot and f[2] in ("add", "discard", "append", "update", "setdefault"):
                    return True
                txt = show(f)
                if txt.startswith(("logger.", "logging.", "warnings.warn")) or (op(f) == "ext" and f[1].startswith(("logging.", "warnings."))):
                    return True
            if e.kind == "store" and op(e.a) == "item" and e.a[1] == slot:
                return True
            return False

        groups: dict = {}
        for p_ in s.paths:
            sig, others, first = [], [], None
            for e in p_.events:
                if e.body:
                    if any(mentions(t) for pp in e.body for e2 in pp.events for t in (e2.a, e2.b)):
                        return False  # inside a loop: not handled
                if e.kind == "guard" and mentions(e.a):
                    used = True
                    if first is None:
                        first = e.b
                    continue
                if quiet(e):
                    if mentions(e.a) or mentions(e.b):
                        used = True
                    continue
                if mentions(e.a) or mentions(e.b):
                    return False  # read for something else than a test
                if e.kind == "guard":
                    others.append((e.a, e.b))
                sig.append((e.kind, e.a, e.b))
            out = p_.out[:2] if p_.out is not None else None
            if out is not None and mentions(out[1]):
                return False
            if first is not None:
                groups.setdefault((out, tuple(sig)), set()).add(first)
        # every way through a test of the slot has a twin through the other arm that does and answers the same
        if any(v != {True, False} for v in groups.values()):
            return False
    return used


def cached_derivations(cx: Cx, ob: Ob, class_names=("Record", "Reference", "NamableReference", "NamedReference", "Converter", "ReferenceTuple")) -> None:
    """No memoised derived value on objects whose fields are mutated in place / copied with updates."""
    for ci in cx.model.classes.values():
        if ci.name not in class_names:
            continue
        for m in ci.methods.values():
            if m.is_cached_property and ci.name == "Converter" and not m.is_property and _cache_cleared_by_index(cx, m.name):
                # lru_cache on a method whose cache _index - run on every mutation path (pairing obligation) -
                # empties unconditionally: no answer survives a change of the tables
                ob.site(m.where, f"{ci.name}.{m.name} is memoised and _index clears the cache unconditionally")
                continue
            if m.is_cached_property:
                import ast as _ast

                drops = []
                for g in cx.model.functions.values():
                    for n in _ast.walk(g.node):
                        # x.__dict__.pop("<name>", ..) / del x.__dict__["<name>"] / del x.<name>
                        if isinstance(n, _ast.Call) and isinstance(n.func, _ast.Attribute) and n.func.attr == "pop" and isinstance(n.func.value, _ast.Attribute) and n.func.value.attr == "__dict__" and n.args and isinstance(n.args[0], _ast.Constant) and n.args[0].value == m.name:
                            drops.append((g, n.lineno))
                        elif isinstance(n, _ast.Delete):
                            for t_ in n.targets:
                                if (isinstance(t_, _ast.Attribute) and t_.attr == m.name) or (isinstance(t_, _ast.Subscript) and isinstance(t_.value, _ast.Attribute) and t_.value.attr == "__dict__" and isinstance(t_.slice, _ast.Constant) and t_.slice.value == m.name):
                                    drops.append((g, n.lineno))
                if drops:
                    ob.undecide(f"{ci.name}.{m.name} is memoised and dropped again at {', '.join(sorted({f'{g_.name}:{ln}' for g_, ln in drops}))}: that every change of the fields it is computed from (in-place appends included) is followed by such a drop is not decided")
                    continue
                ob.violate(
                    m.qualname,
                    m.where,
                    f"{ci.name}.{m.name} is memoised ({', '.join(d for d in m.decorators if 'cache' in d)}): {ci.name} objects are changed in place (Converter._merge appends to the synonym lists) or copied with updates (model_copy), after which the cached value is stale",
                    witness="merge a record, then ask get_subconverter / the duplicate detectors / .curie again: they still see the value from before the change",
                    detail=f"memoised:{ci.name}.{m.name}",
                )
        ob.site(f"src/curies/{ci.module.relpath}:{ci.node.lineno} {ci.qualname}", "no memoised derived values")


def class_state_closure(cx: Cx, ob: Ob, cls_q: str, allowed=("__init__",)) -> None:
    """Instances of a service class keep no state that query methods write (per-instance or class-level)."""
    import ast as _ast

    ci = cx.model.cls(cls_q, ob.id)
    ob.site(f"src/curies/{ci.module.relpath}:{ci.node.lineno} {ci.qualname}", "state scan")
    for name, val in ci.assigns.items():
        if isinstance(val, (_ast.Dict, _ast.List, _ast.Set)) or (isinstance(val, _ast.Call) and _ast.unparse(val.func) in ("dict", "list", "set", "defaultdict", "collections.defaultdict")):
            ob.violate(ci.qualname, f"src/curies/{ci.module.relpath}:{val.lineno}", f"{ci.name}.{name} is a mutable CLASS attribute: it is shared by every instance (every service built in the process)", detail=f"class-attr:{name}")
    for name, (ann, val) in ci.fields.items():
        if val is not None and (isinstance(val, (_ast.Dict, _ast.List, _ast.Set)) or (isinstance(val, _ast.Call) and _ast.unparse(val.func) in ("dict", "list", "set", "defaultdict"))):
            ob.violate(ci.qualname, f"src/curies/{ci.module.relpath}:{val.lineno}", f"{ci.name}.{name} is a mutable CLASS attribute: it is shared by every instance (every service built in the process)", detail=f"class-attr:{name}")
    for m, attr, ev, how in self_state_writes(cx, cls_q, ob.id):
        if m.name in allowed:
            continue
        if attr.startswith("_"):
            # a private memo that the method itself throws away when a table of the converter has changed size
            # (the converter only ever grows): whether that test notices every change that matters is a value question
            ms = cx.summary(m, ob.id, full=True)
            versioned = any(
                g.kind == "guard" and any(op(x) == "call" and x[1] == ("builtin", "len") and x[2] and op(x[2][0]) == "attr" and x[2][0][2] in (set(TABLES) | {"records"}) for x in subterms(g.a))
                for e2, c2 in ms.walk() for g in c2.guards
            ) or any(e2.kind == "guard" and any(op(x) == "call" and x[1] == ("builtin", "len") and x[2] and op(x[2][0]) == "attr" and x[2][0][2] in (set(TABLES) | {"records"}) for x in subterms(e2.a)) for e2, _ in ms.walk())
            if versioned:
                ob.undecide(f"{m.name} keeps a memo in self.{attr} and discards it when the size of a converter table has changed: that every change of the converter that matters changes that size is not decided")
                continue
        ob.violate(m.qualname, where(m, ev.line), f"{m.name} writes instance/class state self.{attr} ({how}): answers depend on earlier queries", detail=f"state-write:{attr}")


CSV_DIALECT_KW = ("delimiter", "quoting", "quotechar", "escapechar", "doublequote", "skipinitialspace", "dialect", "strict")


def csv_dialect(call) -> dict:
    """Dialect-relevant keyword arguments of a csv.reader / csv.writer call (lineterminator is write-only)."""
    kw = dict(call[3])
    out = {k: v for k, v in kw.items() if k in CSV_DIALECT_KW}
    if len(call[2]) > 1:
        out["dialect"] = call[2][1]
    return out


def _csv_norm(d: dict) -> dict:
    """Drop keyword arguments that restate the csv module's defaults (QUOTE_ALL reads like QUOTE_MINIMAL)."""
    from .terms import is_const, show

    out = {}
    for k, v in d.items():
        if k == "quoting" and show(v).rsplit(".", 1)[-1] in ("QUOTE_MINIMAL", "QUOTE_ALL"):
            continue
        if k == "quotechar" and is_const(v, '"'):
            continue
        if k == "doublequote" and is_const(v, True):
            continue
        if k in ("skipinitialspace", "strict") and is_const(v, False):
            continue
        if k == "escapechar" and is_const(v, None):
            continue
        if k == "dialect" and is_const(v, "excel"):
            continue
        out[k] = v
    return out


def csv_agreement(ob: Ob, wfn, rfn, wcall, rcall, what: str) -> None:
    from .terms import is_const, show

    wd, rd = _csv_norm(csv_dialect(wcall)), _csv_norm(csv_dialect(rcall))
    for k in sorted(set(wd) | set(rd)):
        if k == "delimiter":
            continue  # judged separately
        if wd.get(k) != rd.get(k):
            ob.violate(
                wfn.qualname,
                wfn.where,
                f"{what}: the csv writer is configured with {k}={show(wd[k])[:30] if k in wd else 'default'} but the reader with {k}={show(rd[k])[:30] if k in rd else 'default'}: cells containing the delimiter, quotes or the escape character do not read back as written",
                detail=f"dialect:{k}",
            )
    q = wd.get("quoting")
    if q is not None and "QUOTE_NONE" in show(q) and "escapechar" not in wd:
        ob.violate(
            wfn.qualname,
            wfn.where,
            f"{what}: csv.writer(quoting=QUOTE_NONE) without an escapechar raises csv.Error ('need to escape') on the first cell that contains the delimiter or a quote character - after the output file has been opened for writing",
            detail="writer-may-raise",
        )
    if q is not None and "QUOTE_NONE" in show(q) and wd.get("quoting") == rd.get("quoting") and "escapechar" not in wd:
        pass


def guard_atoms(guards) -> list[tuple]:
    """Atomic facts (term, polarity) implied by the guards of a path: a true conjunction gives its
    conjuncts, a false disjunction the negation of its disjuncts; comparisons are canonicalised."""
    from .summ import _len_truth
    from .terms import op as _op

    out = []

    def add(t, pol):
        while _op(t) in ("not", "truth"):
            if _op(t) == "not":
                pol = not pol
            t = t[1]
        if _op(t) == "and" and pol:
            for x in t[1]:
                add(x, True)
            return
        if _op(t) == "or" and not pol:
            for x in t[1]:
                add(x, False)
            return
        neg = {"is not": "is", "!=": "==", "not in": "in"}
        if _op(t) == "cmp" and t[1] in neg:
            t, pol = ("cmp", neg[t[1]], t[2], t[3]), not pol
        t, pol = _len_truth(t, pol)
        out.append((t, pol))

    for g in guards:
        if g.kind == "guard":
            add(g.a, g.b)
    return out


def canon_atom(t, pol=True):
    """Canonical (atom, polarity) of a boolean leaf: negations stripped, comparisons positive."""
    from .summ import _len_truth
    from .terms import op as _op

    while _op(t) in ("not", "truth"):
        if _op(t) == "not":
            pol = not pol
        t = t[1]
    neg = {"is not": "is", "!=": "==", "not in": "in"}
    if _op(t) == "cmp" and t[1] in neg:
        t, pol = ("cmp", neg[t[1]], t[2], t[3]), not pol
    t, pol = _len_truth(t, pol)
    return t, pol


def formula_atoms(t, out=None) -> list:
    """The canonical atoms of a boolean formula over and / or / not, in evaluation order."""
    from .terms import op as _op

    out = [] if out is None else out
    u = t
    while _op(u) in ("not", "truth"):
        u = u[1]
    if _op(u) in ("and", "or"):
        for x in u[1]:
            formula_atoms(x, out)
    else:
        a, _ = canon_atom(u)
        if a not in out:
            out.append(a)
    return out


def formula_eval(t, asg: dict) -> bool:
    """Truth value of a formula under an assignment of its canonical atoms."""
    from .terms import op as _op

    if _op(t) == "not":
        return not formula_eval(t[1], asg)
    if _op(t) == "truth":
        return formula_eval(t[1], asg)
    if _op(t) == "and":
        return all(formula_eval(x, asg) for x in t[1])
    if _op(t) == "or":
        return any(formula_eval(x, asg) for x in t[1])
    a, pol = canon_atom(t)
    return asg[a] == pol


def path_atoms(paths) -> list:
    """Canonical atoms tested by the top-level guards of sibling paths (one if-tree), in first-use order."""
    out = []
    for p in paths:
        for ev in p.events:
            if ev.kind == "guard":
                for a in formula_atoms(ev.a):
                    if a not in out:
                        out.append(a)
    return out


def truth_table(paths, atoms=None, limit: int = 12):
    """Decision table of sibling paths: for every assignment of the atoms, the paths whose guards it satisfies.

    The paths of one if-tree partition the assignments, so the table is the boolean function the
    tree computes - independent of how the tests were nested, merged with and/or, or negated."""
    import itertools

    atoms = path_atoms(paths) if atoms is None else atoms
    if len(atoms) > limit:
        return atoms, None
    rows = []
    for vals in itertools.product((True, False), repeat=len(atoms)):
        asg = dict(zip(atoms, vals))
        hit = []
        for p in paths:
            ok = True
            for ev in p.events:
                if ev.kind == "guard" and formula_eval(ev.a, asg) != ev.b:
                    ok = False
                    break
            if ok:
                hit.append(p)
        rows.append((asg, hit))
    return atoms, rows


def fewer_than_two(t, pol, coll=None):
    """Does the atom (t, pol) say that a collection has fewer than two elements?  Returns the collection."""
    from .terms import is_const as _c, op as _op

    if _op(t) != "cmp":
        if pol is False and (coll is None or t == coll):
            return t  # `not xs`: empty
        return None
    o, l, r = t[1], t[2], t[3]
    if _op(l) == "call" and l[1] == ("builtin", "len") and _c(r) and isinstance(r[1], int):
        x, n = l[2][0], r[1]
        small = (o == "<" and n <= 2 and pol) or (o == "<=" and n <= 1 and pol) or (o == ">" and n >= 1 and not pol and n <= 1) or (o == ">=" and n <= 2 and not pol) or (o == "==" and n in (0, 1) and pol)
        if small and (coll is None or x == coll):
            return x
    return None


TEXT_KW = ("encoding", "errors", "newline")


def _open_calls(cx: Cx, fn: FunctionInfo):
    """(call term, mode 'r'|'w'|'?', {kw: term}, line) for every text-file open / read_text / write_text in ``fn``."""
    from .terms import is_const

    out = []
    s = cx.summary(fn)
    seen = set()
    for t, ev, ctx in s.all_terms():
        for c in subterms(t):
            if op(c) != "call" or c in seen:
                continue
            name = callee_name(c)
            kw = dict(c[3])
            pos = list(c[2])
            mode = None
            order = None
            if c[1] == ("builtin", "open") or (op(c[1]) == "ext" and c[1][1] in ("gzip.open", "io.open", "codecs.open")):
                mode = kw.get("mode") or (pos[1] if len(pos) > 1 else ("const", "r"))
                order = ["file", "mode", "buffering", "encoding", "errors", "newline"] if c[1] != ("ext", "gzip.open") else ["filename", "mode", "compresslevel", "encoding", "errors", "newline"]
            elif op(c[1]) == "attr" and name == "open" and op(c[1][1]) not in ("ext",):
                mode = kw.get("mode") or (pos[0] if pos else ("const", "r"))
                order = ["mode", "buffering", "encoding", "errors", "newline"]
            elif op(c[1]) == "attr" and name == "write_text":
                mode = ("const", "w")
                order = ["data", "encoding", "errors", "newline"]
            elif op(c[1]) == "attr" and name == "read_text":
                mode = ("const", "r")
                order = ["encoding", "errors"]
            else:
                continue
            seen.add(c)
            args = {}
            for i, a in enumerate(pos):
                if i < len(order) and order[i] in TEXT_KW:
                    args[order[i]] = a
            for k in TEXT_KW:
                if k in kw:
                    args[k] = kw[k]
            args = {k: v for k, v in args.items() if not is_const(v, None)}
            modes = []
            if is_const(mode) and isinstance(mode[1], str):
                modes = [mode[1]]
            elif op(mode) == "ifexp" and is_const(mode[2]) and is_const(mode[3]):
                modes = [mode[2][1], mode[3][1]]
            for m in modes or ["?"]:
                if "b" in m:
                    continue
                out.append((c, "w" if any(x in m for x in "wax+") else ("r" if m != "?" else "?"), args, ev.line))
    return out


def open_args_agreement(cx: Cx, ob: Ob, writers: list, readers: list, what: str) -> None:
    """Text files are written and read back with the same encoding / errors / newline arguments."""
    from .terms import show

    W, R = [], []
    for q in writers:
        fn = cx.model.functions.get(q)
        if fn is not None:
            W += [(fn, *x) for x in _open_calls(cx, fn) if x[1] in ("w", "?")]
    for q in readers:
        fn = cx.model.functions.get(q)
        if fn is not None:
            R += [(fn, *x) for x in _open_calls(cx, fn) if x[1] in ("r", "?")]
    for fn, c, m, args, line in W + R:
        ob.site(f"{where(fn, line)} {fn.qualname}", f"{'write' if (fn, c, m, args, line) in W else 'read'} {show(c)[:40]} {sorted((k, show(v)) for k, v in args.items())}")
    if not W or not R:
        ob.undecide(f"{what}: no text-mode {'writer' if not W else 'reader'} found")
        return
    for k in TEXT_KW:
        if k == "newline":
            continue  # csv wants newline='' on both sides, judged by the csv rules; harmless for JSON
        wv = {show(a.get(k)) if k in a else "default" for _, _, _, a, _ in W}
        rv = {show(a.get(k)) if k in a else "default" for _, _, _, a, _ in R}
        if wv != rv or len(wv) > 1:
            fn, c, m, a, line = next((x for x in W + R if (show(x[3].get(k)) if k in x[3] else "default") != "default"), (W + R)[0])
            ob.violate(
                fn.qualname,
                where(fn, line),
                f"{what}: files are written with {k}={sorted(wv)} but read with {k}={sorted(rv)}: non-ASCII content does not read back as written wherever the locale's default differs",
                detail=f"open-{k}",
            )


LOSSY_ERROR_HANDLERS = {"ignore", "replace", "backslashreplace", "xmlcharrefreplace", "namereplace"}


def writers_encode_faithfully(cx: Cx, ob: Ob, writers: list) -> None:
    """No writer opens its file with an ``errors=`` handler that REPLACES what the encoding cannot express: the file
    then holds other characters ('?', '\\xe9', '&#233;' ..) than the text that was produced, and none of the readers
    undoes that - a prefix, URI prefix or pattern with such a character does not read back."""
    from .terms import is_const, show

    for q in writers:
        fn = cx.model.functions.get(q)
        if fn is None:
            continue
        for c, m, args, line in _open_calls(cx, fn):
            if m not in ("w", "?"):
                continue
            e = args.get("errors")
            ob.site(f"{where(fn, line)} {fn.qualname}", f"write {show(c)[:40]} errors={show(e) if e is not None else 'default'}")
            if e is not None and is_const(e) and e[1] in LOSSY_ERROR_HANDLERS:
                enc = args.get("encoding")
                ob.violate(
                    fn.qualname,
                    where(fn, line),
                    f"{fn.name} writes its file with errors={e[1]!r} (encoding={show(enc) if enc is not None else 'default'}): every character the encoding cannot express is replaced by other text in the file, which no reader turns back - a converter with such a character in a prefix, URI prefix or pattern does not read back to itself",
                    witness="Record(prefix='é', uri_prefix='http://ex/é/'): the written file holds a replacement, the loaded converter another name",
                    detail=f"errors-handler:{e[1]}",
                )


STR_ALTERING_CONFIG = {"str_strip_whitespace", "str_to_lower", "str_to_upper", "str_max_length", "str_min_length", "coerce_numbers_to_str"}
STR_ALTERING_CONSTRAINTS = {"strip_whitespace", "to_lower", "to_upper", "max_length", "min_length", "pattern"}


def record_verbatim(cx: Cx, ob: Ob, class_q: str = "curies.api.Record") -> None:
    """The record model stores every string exactly as given (no pydantic string transformation / constraint)."""
    import ast

    ci = cx.model.cls(class_q, ob.id)
    chain = [ci] + [b for b in cx.model.bases(ci) if isinstance(b, ClassInfo)]
    for c in chain:
        cfg = c.assigns.get("model_config")
        where_ = f"src/curies/{c.module.relpath}:{(cfg or c.node).lineno}"
        ob.site(f"{where_} {c.qualname}", f"model_config = {ast.unparse(cfg) if cfg is not None else '(default)'}")
        items = []
        if isinstance(cfg, ast.Call):
            items = [(k.arg, k.value) for k in cfg.keywords]
        elif isinstance(cfg, ast.Dict):
            items = [(k.value if isinstance(k, ast.Constant) else None, v) for k, v in zip(cfg.keys, cfg.values)]
        for k, v in items:
            if k in STR_ALTERING_CONFIG and not (isinstance(v, ast.Constant) and v.value in (False, None)):
                ob.violate(
                    c.qualname,
                    where_,
                    f"{c.name}.model_config sets {k}: prefixes and URI prefixes are altered when a record is built, so the converter no longer contains what its input lists (two inputs that differ only by surrounding whitespace or case collapse into a clash, listed pairs stop expanding / compressing)",
                    witness="Record(prefix='go ', uri_prefix='u ') stores 'go' / 'u': expand('go :1') is None although the pair was listed",
                    detail=f"config:{k}",
                )
        for m in c.methods.values():
            for dnode in m.node.decorator_list:
                if isinstance(dnode, ast.Call) and ast.unparse(dnode.func).rsplit(".", 1)[-1] == "field_validator":
                    mode = next((k.value.value for k in dnode.keywords if k.arg == "mode" and isinstance(k.value, ast.Constant)), "after")
                    targets = [a.value for a in dnode.args if isinstance(a, ast.Constant)]
                    if mode == "plain" and any(t in LISTS for t in targets):
                        ob.violate(
                            m.qualname,
                            m.where,
                            f"{c.name}.{m.name} validates {targets} in mode='plain': pydantic's own list validation (which builds a NEW list) is skipped, so the record stores the very list object it was given - two records built from the same list share it, and an in-place merge into one changes the other",
                            witness="Record(prefix='a', uri_prefix='u', prefix_synonyms=other.prefix_synonyms) aliases other's list",
                            detail=f"plain-validator:{m.name}",
                        )
        for name, (ann, val) in c.fields.items():
            for node in [n for n in (ann, val) if n is not None]:
                for call in [x for x in ast.walk(node) if isinstance(x, ast.Call)]:
                    fname = ast.unparse(call.func).rsplit(".", 1)[-1]
                    if fname in ("constr", "StringConstraints", "Field"):
                        for kw in call.keywords:
                            if kw.arg in STR_ALTERING_CONSTRAINTS and not (isinstance(kw.value, ast.Constant) and kw.value.value in (False, None)) and name in (CURIE_SIDE | URI_SIDE):
                                ob.violate(c.qualname, f"src/curies/{c.module.relpath}:{call.lineno}", f"{c.name}.{name} is declared with {fname}({kw.arg}=...): the string is altered or rejected when the record is built", detail=f"constraint:{name}:{kw.arg}")


IO_CALLS = {"open", "read_text", "read_bytes", "urlopen", "json.load", "urllib.request.urlopen", "requests.get"}


def _ast_callees(cx: Cx, fn: FunctionInfo) -> set:
    """Qualified names of package functions / own-class methods called (by name) in the body of ``fn``."""
    import ast

    out = set()
    mod = fn.module
    for n in ast.walk(fn.node):
        if not isinstance(n, ast.Call):
            continue
        f = n.func
        if isinstance(f, ast.Name):
            r = cx.model.resolve_global(mod, f.id)
            if r and r[0] == "func":
                out.add(r[1].qualname)
            elif f.id in fn.nested:
                out.add(fn.nested[f.id].qualname)
        elif isinstance(f, ast.Attribute) and isinstance(f.value, ast.Name) and f.value.id in ("self", "cls") and fn.cls is not None:
            m2 = cx.model.find_method(fn.cls, f.attr)
            if m2 is not None:
                out.add(m2.qualname)
    return out


def _ast_does_io(fn: FunctionInfo) -> bool:
    import ast

    for n in ast.walk(fn.node):
        if isinstance(n, ast.Call):
            name = ast.unparse(n.func)
            if name.rsplit(".", 1)[-1] in ("open", "read_text", "read_bytes", "urlopen") or name in ("json.load", "requests.get"):
                return True
            # rdflib: Graph.parse(location=.. / source=.. / a path) reads the file or URL it is pointed to
            if isinstance(n.func, ast.Attribute) and n.func.attr == "parse" and (any(k.arg in ("location", "source", "file") for k in n.keywords) or n.args) and "json" not in name and "ast." not in name:
                return True
    return False


def _keyed_by_file_state(cx: Cx, fn: FunctionInfo) -> bool:
    """Some call of ``fn`` passes an argument that is computed by reading the file (read_bytes / read_text / stat /
    getmtime / a digest of them): the cache key then follows the content, not only the location."""
    import ast

    for g in cx.model.functions.values():
        for n in ast.walk(g.node):
            if isinstance(n, ast.Call) and ((isinstance(n.func, ast.Name) and n.func.id == fn.name) or (isinstance(n.func, ast.Attribute) and n.func.attr == fn.name)):
                for a in list(n.args) + [k.value for k in n.keywords]:
                    if any(isinstance(x, ast.Call) and isinstance(x.func, ast.Attribute) and x.func.attr in ("read_bytes", "read_text", "stat", "getmtime", "hexdigest", "digest") for x in ast.walk(a)) or any(isinstance(x, ast.Attribute) and x.attr in ("st_mtime", "st_mtime_ns", "st_size") for x in ast.walk(a)):
                        return True
                    if isinstance(a, ast.Name):
                        # a local bound to such a read
                        for st_ in ast.walk(g.node):
                            if isinstance(st_, ast.Assign) and any(isinstance(t_, ast.Name) and t_.id == a.id for t_ in st_.targets) and any(isinstance(x, ast.Call) and isinstance(x.func, ast.Attribute) and x.func.attr in ("read_bytes", "read_text", "stat", "getmtime") for x in ast.walk(st_.value)):
                                return True
    return False


def memoised_io(cx: Cx, ob: Ob, roots: list[str]) -> None:
    """No function reachable from ``roots`` that (transitively) reads a file or the network is memoised:
    the same location must be read again after it was rewritten."""
    seen: set = set()
    todo = [q for q in roots if q in cx.model.functions]
    reach = []
    while todo:
        q = todo.pop()
        if q in seen or len(seen) > 300:
            continue
        seen.add(q)
        fn = cx.model.functions[q]
        reach.append(fn)
        todo.extend(_ast_callees(cx, fn))

    def does_io(fn, depth=0, stack=()) -> bool:
        if _ast_does_io(fn):
            return True
        if depth < 3:
            for q in _ast_callees(cx, fn):
                if q not in stack and q in cx.model.functions and does_io(cx.model.functions[q], depth + 1, stack + (q,)):
                    return True
        return False

    for fn in reach:
        ob.site(f"{fn.where} {fn.qualname}", "reachable from the loaders")
        if fn.is_cached_property or any("cache" in d for d in fn.decorators):
            if does_io(fn) and _keyed_by_file_state(cx, fn):
                ob.undecide(f"{fn.name} is memoised, reads a file or URL, and is called with an argument computed from the file itself (its bytes / text / modification time): that this argument changes whenever the content does is not decided")
                continue
            if does_io(fn):
                ob.violate(
                    fn.qualname,
                    fn.where,
                    f"{fn.name} is memoised ({', '.join(d for d in fn.decorators if 'cache' in d)}) and reads a file or URL: after the location is rewritten a second load returns the first content",
                    witness="write A; load; write B to the same path; load again -> still A",
                    detail="memoised-io",
                )


def constructor_owns_records(cx: Cx, ob: Ob) -> None:
    """Converter.__init__ reads its (possibly one-shot) `records` argument exactly through one
    materialising call and keeps a list of its own (never the caller's list, never sorted in place)."""
    from .terms import is_const, show

    init = cx.fn(f"{CONV}.__init__", ob.id)
    s = cx.summary(init, ob.id)
    rp = ("param", init.params[1].name)
    me = ("param", init.self_name)
    MATERIALISE = (("builtin", "sorted"), ("builtin", "list"), ("builtin", "tuple"))
    raw_uses: list = []

    def visit(t, parent, ev):
        if t == rp:
            ok = False
            if parent is not None and op(parent) == "call":
                if parent[1] in MATERIALISE and parent[2][:1] == (rp,):
                    ok = True
                if parent[1] == ("builtin", "isinstance") and parent[2][:1] == (rp,):
                    ok = True  # a type test consumes nothing
            if parent is not None and op(parent) == "star":
                ok = True  # [*records] / (*records,) build a fresh sequence
            if parent is not None and op(parent) == "cmp" and is_const(parent[3], None):
                ok = True
            if parent is not None and op(parent) == "comp" and len(parent[3]) == 1 and parent[3][0][1] == rp and not any(y == rp for y in subterms(parent[2])):
                ok = True  # one pass over the argument that builds the elements of the converter's own list
            if not ok:
                raw_uses.append((parent, ev))
            return
        if isinstance(t, tuple):
            for x in t:
                if isinstance(x, tuple):
                    visit(x, t if t and isinstance(t[0], str) else parent, ev)

    for t, ev, ctx in s.all_terms():
        visit(t, None, ev)
    ob.site(f"{init.where} {init.qualname}", f"uses of `{rp[1]}`")
    seen = set()
    for parent, ev in raw_uses:
        key = (ev.line, show(parent)[:40] if parent else "")
        if key in seen:
            continue
        seen.add(key)
        if parent is not None and op(parent) == "attr" and parent[2] in MUTATORS:
            ob.violate(init.qualname, where(init, ev.line), f"Converter.__init__ calls .{parent[2]}() on the caller's `{rp[1]}`: the argument is changed in place", detail=f"mutates-argument:{parent[2]}")
        elif ev.kind == "store" and ev.a == ("attr", me, "records") and ev.b == rp:
            ob.violate(
                init.qualname,
                where(init, ev.line),
                f"Converter.__init__ keeps the caller's own list as self.records: a second converter built from the same list (or Converter(other.records)) shares it, so add_record on one makes the other list records its lookup tables do not know",
                witness="work = Converter(base.records); work.add_prefix('x', 'u'): base.records contains x but base.expand('x:1') is None",
                detail="keeps-callers-list",
            )
        else:
            ob.violate(
                init.qualname,
                where(init, ev.line),
                f"Converter.__init__ uses its `{rp[1]}` argument directly (`{show(parent)[:60] if parent else rp[1]}`) instead of the list it materialises: the argument is declared Iterable, and a generator is exhausted by the first use - the converter is then silently built from nothing",
                witness="Converter(r for r in records): the duplicate check consumes the generator, the converter is empty and compress returns None for everything",
                detail="raw-argument-use",
            )
    stored = [ev.b for ev, _ in s.distinct_events("store") if ev.a == ("attr", me, "records")]
    for v in stored:
        ob.site(f"{init.where} {init.qualname}", f"self.records = {show(v)[:60]}")
        fresh = (op(v) == "call" and v[1] in MATERIALISE) or (op(v) == "comp" and v[1] != "gen") or op(v) in ("list", "tuple", "new")
        if not fresh and v != rp:
            ob.undecide(f"self.records is assigned `{show(v)[:60]}`: not recognisably a fresh list")
        # every record that is given is kept: a list built from the argument under a test leaves records out - they
        # are in no table, and what was written from a converter that held them does not read back
        if op(v) in ("new", "comp"):
            segs = list_segments(s, v, Prov(s))
            for sg in segs or ():
                whole_record = sg[0] == "each" and any(op(c_) == "cmp" and sg[2] in (c_[2], c_[3]) for c_, _ in sg[3] if isinstance(c_, tuple))
                if whole_record:
                    ob.undecide("Converter.__init__ leaves out records that compare equal as a whole to one it has kept (identical duplicates): whether anything is lost is not followed")
                    continue
                if sg[0] == "each" and sg[3] and any(x == rp for x in subterms(sg[1])):
                    cond_txt = show(sg[3][0][0])[:60] if isinstance(sg[3][0], tuple) else ""
                    ob.violate(
                        init.qualname,
                        init.where,
                        f"Converter.__init__ keeps only the records for which `{cond_txt}`: records of the collection it is given are silently left out of self.records (and of every table) - the converter no longer knows their prefixes, and e.g. a context written with include_synonyms=True (one entry per synonym, read back leniently) loses all but one entry per URI prefix",
                        witness="Converter([Record(prefix='a', uri_prefix='u'), Record(prefix='b', uri_prefix='u')], strict=False).get_prefixes() lacks 'b'",
                        detail="records-filtered",
                    )
                    break


def _projection(cx: Cx, key):
    """What a key function selects: 'id', ('idx', i), ('idxs', (i, j, ..)) or None (unknown)."""
    if key is None or is_const(key, None):
        return "id"

    def body_proj(body, var):
        if body == var:
            return "id"
        if op(body) == "item" and body[1] == var and is_const(body[2]) and isinstance(body[2][1], int):
            return ("idx", body[2][1])
        if op(body) == "tuple":
            sub = [body_proj(x, var) for x in body[1]]
            if all(isinstance(x, tuple) and x[0] == "idx" for x in sub):
                return ("idxs", tuple(x[1] for x in sub))
        return None

    if op(key) == "lambda" and len(key[1]) == 1:
        return body_proj(key[2], ("lv", key[1][0]))
    if op(key) == "call" and op(key[1]) == "ext" and key[1][1] == "operator.itemgetter" and key[2] and all(is_const(a) and isinstance(a[1], int) for a in key[2]):
        return ("idx", key[2][0][1]) if len(key[2]) == 1 else ("idxs", tuple(a[1] for a in key[2]))
    if op(key) == "func" and key[1] in cx.model.functions:
        f = cx.model.functions[key[1]]
        ps = [p for p in f.params]
        rets = cx.summary(f).returns()
        if len(ps) == 1 and len(rets) == 1:
            return body_proj(rets[0][0], ("param", ps[0].name))
    return None


def _first_component(proj):
    if proj == "id":
        return 0  # tuples compare lexicographically: sorted by the whole item groups by component 0
    if isinstance(proj, tuple) and proj[0] == "idx":
        return proj[1]
    if isinstance(proj, tuple) and proj[0] == "idxs" and proj[1]:
        return proj[1][0]
    return None


def groupby_sortedness(cx: Cx, ob: Ob, files: set | None = None, strict_only: bool = False) -> None:
    """itertools.groupby only merges ADJACENT equal keys: its input must be sorted by the grouping key.

    Without ``files``: the loaders of the converter (C13); with ``files``: every function defined there.
    ``strict_only`` reports definite mismatches only (used by the package-wide lint obligation)."""
    if files is None:
        names = [f"{API}.upgrade_prefix_map"] + [m.qualname for m in cx.model.cls(CONV, ob.id).methods.values() if m.name.startswith("from_")]
    else:
        names = [f.qualname for f in cx.model.functions.values() if f.module.relpath in files]
    for q in names:
        fn = cx.model.functions.get(q)
        if fn is None:
            continue
        import ast as _ast

        if not any(isinstance(n, _ast.Attribute) and n.attr == "groupby" or isinstance(n, _ast.Name) and n.id == "groupby" for n in _ast.walk(fn.node)):
            continue
        s = cx.summary(fn, ob.id) if not strict_only else cx.summary(fn)
        seen = set()
        for t, ev, ctx in s.all_terms():
            for c in subterms(t):
                if not (op(c) == "call" and op(c[1]) == "ext" and c[1][1] == "itertools.groupby" and c[2]):
                    continue
                if (ev.line, c) in seen:
                    continue
                seen.add((ev.line, c))
                key = dict(c[3]).get("key") or (c[2][1] if len(c[2]) > 1 else None)
                src = c[2][0]
                if op(src) == "new" and len(src) > 4:
                    src = src[4]
                if not strict_only:
                    ob.site(f"{where(fn, ev.line)} {fn.qualname}", f"groupby(key={show(key)[:40] if key else None})")
                if not (op(src) == "call" and src[1] == ("builtin", "sorted")):
                    plain = op(src) in ("param", "comp", "list", "tuple") or (op(src) == "call" and op(src[1]) == "attr" and src[1][2] in ("items", "values", "keys"))
                    if strict_only and plain and not any(e.kind == "expr" and op(e.a) == "call" and callee_name(e.a) == "sort" for e, _ in s.walk()):
                        ob.violate(
                            fn.qualname,
                            where(fn, ev.line),
                            f"itertools.groupby runs over `{show(src)[:50]}`, which is not sorted by the grouping key: equal keys that are not adjacent form several groups",
                            witness="values a, b, a: groupby yields a group for the first a, one for b and another one for the second a",
                            detail="groupby-unsorted",
                        )
                    elif not strict_only:
                        ob.undecide(f"groupby input `{show(src)[:50]}` is not a sorted(...) call: adjacency of equal keys not established")
                    continue
                skey = dict(src[3]).get("key")
                if skey == key:
                    continue
                gp, sp = _projection(cx, key), _projection(cx, skey)
                if gp is None and sp == "id" and op(key) in ("attr", "func", "builtin", "bound", "ext"):
                    # grouped by f(value) but sorted by the raw values: f is not monotone in general
                    ob.violate(
                        fn.qualname,
                        where(fn, ev.line),
                        f"itertools.groupby groups by `{show(key)[:40]}` but its input is sorted by the raw values: values with equal keys need not be adjacent and then form several groups",
                        witness="names 'a', 'b', 'x' with x a synonym of a: sorted order a, b, x puts b between the two names of one record",
                        detail="groupby-unsorted",
                    )
                    continue
                if gp is None or sp is None:
                    if not strict_only:
                        ob.undecide(f"groupby key `{show(key)[:40] if key else None}` / sort key `{show(skey)[:40] if skey else None}` not recognised as projections")
                    continue
                if gp == "id":
                    ok = sp == "id"
                elif gp[0] == "idx":
                    ok = _first_component(sp) == gp[1]
                else:
                    ok = sp == gp
                if not ok:
                    ob.violate(
                        fn.qualname,
                        where(fn, ev.line),
                        f"itertools.groupby groups by {gp} but its input is sorted by {sp}: equal keys that are not adjacent form several groups, i.e. several records claiming the same URI prefix",
                        witness="{'a': 'U', 'b': 'V', 'c': 'U'} sorted by item is (a,U),(b,V),(c,U): two groups for U",
                        detail="groupby-unsorted",
                    )


def first_split(c, string, sep, api: str = API):
    """Is the call ``c`` a split of ``string`` at the FIRST occurrence of ``sep``?

    Returns (verdict, head index, tail index): verdict 'ok' | 'split-all' | 'last-occurrence' | 'args' | None."""
    if op(c) != "call":
        return None, None, None
    if c[1] == ("func", f"{api}._split"):
        good = c[2][:1] == (string,) and (dict(c[3]).get("sep") == sep or (len(c[2]) > 1 and c[2][1] == sep))
        return ("ok" if good else "args"), 0, 1
    if op(c[1]) != "attr" or c[1][1] != string:
        return None, None, None
    m = c[1][2]
    if m in ("rpartition", "rsplit"):
        return "last-occurrence", None, None
    if m == "partition":
        return ("ok" if c[2] == (sep,) and not c[3] else "args"), 0, 2
    if m == "split":
        if c[2][:1] != (sep,):
            return "args", 0, 1
        ms = c[2][1] if len(c[2]) > 1 else dict(c[3]).get("maxsplit")
        return ("ok" if is_const(ms, 1) else "split-all"), 0, 1
    return None, None, None


def carried_into_outputs(cx: Cx, ob: Ob, roots: list[str], what: str) -> None:
    """Per-record emitters: in every loop over a converter's records (in the root functions and the package
    functions they call), what is yielded / appended / stored / written for one record must not contain a
    local that carries its value over from an earlier record (assigned before the loop or only conditionally
    inside it)."""
    seen_fn, todo = set(), list(roots)
    n_loops = 0
    while todo:
        q = todo.pop()
        if q in seen_fn:
            continue
        seen_fn.add(q)
        fn = cx.model.functions.get(q)
        if fn is None:
            continue
        todo.extend(_ast_callees(cx, fn) - seen_fn)
        s = cx.summary(fn)
        for lp, ctx in s.walk():
            if lp.kind != "loop" or ctx.loops or not any(op(x) == "attr" and x[2] == "records" for x in subterms(lp.b)):
                continue
            n_loops += 1
            ob.site(f"{where(fn, lp.line)} {fn.qualname}", f"loop over {show(lp.b)[:40]}")

            def scan(paths):
                for pth in paths:
                    for ev in pth.events:
                        emits = ev.kind in ("yield", "store") or (ev.kind == "expr" and op(ev.a) == "call" and callee_name(ev.a) in ("append", "add", "extend", "update", "write", "writerow", "writerows", "setdefault", "insert"))
                        if emits:
                            for t in (ev.a, ev.b):
                                if isinstance(t, tuple):
                                    for x in subterms(t):
                                        if op(x) == "phi" and x[2] == lp.c:
                                            ob.violate(
                                                fn.qualname,
                                                where(fn, ev.line),
                                                f"{what}: `{x[1]}` keeps its value from an earlier record when the current record does not set it, and that stale value goes into what is written for the current record",
                                                witness="records CHEBI (with a pattern) and GO (without): GO is written with CHEBI's pattern",
                                                detail=f"carried:{x[1]}",
                                            )
                        if ev.body:
                            scan(ev.body)

            scan(lp.body or [])
    if n_loops == 0:
        ob.undecide(f"{what}: no loop over a converter's records found in {roots}")


def package_lints(cx: Cx, ob: Ob, files: set) -> None:
    """ONE-SHOT iterator reuse and MUTABLE-DEFAULT leaks in the files a property is anchored in."""
    from .analyses.lints import scan

    lints, n = scan(cx.model, files)
    ob.site("src/curies/{" + ",".join(sorted(files)) + "}", f"{n} functions scanned (def-use lints)")
    for l in lints:
        ob.violate(l.fn.qualname, where(l.fn, l.line), l.message, detail=f"{l.rule}:{l.name}")
    groupby_sortedness(cx, ob, files, strict_only=True)


def no_fields_set_dependence(cx: Cx, ob: Ob) -> None:
    """Records are copied / serialised whole: nothing depends on pydantic's model_fields_set, which
    in-place merging (Converter._merge appends to the synonym lists) does not update."""
    n = 0
    for fn in cx.model.functions.values():
        s = cx.summary(fn)
        n += 1
        for t, ev, ctx in s.all_terms():
            for c in subterms(t):
                bad = None
                if op(c) == "call" and callee_name(c) in ("model_dump", "model_dump_json", "dict", "json") and any(k == "exclude_unset" and not (op(v) == "const" and v[1] in (False, None)) for k, v in c[3]):
                    bad = f"{callee_name(c)}(exclude_unset=True)"
                if op(c) == "attr" and c[2] in ("model_fields_set", "__fields_set__", "__pydantic_fields_set__"):
                    bad = c[2]
                    # handed on as the bookkeeping argument of model_construct next to ALL the values
                    # (**self.model_dump() / **dict(self)): every value is copied, only pydantic's own
                    # "was set explicitly" marks follow the original
                    for k in subterms(t):
                        fs_args = ([k[2][0]] if op(k) == "call" and k[2] else []) + ([v_ for kk_, v_ in k[3] if kk_ == "_fields_set"] if op(k) == "call" else [])
                        if op(k) == "call" and callee_name(k) == "model_construct" and fs_args and any(y == c for fa in fs_args for y in subterms(fa)) and not any(y == c for a_ in k[2][1:] for y in subterms(a_)) and not any(y == c for kk_, v_ in k[3] if kk_ not in (None, "_fields_set") for y in subterms(v_)):
                            splat = [v for kk, v in k[3] if kk is None]
                            if splat and all(op(v) == "call" and (callee_name(v) in ("model_dump", "dict") and not any(kk2 in ("exclude_unset", "exclude_defaults", "include", "exclude") for kk2, _ in v[3])) for v in splat):
                                bad = None
                if bad:
                    ob.violate(
                        fn.qualname,
                        where(fn, ev.line),
                        f"{fn.name} uses {bad}: synonyms that reached a record by in-place merging (add_prefix / add_record with merge=True, chain) are not in the model's fields_set, so a copy or dump made this way silently loses them",
                        witness="c = Converter([Record(prefix='a', uri_prefix='u')]); c.add_prefix('a', 'v', merge=True); the copy has no URI-prefix synonym 'v'",
                        detail="fields-set-dependent",
                    )
    ob.site("src/curies", f"{n} functions scanned for fields_set-dependent copies")
