"""CLI: /venv/bin/python -m curies_verif <ID> [--tier quick|thorough] [--replay path]."""

from __future__ import annotations

import argparse
import json
import os
import sys
import traceback


def main(argv: list[str] | None = None) -> int:
    ap = argparse.ArgumentParser(prog="curies_verif")
    ap.add_argument("prop")
    ap.add_argument("--tier", choices=["quick", "thorough"], default=None)
    ap.add_argument("--replay", default=None)
    ap.add_argument("--no-write", action="store_true")
    a = ap.parse_args(argv)
    tier = a.tier or os.environ.get("VERIF_TIER") or "quick"
    if tier not in ("quick", "thorough"):
        tier = "quick"
    prop = a.prop.upper()
    try:
        from . import props  # noqa: F401 - registers obligations
        from .report import META, REGISTRY, run_property

        if prop == "ALL":
            worst = 0
            for p in sorted(REGISTRY):
                worst = max(worst, _one(p, tier, a))
            return worst
        if prop not in REGISTRY:
            print(f"ANALYSIS-ERROR property={prop} obligation=- reason=unknown property")
            return 2
        return _one(prop, tier, a)
    except SystemExit:
        raise
    except BaseException as e:  # noqa: BLE001 - tracebacks must not look like violations
        traceback.print_exc()
        print(f"ANALYSIS-ERROR property={prop} obligation=- reason=analyser crashed: {type(e).__name__}: {e}")
        return 2


def _one(prop: str, tier: str, a) -> int:
    from .report import run_property

    replay_key = None
    if a.replay:
        try:
            replay_key = json.load(open(a.replay))["key"]
        except Exception:  # noqa: BLE001
            replay_key = a.replay
    extra = {}
    code = 0
    if tier == "thorough" and replay_key is None:
        from .report import THOROUGH_EXTRAS
        from .variants import run_matrix

        code, extra = run_matrix(prop)
        for fn in THOROUGH_EXTRAS.get(prop, []):
            c2, e2 = fn()
            code = max(code, c2)
            extra.update(e2)
    rc = run_property(prop, tier, write=not a.no_write, extra=extra, replay_key=replay_key)
    return max(rc, code) if rc != 1 else 1


if __name__ == "__main__":
    sys.exit(main())
