"""Sensitivity matrix (thorough tier) - filled in later."""


def run_matrix(prop: str):
    return 0, {}
