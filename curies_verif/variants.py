"""Sensitivity matrix of the thorough tier (DESIGN.md 2.6, appendix A).

A catalogue of seeded variants of the *current* tree, applied as text edits on an in-memory
overlay (nothing is written to /repo, nothing is executed or imported from it).  Breaking variants
must make the expected obligation VIOLATED; benign twins (behaviour-preserving rewrites) must
leave every obligation of the property HOLDS.  An unmet expectation is a defect of the checker
and is reported as ANALYSIS-ERROR (exit 2), never as a VIOLATION of the repository.  A variant
whose anchor text no longer occurs in the tree is recorded as not applicable.
"""

from __future__ import annotations

import json
import os
import time
from concurrent.futures import ProcessPoolExecutor
from dataclasses import dataclass

API = "api.py"
REC = "reconciliation.py"
DISC = "discovery.py"
RES = "resolver_service.py"
W3C = "w3c.py"
MSU = "mapping_service/utils.py"
MSA = "mapping_service/api.py"
TRI = "triples.py"


@dataclass
class Variant:
    id: str
    props: tuple
    kind: str  # breaking | benign
    file: str
    old: str
    new: str
    expect: tuple = ()  # obligation ids of which at least one must be VIOLATED (breaking)
    note: str = ""
    base: str = ""  # a refactoring under /verif/refactors applied first: the variant is a slip made while refactoring


V: list[Variant] = []


def b(id, props, file, old, new, expect, note=""):
    V.append(Variant(id, tuple(props.split()), "breaking", file, old, new, tuple(expect.split()), note))


def t(id, props, file, old, new, note=""):
    V.append(Variant(id, tuple(props.split()), "benign", file, old, new, (), note))


def bs(id, props, base, file, old, new, expect, note=""):
    """A slip on top of a confirmed behaviour-preserving refactoring (which itself must stay silent)."""
    V.append(Variant(id, tuple(props.split()), "breaking", file, old, new, tuple(expect.split()), note, base))


# ------------------------------------------------------------------------------------- C01 / C03
b("idx-trie-no-synonyms", "C01 C03 C05", API, "            self.trie[uri_prefix_synonym] = record.prefix\n", "", "C01-D1 C03-L1 C05-D1", "_index stops writing URI synonyms into the trie")
b("revmap-skip-falsy", "C01 C03 C05", API, "        rv[record.uri_prefix] = record.prefix\n        for uri_prefix_synonym", "        if record.uri_prefix:\n            rv[record.uri_prefix] = record.prefix\n        for uri_prefix_synonym", "C01-D1 C03-L1 C05-D1", "_get_reverse_prefix_map skips the empty URI prefix")
b("format-curie-literal", "C01 C03 C06 C07", API, 'return f"{prefix}{self.delimiter}{identifier}"', 'return f"{prefix}:{identifier}"', "C01-D4 C03-L3 C06-D3 C07-D4")
b("trie-shortest", "C01", API, "self.trie.longest_prefix_item(uri)", "self.trie.shortest_prefix_item(uri)", "C01-D2")
b("remainder-plus-one", "C01 C03", API, "uri[len(value) :]", "uri[len(value) + 1 :]", "C01-D3 C03-L1")
b("remainder-replace", "C01 C03", API, "uri[len(value) :]", 'uri.replace(value, "")', "C01-D3 C03-L1")
b("is-uri-via-is-curie", "C01 C07", API, "        return self.compress(s) is not None\n", "        return self.is_curie(s)\n", "C01-D4 C07-D1")
b("compress-ref-curie", "C01 C03", API, "        reference = self.parse_uri(uri, return_none=True)\n        if reference:\n            return self.format_curie(reference.prefix, reference.identifier)", "        reference = self.parse_uri(uri, return_none=True)\n        if reference:\n            return reference.curie", "C01-D4 C03-L3")
b("parse-uri-cache", "C01 C03 C05", API, "        try:\n            value, prefix = self.trie.longest_prefix_item(uri)\n", "        self._last = uri\n        try:\n            value, prefix = self.trie.longest_prefix_item(uri)\n", "C01-D6 C03-L6 C05-D7 C05-D2", "a query method writes converter state")
b("init-derived-cache", "C01 C05", API, "        self.pattern_map = _get_pattern_map(records)\n", "        self.pattern_map = _get_pattern_map(records)\n        self._uri_prefixes = sorted(self.reverse_prefix_map, key=len)\n", "C01-D6 C05-D7 C05-D2", "derived state not maintained by _index")
t("twin-removeprefix", "C01 C03", API, "uri[len(value) :]", "uri.removeprefix(value)")
t("twin-revmap-comprehension", "C01 C03 C05", API, "    rv = {}\n    for record in records:\n        rv[record.uri_prefix] = record.prefix\n        for uri_prefix_synonym in record.uri_prefix_synonyms:\n            rv[uri_prefix_synonym] = record.prefix\n    return rv\n", "    return {up: record.prefix for record in records for up in record._all_uri_prefixes}\n")
t("twin-rename-value-prefix", "C01 C03", API, "            value, prefix = self.trie.longest_prefix_item(uri)\n", "            matched, prefix = self.trie.longest_prefix_item(uri)\n            value = matched\n")
t("twin-is-uri-parse-uri", "C01 C07", API, "        return self.compress(s) is not None\n", "        return self.parse_uri(s, return_none=True) is not None\n")
t("twin-compress-is-not-none", "C01 C03 C08", API, "        reference = self.parse_uri(uri, return_none=True)\n        if reference:\n", "        reference = self.parse_uri(uri, return_none=True)\n        if reference is not None:\n")
t("twin-index-merged-loops", "C01 C02 C05", API, "        self.prefix_map[record.prefix] = record.uri_prefix\n        self.synonym_to_prefix[record.prefix] = record.prefix\n        for prefix_synonym in record.prefix_synonyms:\n            self.prefix_map[prefix_synonym] = record.uri_prefix\n            self.synonym_to_prefix[prefix_synonym] = record.prefix\n", "        for prefix_synonym in record._all_prefixes:\n            self.prefix_map[prefix_synonym] = record.uri_prefix\n            self.synonym_to_prefix[prefix_synonym] = record.prefix\n")

# ------------------------------------------------------------------------------------- C02 / C06
b("split-no-sep", "C02 C03", API, "_split(curie, sep=self.delimiter)", "_split(curie)", "C02-D2 C03-L3")
b("expand-ref-truthiness", "C02", API, "        if uri_prefix is not None:\n            return uri_prefix + reference.identifier", "        if uri_prefix:\n            return uri_prefix + reference.identifier", "C02-D3")
b("split-rpartition", "C02 C03 C15", API, "prefix, delimiter, identifier = curie.partition(sep)", "prefix, delimiter, identifier = curie.rpartition(sep)", "C02-D1 C03-L3 C15-D3")
b("identifier-strip", "C02 C03", API, "            return uri_prefix + reference.identifier\n", "            return uri_prefix + reference.identifier.strip()\n", "C02-D5 C03-L2")
b("expand-pair-all-skip-canonical", "C02 C03", API, "            rv = [record.uri_prefix + identifier]\n            for uri_prefix_synonyms in record.uri_prefix_synonyms:", "            rv = []\n            for uri_prefix_synonyms in record.uri_prefix_synonyms:", "C02-D7 C03-L4")
b("std-prefix-truthiness-again", "C02 C06", API, "        if rv is not None:\n            return rv\n        if strict:\n            raise PrefixStandardizationError(prefix)", "        if rv:\n            return rv\n        if strict:\n            raise PrefixStandardizationError(prefix)", "C02-D3 C06-D1")
b("std-prefix-casefold", "C06", API, "rv = self.synonym_to_prefix.get(prefix)", "rv = self.synonym_to_prefix.get(prefix.casefold())", "C06-D1")
b("std-curie-literal", "C06", API, "            return self.format_curie(*rt)\n", '            return f"{rt.prefix}:{rt.identifier}"\n', "C06-D3")
b("get-record-canonical-only", "C02 C03", API, "            if record.prefix == prefix or prefix in record.prefix_synonyms:\n", "            if record.prefix == prefix:\n", "C02-D7 C03-L4")
b("synmap-no-synonyms", "C02 C05 C06", API, "        rv[record.prefix] = record.prefix\n        for prefix_synonym in record.prefix_synonyms:\n            rv[prefix_synonym] = record.prefix\n", "        rv[record.prefix] = record.prefix\n", "C02-D4 C05-D1 C06-D2")
b("expand-drops-passthrough", "C02 C08", API, "        reference = self.parse_curie(curie, strict=False)\n        if reference is not None:\n            return self.expand_reference(reference, strict=strict, passthrough=passthrough)\n        if strict:\n            raise ExpansionError(curie)", "        reference = self.parse_curie(curie, strict=False)\n        if reference is not None:\n            return self.expand_reference(reference, strict=strict)\n        if strict:\n            raise ExpansionError(curie)", "C02-D6")
t("twin-expand-pair-all-display", "C02 C03", API, "            rv = [record.uri_prefix + identifier]\n            for uri_prefix_synonyms in record.uri_prefix_synonyms:\n                rv.append(uri_prefix_synonyms + identifier)\n            return rv\n", "            return [record.uri_prefix + identifier, *(s + identifier for s in record.uri_prefix_synonyms)]\n")
t("twin-expand-pair-all-comp", "C02 C03", API, "            rv = [record.uri_prefix + identifier]\n            for uri_prefix_synonyms in record.uri_prefix_synonyms:\n                rv.append(uri_prefix_synonyms + identifier)\n            return rv\n", "            return [up + identifier for up in record._all_uri_prefixes]\n")
t("twin-expand-ref-fstring", "C02 C03", API, "            return uri_prefix + reference.identifier\n", '            return f"{uri_prefix}{reference.identifier}"\n')
t("twin-get-record-all-prefixes", "C02 C03", API, "            if record.prefix == prefix or prefix in record.prefix_synonyms:\n", "            if prefix in record._all_prefixes:\n")
t("twin-split-not-in", "C02 C03 C15", API, "    prefix, delimiter, identifier = curie.partition(sep)\n    if not delimiter:\n        raise NoCURIEDelimiterError(curie)\n", "    if sep not in curie:\n        raise NoCURIEDelimiterError(curie)\n    prefix, _, identifier = curie.partition(sep)\n")

# ------------------------------------------------------------------------------------- C04
b("dup-prefix-canonical-only", "C04", API, "        for prefix, p2 in itt.product(record_1._all_prefixes, record_2._all_prefixes)\n", "        for prefix, p2 in itt.product([record_1.prefix], [record_2.prefix])\n", "C04-D2")
b("dup-zip-adjacent", "C04", API, "        for record_1, record_2 in itt.combinations(records, 2)\n        for uri_prefix, up2", "        for record_1, record_2 in zip(records, records[1:])\n        for uri_prefix, up2", "C04-D2")
b("dup-order-swapped", "C04", API, "            duplicate_uri_prefixes = _get_duplicate_uri_prefixes(records)\n            if duplicate_uri_prefixes:\n                raise DuplicateURIPrefixes(duplicate_uri_prefixes)\n            duplicate_prefixes = _get_duplicate_prefixes(records)\n            if duplicate_prefixes:\n                raise DuplicatePrefixes(duplicate_prefixes)\n", "            duplicate_prefixes = _get_duplicate_prefixes(records)\n            if duplicate_prefixes:\n                raise DuplicatePrefixes(duplicate_prefixes)\n            duplicate_uri_prefixes = _get_duplicate_uri_prefixes(records)\n            if duplicate_uri_prefixes:\n                raise DuplicateURIPrefixes(duplicate_uri_prefixes)\n", "C04-D1")
b("validator-wrong-canonical", "C04", API, 'uri_prefix = _get_field_validator_values(values, "uri_prefix")', 'uri_prefix = _get_field_validator_values(values, "prefix")', "C04-D3")
b("loader-strict-false", "C04 C13", API, "        return cls(records, **kwargs)\n\n    @classmethod\n    def from_jsonld(", "        return cls(records, strict=False, **kwargs)\n\n    @classmethod\n    def from_jsonld(", "C04-D4 C13-D3")
b("model-construct", "C04", API, "record if isinstance(record, Record) else Record(**record)", "record if isinstance(record, Record) else Record.model_construct(**record)", "C04-D3")
b("dup-cross-side", "C04", API, "        for uri_prefix, up2 in itt.product(record_1._all_uri_prefixes, record_2._all_uri_prefixes)\n", "        for uri_prefix, up2 in itt.product(record_1._all_uri_prefixes, record_2._all_prefixes)\n", "C04-D2")
b("bimap-swapped", "C04", API, "return {r.uri_prefix: r.prefix for r in self.records}", "return {r.prefix: r.uri_prefix for r in self.records}", "C04-D5")
# a table assigned BEFORE the duplicate check is unobservable: when the check raises, __init__ hands out no object
t("twin-index-built-before-check", "C04", API, "        records = sorted(records, key=lambda r: r.prefix)\n        if strict:\n", "        records = sorted(records, key=lambda r: r.prefix)\n        self.prefix_map = _get_prefix_map(records)\n        if strict:\n")
t("twin-dup-explicit-cover", "C04", API, "        for prefix, p2 in itt.product(record_1._all_prefixes, record_2._all_prefixes)\n", "        for prefix, p2 in itt.product([record_1.prefix, *record_1.prefix_synonyms], [record_2.prefix, *record_2.prefix_synonyms])\n")
t("twin-dup-set-intersection", "C04", API, "    return [\n        DuplicateSummary(record_1, record_2, prefix)\n        for record_1, record_2 in itt.combinations(records, 2)\n        for prefix, p2 in itt.product(record_1._all_prefixes, record_2._all_prefixes)\n        if prefix == p2\n    ]\n", "    return [\n        DuplicateSummary(record_1, record_2, prefix)\n        for record_1, record_2 in itt.combinations(records, 2)\n        for prefix in sorted(set(record_1._all_prefixes) & set(record_2._all_prefixes))\n    ]\n")

# ------------------------------------------------------------------------------------- C05 / C09
b("index-synmap-no-synonyms", "C05 C02", API, "            self.prefix_map[prefix_synonym] = record.uri_prefix\n            self.synonym_to_prefix[prefix_synonym] = record.prefix\n", "            self.prefix_map[prefix_synonym] = record.uri_prefix\n", "C05-D1 C02-D4")
b("append-before-check", "C05", API, "        matched = self._match_record(record, case_sensitive=case_sensitive)\n        if len(matched) > 1:\n", "        matched = self._match_record(record, case_sensitive=case_sensitive)\n        if not matched:\n            self.records.append(record)\n        if len(matched) > 1:\n", "C05-D3 C05-D4")
b("match-loses-syn-syn-uri", "C05 C09", API, "                if _in(\n                    uri_prefix_synonym, record.uri_prefix_synonyms, case_sensitive=case_sensitive\n                ):\n                    rv[record._key].append(\"URI prefix match\")\n", "", "C05-D6 C09-D2")
b("merge-overwrites-prefix", "C05 C09", API, "        into.prefix_synonyms.sort()\n", "        into.prefix_synonyms.sort()\n        into.prefix = record.prefix\n", "C05-D5 C09-D2")
b("add-prefix-drops-merge", "C05", API, "self.add_record(record, case_sensitive=case_sensitive, merge=merge)", "self.add_record(record, case_sensitive=case_sensitive)", "C05-D3")
b("match-break", "C05 C09", API, "        return dict(rv)\n\n    def add_record(", "            if record._key in rv:\n                break\n        return dict(rv)\n\n    def add_record(", "C05-D6 C09-D2")
b("index-conditional", "C05", API, "            self._merge(record, into=existing_record)\n            self._index(existing_record)\n", "            self._merge(record, into=existing_record)\n            if existing_record._key != key:\n                self._index(existing_record)\n", "C05-D4")
b("merge-no-membership-test", "C05 C09", API, "            if uri_prefix_synonym not in into._all_uri_prefixes:\n                into.uri_prefix_synonyms.append(uri_prefix_synonym)\n", "            if uri_prefix_synonym not in into.uri_prefix_synonyms:\n                into.uri_prefix_synonyms.append(uri_prefix_synonym)\n", "C05-D5 C09-D2")
b("match-raw-eq", "C05 C09", API, "            if _eq(external.prefix, record.prefix, case_sensitive=case_sensitive):\n", "            if external.prefix == record.prefix:\n", "C05-D6 C09-D2")
b("eq-always-folds", "C05 C09", API, "    if case_sensitive:\n        return a == b\n    return a.casefold() == b.casefold()", "    return a.casefold() == b.casefold()", "C05-D6 C09-D2")
b("subconverter-canonical-only", "C09", API, "            if any(prefix in prefixes for prefix in record._all_prefixes)\n", "            if record.prefix in prefixes\n", "C09-D3")
b("subconverter-delimiter-dropped", "C09", API, "return Converter(records, delimiter=self.delimiter)", "return Converter(records)", "C09-D4")
b("chain-delimiter-dropped", "C09", API, "rv = Converter([], delimiter=converters[0].delimiter)", "rv = Converter([])", "C09-D4")
b("chain-reversed", "C09", API, "    for converter in converters:\n        for record in converter.records:\n            rv.add_record(", "    for converter in reversed(converters):\n        for record in converter.records:\n            rv.add_record(", "C09-D1")
b("chain-case-not-forwarded", "C09", API, "                record.model_copy(deep=True), case_sensitive=case_sensitive, merge=True\n", "                record.model_copy(deep=True), merge=True\n", "C09-D1")
t("twin-add-prefix-positional-record", "C05", API, "        self.add_record(record, case_sensitive=case_sensitive, merge=merge)\n", "        self.add_record(record=record, case_sensitive=case_sensitive, merge=merge)\n")
t("twin-subconverter-generator-list", "C09 C10", API, "            if any(prefix in prefixes for prefix in record._all_prefixes)\n", "            if any([prefix in prefixes for prefix in record._all_prefixes])\n")
t("twin-subconverter-intersection", "C09 C10", API, "            if any(prefix in prefixes for prefix in record._all_prefixes)\n", "            if prefixes.intersection(record._all_prefixes)\n")

# ------------------------------------------------------------------------------------- C07 / C08
b("parse-curie-first", "C07", API, "        if self.is_uri(uri_or_curie):\n            if strict:\n                return self.parse_uri(uri_or_curie, strict=True, return_none=True)\n            else:\n                return self.parse_uri(uri_or_curie, strict=False, return_none=True)\n        if self.is_curie(uri_or_curie):\n            if strict:\n                return self.parse_curie(uri_or_curie, strict=True)\n            else:\n                return self.parse_curie(uri_or_curie, strict=False)\n", "        if self.is_curie(uri_or_curie):\n            if strict:\n                return self.parse_curie(uri_or_curie, strict=True)\n            else:\n                return self.parse_curie(uri_or_curie, strict=False)\n        if self.is_uri(uri_or_curie):\n            if strict:\n                return self.parse_uri(uri_or_curie, strict=True, return_none=True)\n            else:\n                return self.parse_uri(uri_or_curie, strict=False, return_none=True)\n", "C07-D2")
b("compress-strict-false", "C07", API, "return self.compress(uri, strict=True)", "return self.compress(uri, strict=False)", "C07-D4")
b("is-curie-via-compress", "C07", API, "            return self.expand(s) is not None\n", "            return self.compress(s) is not None\n", "C07-D1")
b("cos-ref-curie", "C07", API, "        reference = self.parse(uri_or_curie, strict=False)\n        if reference is not None:\n            return self.format_curie(reference.prefix, reference.identifier)", "        reference = self.parse(uri_or_curie, strict=False)\n        if reference is not None:\n            return reference.curie", "C07-D3")
b("eos-via-parse-curie", "C07", API, "        reference = self.parse(curie_or_uri, strict=False)\n", "        reference = self.parse_curie(curie_or_uri, strict=False)\n", "C07-D3")
b("passthrough-before-strict", "C08 C06", API, "        if strict:\n            raise URIStandardizationError(uri)\n        if passthrough:\n            return uri\n        return None", "        if passthrough:\n            return uri\n        if strict:\n            raise URIStandardizationError(uri)\n        return None", "C08-D3 C06-D5")
b("parse-curie-loses-try", "C08 C06", API, "        try:\n            prefix, identifier = _split(curie, sep=self.delimiter)\n        except NoCURIEDelimiterError:\n            if strict:\n                raise\n            return None\n", "        prefix, identifier = _split(curie, sep=self.delimiter)\n", "C08-D1 C06-D5")
b("strict-raises-keyerror", "C08", API, "        if strict:\n            raise ExpansionError(reference.prefix)", "        if strict:\n            raise KeyError(reference.prefix)", "C08-D2")
b("strict-raise-deleted", "C08", API, "        if strict:\n            raise CompressionError(uri)\n        if passthrough:\n            return uri\n        return None", "        if passthrough:\n            return uri\n        return None", "C08-D3")
b("passthrough-returns-none", "C08", API, "        if strict:\n            raise CURIEStandardizationError(curie)\n        if passthrough:\n            return curie\n        return None", "        if strict:\n            raise CURIEStandardizationError(curie)\n        return None", "C08-D3 C06-D5")
b("expand-all-get-record-strict", "C08", API, "        record = self.get_record(prefix)\n        if record is not None:\n            rv = [record.uri_prefix + identifier]", "        record = self.get_record(prefix, strict=True)\n        if record is not None:\n            rv = [record.uri_prefix + identifier]", "C08-D1 C08-D2")
b("std-uri-subscript-raw", "C08 C06 C03", API, "            return self.prefix_map[reference.prefix] + reference.identifier", "            return self.prefix_map[uri] + reference.identifier", "C08-D1 C06-D4 C03-L5")
t("twin-tail-elif", "C08", API, "        if strict:\n            raise CompressionError(uri)\n        if passthrough:\n            return uri\n        return None", "        if strict:\n            raise CompressionError(uri)\n        elif passthrough:\n            return uri\n        else:\n            return None")
t("twin-raise-from-none", "C08", API, "            raise ExpansionError(curie)\n        if passthrough:\n            return curie", "            raise ExpansionError(curie) from None\n        if passthrough:\n            return curie")
t("twin-parse-flat", "C07 C08", API, "            if strict:\n                return self.parse_uri(uri_or_curie, strict=True, return_none=True)\n            else:\n                return self.parse_uri(uri_or_curie, strict=False, return_none=True)\n", "            return self.parse_uri(uri_or_curie, strict=strict, return_none=True)\n")

# ------------------------------------------------------------------------------------- C10 / C11 / C12
b("chain-no-copy", "C10", API, "                record.model_copy(deep=True), case_sensitive=case_sensitive, merge=True\n", "                record, case_sensitive=case_sensitive, merge=True\n", "C10-D2")
b("chain-shallow-copy", "C10", API, "                record.model_copy(deep=True), case_sensitive=case_sensitive, merge=True\n", "                record.model_copy(), case_sensitive=case_sensitive, merge=True\n", "C10-D2")
b("rewire-no-copy", "C10", REC, "        record = record.model_copy(deep=True)\n        new_uri_prefix = _get_curie_preferred_or_synonym(record, rewiring)", "        new_uri_prefix = _get_curie_preferred_or_synonym(record, rewiring)", "C10-D1 C10-D2")
b("subconverter-no-copy", "C10", API, "            record.model_copy(deep=True)\n            for record in self.records\n            if any(", "            record\n            for record in self.records\n            if any(", "C10-D2")
b("discover-adds-to-input", "C10", DISC, "    return Converter(records)\n", "    if converter is not None:\n        for record in records:\n            converter.add_record(record)\n    return Converter(records)\n", "C10-D3")
b("remap-uri-shallow-mutate", "C10", REC, "        record = record.model_copy(deep=True)\n        new_uri_prefix = _get_uri_preferred_or_synonym(record, remapping)", "        record = record.model_copy()\n        record.uri_prefix_synonyms.sort()\n        new_uri_prefix = _get_uri_preferred_or_synonym(record, remapping)", "C10-D1 C10-D2")
t("twin-deepcopy-module", "C10 C12", REC, "from .api import Converter, Record\n", "import copy\n\nfrom .api import Converter, Record\n", "import only")
t("twin-rewire-copy-deepcopy", "C10 C12", REC, "import logging\nfrom collections import Counter, defaultdict\n", "import copy\nimport logging\nfrom collections import Counter, defaultdict\n")
b("c11-plain-drops-union", "C11", REC, "                set(record.prefix_synonyms).union({record.prefix}).difference({new_prefix})\n", "                set(record.prefix_synonyms).difference({new_prefix})\n", "C11-D1")
b("c11-continue-drops-record", "C11", REC, "                new_record,\n            )\n        elif old in handed_over:", "                new_record,\n            )\n            continue\n        elif old in handed_over:", "C11-D4")
b("c11-stores-uri-prefix", "C11", REC, "            record.prefix = new_prefix\n        modified_records.append(record)", "            record.prefix = new_prefix\n            record.uri_prefix_synonyms = sorted(record.uri_prefix_synonyms)\n        modified_records.append(record)", "C11-D3")
b("c11-handover-back-to-intersection", "C11", REC, "    handed_over = {new for old, new in remapping.items() if old in converter.synonym_to_prefix}\n", "    handed_over = set(remapping).intersection(remapping.values())\n", "C11-D2")
b("c11-transitive-loses-canonical", "C11", REC, "                set(record.prefix_synonyms).union({record.prefix}).difference({old, new_prefix})\n", "                set(record.prefix_synonyms).difference({old, new_prefix})\n", "C11-D1")
b("c11-new-left-in-synonyms", "C11", REC, "                set(record.prefix_synonyms).union({record.prefix}).difference({new_prefix})\n", "                set(record.prefix_synonyms).union({record.prefix})\n", "C11-D1")
b("c11-clash-ignores-own", "C11", REC, "        if new_record is not None and record != new_record:", "        if new_record is not None:", "C11-D5")
t("twin-c11-operators", "C11", REC, "                set(record.prefix_synonyms).union({record.prefix}).difference({new_prefix})\n", "                (set(record.prefix_synonyms) | {record.prefix}) - {new_prefix}\n")
b("c12-rewire-drops-union", "C12", REC, "            record.uri_prefix_synonyms = sorted(\n                set(record.uri_prefix_synonyms)\n                .union({record.uri_prefix})\n                .difference({new_uri_prefix})\n            )\n            record.uri_prefix = new_uri_prefix\n        records.append(record)\n\n    # potential", "            record.uri_prefix_synonyms = sorted(\n                set(record.uri_prefix_synonyms)\n                .difference({new_uri_prefix})\n            )\n            record.uri_prefix = new_uri_prefix\n        records.append(record)\n\n    # potential", "C12-D1")
b("c12-clash-test-removed", "C12", REC, "        elif (\n            new_uri_prefix in converter.reverse_prefix_map\n            and new_uri_prefix not in record.uri_prefix_synonyms\n        ):\n            pass  # would create a clash, don't do anything\n", "", "C12-D2")
b("c12-transitive-disabled", "C12", REC, "    if intersection:\n        raise TransitiveError(intersection)\n", "", "C12-D3")
b("c12-own-synonym-not-promoted", "C12", REC, "        elif (\n            new_uri_prefix in converter.reverse_prefix_map\n            and new_uri_prefix not in record.uri_prefix_synonyms\n        ):\n            pass  # would create a clash, don't do anything\n", "        elif new_uri_prefix in converter.reverse_prefix_map:\n            pass  # would create a clash, don't do anything\n", "C12-D2")
b("c12-canonical-only-knowledge", "C12", REC, "            new_uri_prefix in converter.reverse_prefix_map\n            and new_uri_prefix not in record.uri_prefix_synonyms\n        ):\n            logger.debug(", "            new_uri_prefix in converter.get_uri_prefixes()\n            and new_uri_prefix not in record.uri_prefix_synonyms\n        ):\n            logger.debug(", "C12-D2")
b("c12-helper-canonical-only", "C12", REC, "    if record.uri_prefix in upgrades:\n        return upgrades[record.uri_prefix]\n    for s in record.uri_prefix_synonyms:\n        if s in upgrades:\n            return upgrades[s]\n    return None", "    if record.uri_prefix in upgrades:\n        return upgrades[record.uri_prefix]\n    return None", "C12-D5")
b("c12-rewire-stores-prefix", "C12", REC, "            record.uri_prefix = new_uri_prefix\n        records.append(record)\n\n    # potential", "            record.uri_prefix = new_uri_prefix\n            record.prefix_synonyms = sorted(record.prefix_synonyms)\n        records.append(record)\n\n    # potential", "C12-D4")
t("twin-c12-operators", "C12", REC, "            record.uri_prefix_synonyms = sorted(\n                set(record.uri_prefix_synonyms)\n                .union({record.uri_prefix})\n                .difference({new_uri_prefix})\n            )\n            record.uri_prefix = new_uri_prefix\n        records.append(record)\n    return Converter(records)", "            record.uri_prefix_synonyms = sorted(\n                (set(record.uri_prefix_synonyms) | {record.uri_prefix}) - {new_uri_prefix}\n            )\n            record.uri_prefix = new_uri_prefix\n        records.append(record)\n    return Converter(records)")
t("twin-c12-trie-knowledge", "C12", REC, "            new_uri_prefix in converter.reverse_prefix_map\n            and new_uri_prefix not in record.uri_prefix_synonyms\n        ):\n            pass", "            new_uri_prefix in converter.get_uri_prefixes(include_synonyms=True)\n            and new_uri_prefix not in record.uri_prefix_synonyms\n        ):\n            pass")

# ------------------------------------------------------------------------------------- C13 / C14
b("reverse-map-lexicographic", "C13", API, "sorted(uri_prefixes, key=len)", "sorted(uri_prefixes)", "C13-D4")
b("upgrade-no-inner-sort", "C13", API, "        uri_prefix: sorted(curie_prefixes)\n", "        uri_prefix: list(curie_prefixes)\n", "C13-D4")
b("upgrade-no-outer-sort", "C13", API, "        for uri_prefix, (prefix, *prefix_synonyms) in sorted(priority_prefix_map.items())\n", "        for uri_prefix, (prefix, *prefix_synonyms) in priority_prefix_map.items()\n", "C13-D4")
b("jsonld-keeps-at-keys", "C13", API, '            if key.startswith("@"):\n                continue\n', "", "C13-D5")
b("jsonld-prefix-truthiness", "C13", API, 'value.get("@prefix") is True', 'value.get("@prefix")', "C13-D5")
b("loader-bypasses-prepare", "C13", API, "                for prefix, uri_prefix in _prepare(prefix_map).items()\n", "                for prefix, uri_prefix in prefix_map.items()\n", "C13-D1")
b("prefix-map-roles-swapped", "C13", API, "                Record(prefix=prefix, uri_prefix=uri_prefix)\n                for prefix, uri_prefix in _prepare(prefix_map).items()", "                Record(prefix=uri_prefix, uri_prefix=prefix)\n                for prefix, uri_prefix in _prepare(prefix_map).items()", "C13-D4")
b("rdflib-skip-empty", "C13", API, "prefix_map = {prefix: str(namespace) for prefix, namespace in graph_or_manager.namespaces()}", "prefix_map = {prefix: str(namespace) for prefix, namespace in graph_or_manager.namespaces() if prefix}", "C13-D4")
b("priority-tail-from-2", "C13", API, "uri_prefix_synonyms=uri_prefixes[1:]", "uri_prefix_synonyms=uri_prefixes[2:]", "C13-D4")
b("prepare-str-not-loaded", "C13", API, "        with open(data) as file:\n            return cast(X, json.load(file))\n    else:\n        return data", "        return data\n    else:\n        return data", "C13-D2")
b("load-wrapper-wrong-target", "C13", API, "    return Converter.from_jsonld(data, **kwargs)", "    return Converter.from_prefix_map(data, **kwargs)", "C13-D1")
t("twin-reverse-head-tail-index", "C13", API, "            uri_prefix, *uri_prefix_synonyms = sorted(uri_prefixes, key=len)\n", "            ordered = sorted(uri_prefixes, key=len)\n            uri_prefix, uri_prefix_synonyms = ordered[0], ordered[1:]\n")
t("twin-reverse-key-lambda", "C13", API, "sorted(uri_prefixes, key=len)", "sorted(uri_prefixes, key=lambda s: len(s))")
b("epm-omits-uri-synonyms", "C14", API, '    if record.uri_prefix_synonyms:\n        rv["uri_prefix_synonyms"] = sorted(record.uri_prefix_synonyms)\n', "", "C14-D1")
b("shacl-pattern-unescaped", "C14", API, '        pattern = pattern.replace("\\\\", "\\\\\\\\")\n', "", "C14-D4")
b("shacl-prefix-unescaped", "C14", API, '    prefix = prefix.replace("\\\\", "\\\\\\\\")\n', "", "C14-D4")
b("jsonld-ignores-include-synonyms", "C14", API, "        if include_synonyms:\n            for prefix_synonym in record.prefix_synonyms:\n                context[prefix_synonym] = term\n", "", "C14-D2")
b("jsonld-value-for-id", "C14", API, 'rv = {"@prefix": True, "@id": record.uri_prefix}', 'rv = {"@prefix": True, "@value": record.uri_prefix}', "C14-D2")
b("shacl-writer-regex-term", "C14", API, """line += f'; sh:pattern "{pattern}"'""", """line += f'; sh:regex "{pattern}"'""", "C14-D3")
b("tsv-columns-swapped", "C14", API, "writer.writerow((record.prefix, record.uri_prefix))", "writer.writerow((record.uri_prefix, record.prefix))", "C14-D5")
b("epm-pattern-truthiness", "C14", API, "    if record.pattern is not None:\n", "    if record.pattern:\n", "C14-D1")
b("shacl-synonym-wrong-namespace", "C14", API, "                    _get_shacl_line(prefix_synonym, record.uri_prefix, pattern=record.pattern)\n", "                    _get_shacl_line(prefix_synonym, record.prefix, pattern=record.pattern)\n", "C14-D3")

# ------------------------------------------------------------------------------------- C15 / C16
b("hash-includes-curie-only-prefix", "C15", API, "        return hash((self.prefix, self.identifier))", "        return hash(self.prefix)", "C15-D1")
b("lt-prefix-only", "C15", API, "        return self.pair < other.pair", "        return self.prefix < other.prefix", "C15-D2")
b("named-not-frozen", "C15", API, '    name: str = Field(\n        ..., description="The name of the entity referenced by this object\'s prefix and identifier."\n    )\n\n    model_config = ConfigDict(frozen=True)', '    name: str = Field(\n        ..., description="The name of the entity referenced by this object\'s prefix and identifier."\n    )\n\n    model_config = ConfigDict(frozen=False)', "C15-D4")
b("read-triples-swapped", "C15", TRI, "                predicate=reference_cls.from_curie(predicate_curie),\n                object=reference_cls.from_curie(object_curie),\n            )\n            for subject_curie", "                predicate=reference_cls.from_curie(object_curie),\n                object=reference_cls.from_curie(predicate_curie),\n            )\n            for subject_curie", "C15-D7")
b("curie-joined-with-slash", "C15", API, '        return f"{self.prefix}:{self.identifier}"\n\n    @property\n    def pair', '        return f"{self.prefix}/{self.identifier}"\n\n    @property\n    def pair', "C15-D3")
b("eq-compares-name", "C15", API, "            and self.identifier == other.identifier\n        )", "            and self.identifier == other.identifier\n            and getattr(self, \"name\", None) == getattr(other, \"name\", None)\n        )", "C15-D1")
b("prefix-validate-not-strict", "C15", API, "return cls(converter.standardize_prefix(__input_value, strict=True))", "return cls(converter.standardize_prefix(__input_value, passthrough=True))", "C15-D5")
b("from-curie-no-context", "C15", API, '        prefix, identifier = _split(curie, sep=sep)\n        return cls.model_validate({"prefix": prefix, "identifier": identifier}, context=converter)', '        prefix, identifier = _split(curie, sep=sep)\n        return cls.model_validate({"prefix": prefix, "identifier": identifier})', "C15-D3")
t("twin-eq-pair", "C15", API, "        return self.pair < other.pair", "        return (self.prefix, self.identifier) < (other.prefix, other.identifier)")
b("pd-curie-no-passthrough", "C16", API, "func = partial(self.standardize_curie, strict=strict, passthrough=passthrough)", "func = partial(self.standardize_curie, strict=strict)", "C16-D1")
b("target-or-column", "C16", API, "        func = partial(self.standardize_uri, strict=strict, passthrough=passthrough)\n        df[column if target_column is None else target_column] = df[column].map(func)", "        func = partial(self.standardize_uri, strict=strict, passthrough=passthrough)\n        df[target_column or column] = df[column].map(func)", "C16-D2")
b("file-helper-convert-while-writing", "C16", API, "            for row in reader:\n                row[column] = func(row[column]) or \"\"\n                rows.append(row)\n        with path.open(\"w\") as file_out:\n            writer = csv.writer(file_out, delimiter=delimiter)\n            if _header:\n                writer.writerow(_header)\n            writer.writerows(rows)", "            for row in reader:\n                rows.append(row)\n        with path.open(\"w\") as file_out:\n            writer = csv.writer(file_out, delimiter=delimiter)\n            if _header:\n                writer.writerow(_header)\n            for row in rows:\n                row[column] = func(row[column]) or \"\"\n                writer.writerow(row)", "C16-D3")
b("file-expand-wraps-compress", "C16", API, "        pre_func = self.expand_or_standardize if ambiguous else self.expand\n        func = partial(pre_func, strict=strict, passthrough=passthrough)  # type:ignore\n        self._file_helper(", "        pre_func = self.compress_or_standardize if ambiguous else self.compress\n        func = partial(pre_func, strict=strict, passthrough=passthrough)  # type:ignore\n        self._file_helper(", "C16-D1")
b("file-helper-other-column", "C16", API, '                row[column] = func(row[column]) or ""\n', '                row[0] = func(row[column]) or ""\n', "C16-D4")
b("pd-ambiguous-ignored", "C16", API, "        pre_func = self.compress_or_standardize if ambiguous else self.compress\n        func = partial(pre_func, strict=strict, passthrough=passthrough)  # type:ignore\n        df[", "        pre_func = self.compress\n        func = partial(pre_func, strict=strict, passthrough=passthrough)  # type:ignore\n        df[", "C16-D1")
t("twin-partial-lambda", "C16", API, "func = partial(self.standardize_curie, strict=strict, passthrough=passthrough)", "func = lambda x: self.standardize_curie(x, strict=strict, passthrough=passthrough)  # noqa")
t("twin-target-is-not-none", "C16", API, "        func = partial(self.standardize_uri, strict=strict, passthrough=passthrough)\n        df[column if target_column is None else target_column] = df[column].map(func)", "        func = partial(self.standardize_uri, strict=strict, passthrough=passthrough)\n        df[target_column if target_column is not None else column] = df[column].map(func)")

# ------------------------------------------------------------------------------------- C17 / C18
b("fastapi-no-path", "C17", RES, "{{identifier:path}}", "{{identifier}}", "C17-D1")
b("flask-no-resplit", "C17", RES, '        prefix, identifier = _split(\n            f"{prefix}{converter.delimiter}{identifier}", sep=converter.delimiter\n        )\n        location = converter.expand_pair(prefix, identifier)\n        if location is None:\n            prefixes = "".join(', '        location = converter.expand_pair(prefix, identifier)\n        if location is None:\n            prefixes = "".join(', "C17-D2")
b("redirect-default-status", "C17", RES, "return RedirectResponse(location, status_code=302)", "return RedirectResponse(location)", "C17-D3")
b("failure-code-404", "C17", RES, "FAILURE_CODE = 422", "FAILURE_CODE = 404", "C17-D3")
b("flask-no-path", "C17", RES, "<path:identifier>", "<identifier>", "C17-D1")
b("resplit-default-sep", "C17", RES, '        prefix, identifier = _split(\n            f"{prefix}{converter.delimiter}{identifier}", sep=converter.delimiter\n        )\n        location = converter.expand_pair(prefix, identifier)\n        if location is None:\n            prefixes = ", ".join(', '        prefix, identifier = _split(f"{prefix}{converter.delimiter}{identifier}")\n        location = converter.expand_pair(prefix, identifier)\n        if location is None:\n            prefixes = ", ".join(', "C17-D2")
b("flask-expand-passthrough", "C17", RES, '        location = converter.expand_pair(prefix, identifier)\n        if location is None:\n            prefixes = "".join(', '        location = converter.expand_pair(prefix, identifier, passthrough=True)\n        if location is None:\n            prefixes = "".join(', "C17-D3")
b("header-ascending", "C18", MSU, "return sorted(parts, key=parts.__getitem__, reverse=True)", "return sorted(parts, key=parts.__getitem__)", "C18-D2")
b("header-no-strip", "C18", MSU, "key, *parameters = (x.strip() for x in part.split(\";\"))", "key, *parameters = (x for x in part.split(\";\"))", "C18-D3")
b("triples-asymmetric", "C18", MSA, "                    yield subj, pred, obj_query\n", "                    yield obj_query, pred, subj\n", "C18-D5")
b("synonym-dangling", "C18", MSU, '"text/csv": "application/sparql-results+csv",\n}', '"text/csv": "application/sparql-results+tsv",\n}', "C18-D1")
b("fastapi-no-post", "C18", MSA, "    @api_router.post(route)\n", "    @api_router.put(route)\n", "C18-D6")
b("expand-pair-all-not-strict", "C18", MSA, "self.converter.expand_pair_all(reference.prefix, reference.identifier, strict=True)", "self.converter.expand_pair_all(reference.prefix, reference.identifier)", "C18-D4")
b("no-validity-filter", "C18", MSA, "return [URIRef(uri) for uri in uris if _is_valid_uri(uri)]", "return [URIRef(uri) for uri in uris]", "C18-D4")
b("default-q-zero", "C18", MSU, "    return key, 1.0\n", "    return key, 0.0\n", "C18-D2")
b("handle-header-no-synonyms", "C18", MSU, "        header_part = CONTENT_TYPE_SYNONYMS.get(header_part, header_part)\n", "", "C18-D2")
t("twin-header-neg-key", "C18", MSU, "return sorted(parts, key=parts.__getitem__, reverse=True)", "return sorted(parts, key=lambda k: -parts[k])")

# ------------------------------------------------------------------------------------- C19 / C20
b("discover-unsorted", "C19", DISC, "        for uri_prefix, luids in sorted(uri_prefix_to_luids.items())\n", "        for uri_prefix, luids in uri_prefix_to_luids.items()\n", "C19-D2")
b("discover-split", "C19", DISC, "uri.rsplit(delimiter, maxsplit=1)", "uri.split(delimiter, maxsplit=1)", "C19-D4")
b("discover-cutoff-gt", "C19", DISC, "len(luids) >= cutoff", "len(luids) > cutoff", "C19-D3")
b("discover-start-0", "C19", DISC, "enumerate(uri_prefixes, start=1)", "enumerate(uri_prefixes)", "C19-D2")
b("discover-list-accumulator", "C19", DISC, "    uri_prefix_to_luids = defaultdict(set)\n", "    uri_prefix_to_luids = defaultdict(list)\n", "C19-D1")
b("discover-no-break", "C19", DISC, "                uri_prefix_to_luids[uri_prefix + delimiter].add(luid)\n                break\n", "                uri_prefix_to_luids[uri_prefix + delimiter].add(luid)\n", "C19-D4")
b("discover-known-not-skipped", "C19", DISC, "        if converter is not None and converter.is_uri(uri):\n            continue\n", "", "C19-D5")
b("discover-key-without-delimiter", "C19", DISC, "uri_prefix_to_luids[uri_prefix + delimiter].add(luid)", "uri_prefix_to_luids[uri_prefix].add(luid)", "C19-D4")
t("twin-discover-records-loop", "C19", DISC, "    records = [\n        Record(prefix=f\"{metaprefix}{uri_prefix_index}\", uri_prefix=uri_prefix)\n        for uri_prefix_index, uri_prefix in enumerate(uri_prefixes, start=1)\n    ]\n", "    records = [\n        Record(prefix=metaprefix + str(uri_prefix_index), uri_prefix=uri_prefix)\n        for uri_prefix_index, uri_prefix in enumerate(uri_prefixes, start=1)\n    ]\n", "str() + concatenation instead of an f-string")
b("w3c-fullmatch-to-match", "C20", W3C, "return bool(NCNAME_RE.fullmatch(prefix))", "return bool(NCNAME_RE.match(prefix))", "C20-D1 C20-D3")
b("w3c-colon-in-ncname", "C20", W3C, 'NCNAME_PATTERN = r"[A-Za-z_][A-Za-z0-9\\.\\-_]*"', 'NCNAME_PATTERN = r"[A-Za-z_][A-Za-z0-9\\.\\-_:]*"', "C20-D1")
b("w3c-no-bracket-test", "C20", W3C, '    if "[" in curie or "]" in curie:\n        return False\n', "", "C20-D3")
b("w3c-rpartition", "C20", W3C, 'prefix, sep, identifier = curie.partition(":")', 'prefix, sep, identifier = curie.rpartition(":")', "C20-D3")
b("w3c-luid-match", "C20", W3C, "return bool(LOCAL_UNIQUE_IDENTIFIER_RE.fullmatch(luid))", "return bool(LOCAL_UNIQUE_IDENTIFIER_RE.match(luid))", "C20-D2 C20-D3")
b("w3c-digit-start", "C20", W3C, 'NCNAME_PATTERN = r"[A-Za-z_][A-Za-z0-9\\.\\-_]*"', 'NCNAME_PATTERN = r"[A-Za-z0-9_][A-Za-z0-9\\.\\-_]*"', "C20-D1")
b("w3c-blank-check-removed", "C20", W3C, "    if not curie.strip():\n        return False\n", "", "C20-D3")
t("twin-w3c-re-fullmatch", "C20", W3C, "return bool(NCNAME_RE.fullmatch(prefix))", "return re.fullmatch(NCNAME_PATTERN, prefix) is not None")
t("twin-w3c-anchored-match", "C20", W3C, 'NCNAME_RE = re.compile(f"^{NCNAME_PATTERN}$")', 'NCNAME_RE = re.compile(rf"\\A{NCNAME_PATTERN}\\Z")')
t("twin-w3c-anchored-match-used", "C20", W3C, 'NCNAME_RE = re.compile(f"^{NCNAME_PATTERN}$")\n', 'NCNAME_RE = re.compile(rf"\\A{NCNAME_PATTERN}\\Z")\nNCNAME_MATCH = NCNAME_RE.match\n')


b("init-strict-default-false", "C04", API, "self, records: Iterable[Record], *, delimiter: str = \":\", strict: bool = True\n", "self, records: Iterable[Record], *, delimiter: str = \":\", strict: bool = False\n", "C04-D1")
b("shacl-select-swapped", "C14", API, "SELECT ?curie_prefix ?uri_prefix ?pattern", "SELECT ?uri_prefix ?curie_prefix ?pattern", "C14-D6")
b("shacl-pattern-not-optional", "C14", API, "OPTIONAL { ?bnode2 sh:pattern ?pattern . }", "?bnode2 sh:pattern ?pattern .", "C14-D6")
b("tsv-prefix-map-items", "C14", API, "        for record in converter.records:\n            writer.writerow((record.prefix, record.uri_prefix))\n", "        writer.writerows(converter.prefix_map.items())\n", "C14-D5")
t("twin-tsv-writerows-comp", "C14", API, "        for record in converter.records:\n            writer.writerow((record.prefix, record.uri_prefix))\n", "        writer.writerows((record.prefix, record.uri_prefix) for record in converter.records)\n")
t("twin-tsv-bimap-items", "C14", API, "        for record in converter.records:\n            writer.writerow((record.prefix, record.uri_prefix))\n", "        writer.writerows(converter.bimap.items())\n")
b("file-helper-header-ignored", "C16", API, "_header = next(reader) if header else None", "_header = next(reader)", "C16-D4")
b("jsonld-colon-keys-skipped", "C13 C14", API, '            if key.startswith("@"):\n                continue\n', '            if key.startswith("@"):\n                continue\n            if ":" in key:\n                continue\n', "C13-D5 C14-D2")
b("predicates-default-always", "C18", MSA, "    if predicates is None:\n        return {OWL.sameAs}\n    if isinstance(predicates, str):\n        return {URIRef(predicates)}\n    return {URIRef(predicate) for predicate in predicates}", "    if predicates is None:\n        return {OWL.sameAs}\n    if isinstance(predicates, str):\n        return {OWL.sameAs, URIRef(predicates)}\n    return {URIRef(predicate) for predicate in predicates}", "C18-D7")
b("w3c-strip-rebind", "C20", W3C, "    if not curie.strip():\n        return False\n", "    curie = curie.strip()\n    if not curie:\n        return False\n", "C20-D3")
b("w3c-unicode-word", "C20", W3C, 'NCNAME_PATTERN = r"[A-Za-z_][A-Za-z0-9\\.\\-_]*"', 'NCNAME_PATTERN = r"[^\\W\\d][\\w\\.\\-]*"', "C20-D1")
b("expand-from-curie-fallback", "C08", API, "        if strict:\n            raise ExpansionError(curie)\n        if passthrough:\n            return curie\n        return None\n\n    # docstr-coverage:excused `overload`\n    @overload\n    def expand_all(", "        return self.expand_reference(\n            ReferenceTuple.from_curie(curie, sep=self.delimiter), strict=strict, passthrough=passthrough\n        )\n\n    # docstr-coverage:excused `overload`\n    @overload\n    def expand_all(", "C08-D1")
b("lt-via-curie", "C15", API, "        return self.pair < other.pair", "        return self.curie < other.curie", "C15-D2")
b("config-strip-whitespace", "C15", API, "    model_config = ConfigDict(frozen=True)\n\n    @model_validator(mode=\"before\")", "    model_config = ConfigDict(frozen=True, str_strip_whitespace=True)\n\n    @model_validator(mode=\"before\")", "C15-D4")


# ------------------------------------------------------------------------------------- round-2 rules
b("is-uri-any-trie-keys", "C01 C07", API, "        return self.compress(s) is not None\n", "        return any(self.trie.iter_prefixes(s))\n", "C01-D4 C07-D6")
b("compress-needs-identifier", "C01 C07", API, "        reference = self.parse_uri(uri, return_none=True)\n        if reference:\n            return self.format_curie(", "        reference = self.parse_uri(uri, return_none=True)\n        if reference and reference.identifier:\n            return self.format_curie(", "C01-D4 C07-D6")
t("twin-compress-is-not-none", "C01 C03 C07 C08", API, "        reference = self.parse_uri(uri, return_none=True)\n        if reference:\n            return self.format_curie(", "        reference = self.parse_uri(uri, return_none=True)\n        if reference is not None:\n            return self.format_curie(")
b("dup-error-dedup", "C04", API, "        self.duplicates = duplicates\n", "        self.duplicates = list({d.prefix: d for d in duplicates}.values())\n", "C04-D6")
t("twin-dup-error-list-copy-name", "C04", API, "    def __init__(self, duplicates: list[DuplicateSummary]) -> None:\n        \"\"\"Initialize the error.\"\"\"\n        self.duplicates = duplicates\n", "    def __init__(self, duplicates: list[DuplicateSummary]) -> None:\n        \"\"\"Initialize the error.\"\"\"\n        super().__init__()\n        self.duplicates = duplicates\n")
b("add-record-fast-return", "C05 C06 C09", API, "        matched = self._match_record(record, case_sensitive=case_sensitive)\n", "        if merge and self.prefix_map.get(record.prefix) == record.uri_prefix:\n            return\n        matched = self._match_record(record, case_sensitive=case_sensitive)\n", "C05-D4 C06-X5 C09-X5")
b("triples-writer-quote-none", "C15", TRI, 'writer = csv.writer(file, delimiter="\\t")', 'writer = csv.writer(file, delimiter="\\t", quoting=csv.QUOTE_NONE, escapechar="\\\\")', "C15-D7")
t("twin-triples-lineterminator", "C15", TRI, 'writer = csv.writer(file, delimiter="\\t")', 'writer = csv.writer(file, delimiter="\\t", lineterminator="\\n")')
t("twin-triples-quote-minimal-both", "C15", TRI, 'writer = csv.writer(file, delimiter="\\t")', 'writer = csv.writer(file, delimiter="\\t", quoting=csv.QUOTE_MINIMAL)')
b("file-helper-quote-none", "C16", API, "reader = csv.reader(file_in, delimiter=delimiter)", "reader = csv.reader(file_in, delimiter=delimiter, quoting=csv.QUOTE_NONE)", "C16-D4")
t("twin-file-helper-lineterminator", "C16", API, "writer = csv.writer(file_out, delimiter=delimiter)", 'writer = csv.writer(file_out, delimiter=delimiter, lineterminator="\\r\\n")')
b("converter-len", "C15", API, "    def _index(self, record: Record) -> None:\n", "    def __len__(self) -> int:\n        return len(self.records)\n\n    def _index(self, record: Record) -> None:\n", "C15-D5")
b("converter-bool", "C15", API, "    def _index(self, record: Record) -> None:\n", "    def __bool__(self) -> bool:\n        return bool(self.records)\n\n    def _index(self, record: Record) -> None:\n", "C15-D5")
t("twin-record-len", "C15", API, "    def _key(self) -> RecordKey:\n", "    def __len__(self) -> int:\n        return 1 + len(self.prefix_synonyms)\n\n    @property\n    def _key2(self) -> int:\n        return 0\n\n    @property\n    def _key(self) -> RecordKey:\n".replace("    @property\n    def _key(self)", "    def _key(self)"))
b("fastapi-prefix-ncname", "C17", RES, '            title="Prefix",\n', '            title="Prefix",\n            pattern=r"^[A-Za-z_][A-Za-z0-9\\.\\-_]*$",\n', "C17-D1")
b("fastapi-prefix-maxlen", "C17", RES, '            title="Prefix",\n', '            title="Prefix",\n            max_length=32,\n', "C17-D1")
t("twin-fastapi-prefix-minlen1", "C17", RES, '            title="Prefix",\n', '            title="Prefix",\n            min_length=1,\n')
t("twin-fastapi-prefix-noslash", "C17", RES, '            title="Prefix",\n', '            title="Prefix",\n            pattern=r"^[^/]+$",\n')
b("order-remap-resorted", "C11", REC, "        d = {k: v for k, v in d.items() if v not in no_outgoing}\n    return rv\n", "        d = {k: v for k, v in d.items() if v not in no_outgoing}\n    return sorted(rv)\n", "C11-D6")
b("order-remap-peel-by-key", "C11", REC, "edges = sorted((k, v) for k, v in d.items() if v in no_outgoing)", "edges = sorted((k, v) for k, v in d.items() if k in no_outgoing)", "C11-D6")
t("twin-order-remap-unsorted-layer", "C11", REC, "edges = sorted((k, v) for k, v in d.items() if v in no_outgoing)", "edges = [(k, v) for k, v in d.items() if v in no_outgoing]")
b("jsonld-reader-skip-at-values", "C13 C14", API, "            if isinstance(value, str):\n                prefix_map[key] = value\n", "            if isinstance(value, str):\n                if value.startswith(\"@\"):\n                    continue\n                prefix_map[key] = value\n", "C13-D5 C14-D2")
b("epm-writer-exclude-unset", "C14", API, "    rv: dict[str, str | list[str]] = {\n        \"prefix\": record.prefix,\n", "    rv: dict[str, str | list[str]] = record.model_dump(exclude_unset=True)\n    rv = {\n        \"prefix\": record.prefix,\n", "C14-D1")
b("subconverter-shallow-copy", "C10 C09", API, "        return Converter(records, delimiter=self.delimiter)\n", "        if len(records) == len(self.records):\n            import copy\n            rv = copy.copy(self)\n            rv.records = records\n            return rv\n        return Converter(records, delimiter=self.delimiter)\n", "C10-D3 C09-X1")
b("match-record-fast-path", "C05 C09", API, "        rv: defaultdict[RecordKey, list[str]] = defaultdict(list)\n        for record in self.records:", "        rv: defaultdict[RecordKey, list[str]] = defaultdict(list)\n        if external.prefix in self.prefix_map and self.prefix_map[external.prefix] == external.uri_prefix:\n            return {self.get_record(external.prefix)._key: [\"prefix match\"]}\n        for record in self.records:", "C05-D6 C09-D2")

b("epm-writer-utf8-only", "C14", API, "            ensure_ascii=False,\n        )\n    )\n", "            ensure_ascii=False,\n        ),\n        encoding=\"utf-8\",\n    )\n", "C14-D7")
b("prepare-latin1", "C14 C13", API, "        with open(data) as file:\n", "        with open(data, encoding=\"latin-1\") as file:\n", "C14-D7")
t("twin-epm-both-utf8", "C14", API, "        with open(data) as file:\n", "        with open(data, encoding=None) as file:\n")
b("triples-write-utf16", "C15", TRI, 'yield open(path, mode="r" if read else "w")', 'yield open(path, mode="r" if read else "w", encoding=None if read else "utf-16")', "C15-D8")
b("file-helper-write-encoding", "C16", API, '        with path.open("w") as file_out:', '        with path.open("w", encoding="utf-8") as file_out:', "C16-D5")


# ------------------------------------------------------------------------------------- round-3 rules
REC_HEAD = '    .. seealso:: https://github.com/cthoyt/curies/issues/70\n    """\n\n    prefix: str = Field(\n'
b("record-strip-whitespace", "C04 C13 C19 C01", API, REC_HEAD, REC_HEAD.replace("    prefix: str = Field(\n", "    model_config = ConfigDict(str_strip_whitespace=True)\n\n    prefix: str = Field(\n"), "C04-X8 C13-X8 C19-X8 C01-X8")
b("record-to-lower", "C04 C05", API, REC_HEAD, REC_HEAD.replace("    prefix: str = Field(\n", "    model_config = ConfigDict(str_to_lower=True)\n\n    prefix: str = Field(\n"), "C04-X8 C05-X8")
t("twin-record-config-extra-forbid", "C04 C13 C19 C01 C14", API, REC_HEAD, REC_HEAD.replace("    prefix: str = Field(\n", "    model_config = ConfigDict(extra=\"ignore\", str_strip_whitespace=False)\n\n    prefix: str = Field(\n"))
b("init-sort-in-place", "C04 C05 C02 C10", API, "        records = sorted(records, key=lambda r: r.prefix)\n", "        if not isinstance(records, list):\n            records = list(records)\n        records.sort(key=lambda r: r.prefix)\n", "C04-X10 C05-X10 C02-X10 C10-X10")
b("init-validate-before-materialise", "C01 C04", API, "        records = sorted(records, key=lambda r: r.prefix)\n        if strict:\n            duplicate_uri_prefixes = _get_duplicate_uri_prefixes(records)\n            if duplicate_uri_prefixes:\n                raise DuplicateURIPrefixes(duplicate_uri_prefixes)\n            duplicate_prefixes = _get_duplicate_prefixes(records)\n            if duplicate_prefixes:\n                raise DuplicatePrefixes(duplicate_prefixes)\n", "        if strict:\n            duplicate_uri_prefixes = _get_duplicate_uri_prefixes(records)\n            if duplicate_uri_prefixes:\n                raise DuplicateURIPrefixes(duplicate_uri_prefixes)\n            duplicate_prefixes = _get_duplicate_prefixes(records)\n            if duplicate_prefixes:\n                raise DuplicatePrefixes(duplicate_prefixes)\n        records = sorted(records, key=lambda r: r.prefix)\n", "C01-X10 C04-X10")
t("twin-init-list-then-sorted", "C01 C02 C04 C05 C10 C13", API, "        records = sorted(records, key=lambda r: r.prefix)\n", "        records = sorted(list(records), key=lambda r: r.prefix)\n")
b("index-synonym-slice", "C02 C05 C07 C06", API, "        for prefix_synonym in record.prefix_synonyms:\n            self.prefix_map[prefix_synonym] = record.uri_prefix\n", "        for prefix_synonym in record.prefix_synonyms[1:]:\n            self.prefix_map[prefix_synonym] = record.uri_prefix\n", "C02-D4 C05-D1 C07-X7 C06-X7")
t("twin-index-synonym-full-slice", "C02 C05 C07 C06 C01", API, "        for prefix_synonym in record.prefix_synonyms:\n            self.prefix_map[prefix_synonym] = record.uri_prefix\n", "        for prefix_synonym in record.prefix_synonyms[:]:\n            self.prefix_map[prefix_synonym] = record.uri_prefix\n")
b("is-curie-excludes-uris", "C07", API, "        try:\n            return self.expand(s) is not None\n", "        if self.is_uri(s):\n            return False\n        try:\n            return self.expand(s) is not None\n", "C07-D1")
b("in-binary-search", "C05 C09", API, "    if case_sensitive:\n        return a in bs\n", "    if case_sensitive:\n        import bisect\n        i = bisect.bisect_left(bs, a)\n        return i < len(bs) and bs[i] == a\n", "C05-D6 C09-D2")
b("remap-deletes-from-argument", "C10", REC, "    ordering = _order_curie_remapping(converter, remapping)\n", "    for k in [k for k, v in remapping.items() if k == v]:\n        del remapping[k]\n    ordering = _order_curie_remapping(converter, remapping)\n", "C10-D4")
t("twin-remap-copies-argument", "C10 C11", REC, "    ordering = _order_curie_remapping(converter, remapping)\n", "    remapping = dict(remapping)\n    ordering = _order_curie_remapping(converter, remapping)\n")
b("dup-detector-casefold", "C04 C19", API, "        if uri_prefix == up2\n", "        if uri_prefix.casefold() == up2.casefold()\n", "C04-D2 C19-X4")
b("context-pop", "C15", API, '        return context.get("converter")\n', '        return context.pop("converter", None)\n', "C15-D5")
b("file-helper-splitlines", "C16", API, "            reader = csv.reader(file_in, delimiter=delimiter)\n", "            reader = csv.reader(file_in.read().splitlines(), delimiter=delimiter)\n", "C16-D4")
b("sparql-optimise-conditionally", "C18", "mapping_service/rdflib_custom.py", "        query.algebra = _optimize_node(query.algebra)\n", "        if DEBUG:\n            query.algebra = _optimize_node(query.algebra)\n", "C18-D9")
b("sparql-optimise-no-recursion", "C18", "mapping_service/rdflib_custom.py", "    for inner_comp_value in comp_value.values():\n        if isinstance(inner_comp_value, CompValue):\n            _optimize_node(inner_comp_value)\n", "", "C18-D9")
b("flask-accept-best", "C18", MSA, 'handle_header(request.headers.get("accept"))', "handle_header(request.accept_mimetypes.best)", "C18-D6")
t("twin-flask-accept-subscript-default", "C18", MSA, 'handle_header(request.headers.get("accept"))', 'handle_header(request.headers.get("Accept", None))')
b("get-prefixes-set-union-star", "C17", API, "            rv.update(\n                prefix_synonym\n                for record in self.records\n                for prefix_synonym in record.prefix_synonyms\n            )\n", "            rv |= set.union(*(set(r.prefix_synonyms) for r in self.records))\n", "")


# ------------------------------------------------------------------------------------- def-use lints
b("lint-generator-reused-in-loop", "C05 C09", API, "        rv: defaultdict[RecordKey, list[str]] = defaultdict(list)\n        for record in self.records:\n", "        rv: defaultdict[RecordKey, list[str]] = defaultdict(list)\n        ext_synonyms = (s for s in external.prefix_synonyms)\n        for record in self.records:\n            for s in ext_synonyms:\n                pass\n", "C05-X12 C09-X12")
t("twin-lint-list-reused-in-loop", "C05 C09", API, "        rv: defaultdict[RecordKey, list[str]] = defaultdict(list)\n        for record in self.records:\n", "        rv: defaultdict[RecordKey, list[str]] = defaultdict(list)\n        ext_synonyms = [s for s in external.prefix_synonyms]\n        for record in self.records:\n            for s in ext_synonyms:\n                pass\n")
b("lint-zip-consumed-twice", "C04", API, "        records = sorted(records, key=lambda r: r.prefix)\n", "        records = sorted(records, key=lambda r: r.prefix)\n        pairs = zip(records, records[1:])\n        n_pairs = sum(1 for _ in pairs)\n        n_again = sum(1 for _ in pairs)\n", "C04-X12")
t("twin-lint-generator-once", "C04 C01", API, "        records = sorted(records, key=lambda r: r.prefix)\n", "        records = sorted(records, key=lambda r: r.prefix)\n        pairs = zip(records, records[1:])\n        n_pairs = sum(1 for _ in pairs)\n")
b("lint-mutable-default", "C19", DISC, "def _get_uri_prefix_to_luids(\n    *,\n    converter: Converter | None = None,\n", "def _get_uri_prefix_to_luids(\n    *,\n    seen: dict = {},\n    converter: Converter | None = None,\n", "")


# ------------------------------------------------------------------------------------- round-4 rules
b("identifier-hook-strips", "C02 C03 C06 C07", API, "        return identifier\n\n    def expand_reference(", "        return identifier.strip()\n\n    def expand_reference(", "C02-D8 C03-X14 C06-X14 C07-X14")
b("subconverter-class-no-delimiter", "C09 C02 C07", API, "        return Converter(records, delimiter=self.delimiter)\n", "        return self.__class__(records)\n", "C09-D4 C02-X15 C07-X15")
t("twin-subconverter-class-with-delimiter", "C09 C02 C07 C10", API, "        return Converter(records, delimiter=self.delimiter)\n", "        return self.__class__(records, delimiter=self.delimiter)\n")
b("subconverter-dump-exclude-unset", "C01 C09 C10", API, "record.model_copy(deep=True)\n            for record in self.records\n            if any(prefix in prefixes for prefix in record._all_prefixes)", "Record.model_validate(record.model_dump(exclude_unset=True))\n            for record in self.records\n            if any(prefix in prefixes for prefix in record._all_prefixes)", "C01-X13 C09-X13 C10-X13")
b("merge-case-insensitive-dedupe", "C01 C05 C09", API, "            if uri_prefix_synonym not in into._all_uri_prefixes:", "            if not _in(uri_prefix_synonym, into._all_uri_prefixes, case_sensitive=False):", "C01-X16 C05-D5 C09-D2")
t("twin-merge-in-helper-case-sensitive", "C01 C05 C09", API, "            if uri_prefix_synonym not in into._all_uri_prefixes:", "            if not _in(uri_prefix_synonym, into._all_uri_prefixes, case_sensitive=True):")
b("in-helper-half-folded", "C05 C09", API, "    nfa = a.casefold()\n    return any(nfa == b.casefold() for b in bs)\n", "    return a.casefold() in bs\n", "C05-D6 C09-D2")
b("add-record-percent-format", "C05", API, '                raise ValueError(f"new record already exists and merge=False: {matched}")', '                raise ValueError(f"new record already exists and merge=False: {matched}" " (%s)" % record.prefix)', "C05-D8")
b("parse-curie-bare-class-raise", "C08", API, "            if strict:\n                raise\n            return None\n", "            if strict:\n                raise NoCURIEDelimiterError from None\n            return None\n", "C08-D2")
b("index-casefolded-keys", "C06 C02 C07", API, "        self.reverse_prefix_map[record.uri_prefix] = record.prefix\n        self.trie[record.uri_prefix] = record.prefix\n", "        self.synonym_to_prefix.setdefault(record.prefix.casefold(), record.prefix)\n        self.reverse_prefix_map[record.uri_prefix] = record.prefix\n        self.trie[record.uri_prefix] = record.prefix\n", "C06-D2 C02-D4 C07-X7")
b("add-record-bisect", "C09 C05", API, "            existing_record = next(r for r in self.records if r._key == key)\n", "            import bisect\n            existing_record = self.records[bisect.bisect_left(self.records, key[0], key=lambda r: r.prefix)]\n", "C09-X12 C05-X12")
b("chain-reduce-no-initial", "C10", API, "    rv = Converter([], delimiter=converters[0].delimiter)\n    for converter in converters:\n        for record in converter.records:\n            rv.add_record(\n                record.model_copy(deep=True), case_sensitive=case_sensitive, merge=True\n            )\n    return rv\n", "    from functools import reduce\n\n    def _two(left: Converter, right: Converter) -> Converter:\n        rv = Converter([], delimiter=left.delimiter)\n        for converter in (left, right):\n            for record in converter.records:\n                rv.add_record(record.model_copy(deep=True), case_sensitive=case_sensitive, merge=True)\n        return rv\n\n    return reduce(_two, converters)\n", "C10-D6")
b("order-remap-mixed-chain-test", "C11", REC, "    if not set(curie_remapping).intersection(curie_remapping.values()):", "    if not {converter.standardize_prefix(v, passthrough=True) for v in curie_remapping.values()}.intersection(curie_remapping):", "C11-D6")
b("rewire-owner-by-parse-uri", "C12", REC, "            new_uri_prefix in converter.reverse_prefix_map\n            and new_uri_prefix not in record.uri_prefix_synonyms\n        ):\n            logger.debug(", "            converter.parse_uri(new_uri_prefix, return_none=True) is not None\n            and new_uri_prefix not in record.uri_prefix_synonyms\n        ):\n            logger.debug(", "C12-D6")
b("epm-writer-nfc", "C14", API, "    path.write_text(\n        json.dumps(\n            [_record_to_dict(record) for record in converter.records],\n            indent=4,\n            sort_keys=True,\n            ensure_ascii=False,\n        )\n    )\n", "    import unicodedata\n\n    path.write_text(\n        unicodedata.normalize(\n            \"NFC\",\n            json.dumps(\n                [_record_to_dict(record) for record in converter.records],\n                indent=4,\n                sort_keys=True,\n                ensure_ascii=False,\n            ),\n        )\n    )\n", "C14-D8")
b("reference-ne-de-morgan", "C15", API, "    def __lt__(self, other: Reference) -> bool:", "    def __ne__(self, other: Any) -> bool:\n        return not isinstance(other, Reference) or self.prefix != other.prefix and self.identifier != other.identifier\n\n    def __lt__(self, other: Reference) -> bool:", "C15-D1")
t("twin-reference-ne-negation", "C15", API, "    def __lt__(self, other: Reference) -> bool:", "    def __ne__(self, other: Any) -> bool:\n        return not (self == other)\n\n    def __lt__(self, other: Reference) -> bool:")
b("file-helper-conversion-in-try", "C16", API, '                row[column] = func(row[column]) or ""\n', '                try:\n                    row[column] = func(row[column]) or ""\n                except LookupError:\n                    pass\n', "C16-D3")
b("synonym-table-wildcard", "C18", MSU, '    "text/csv": "application/sparql-results+csv",\n}', '    "text/csv": "application/sparql-results+csv",\n    "*/*": DEFAULT_CONTENT_TYPE,\n}', "C18-D10")
b("discover-skip-precedence", "C19", DISC, 'if uri.startswith("https://github.com") and "issues" in uri:', 'if uri.startswith("https://github.com") and "issues" in uri or "pull" in uri:', "C19-D7")
t("twin-discover-skip-parenthesised", "C19", DISC, 'if uri.startswith("https://github.com") and "issues" in uri:', 'if uri.startswith("https://github.com") and ("issues" in uri or "pull" in uri):')
b("w3c-brackets-issubset", "C20", W3C, 'if "[" in curie or "]" in curie:', 'if frozenset("[]").issubset(curie):', "C20-D3")
t("twin-w3c-brackets-not-isdisjoint", "C20", W3C, 'if "[" in curie or "]" in curie:', 'if not frozenset("[]").isdisjoint(curie):')
b("w3c-prefix-casefold", "C20", W3C, "return bool(NCNAME_RE.fullmatch(prefix))", "return bool(NCNAME_RE.fullmatch(prefix.casefold()))", "C20-D1")


def ts(id, props, seed, file, old, new, note=""):
    """A seeded "refactoring with a slip" with the slip repaired: the refactoring itself must stay silent."""
    V.append(Variant(id, tuple(props.split()), "repaired", file, old, new, (), note, "seeded/" + seed))


# ------------------------------------------------------------------------------------- round-5 seeds with the slip repaired (benign twins)
ts("fixed-jsonld-helper-comp", "C13 C14 C04", "C14-m14", API, "            and (uri_prefix := _get_jsonld_uri_prefix(value))\n", "            and (uri_prefix := _get_jsonld_uri_prefix(value)) is not None\n", "dict comprehension + helper with the None-test restored")

ts("fixed-w3c-positional", "C20", "C20-m12", W3C, "    return _is_w3c_luid(curie, colon)\n", "    return _is_w3c_luid(curie, colon + 1)\n", "in-place matching with the right start position")
ts("fixed-w3c-tables", "C20", "C20-m14", W3C, "_NCNAME_START_CHARS = _NCNAME_CHARS - frozenset(string.digits)", "_NCNAME_START_CHARS = _NCNAME_CHARS - frozenset(string.digits + \".-\")", "character tables with the right start table")
ts("fixed-q-default-in-sort", "C18", "C18-m13", MSU, "parts[key] or DEFAULT_WEIGHT", "DEFAULT_WEIGHT if parts[key] is None else parts[key]", "default weight applied with a None test")
ts("fixed-triples-flat", "C18", "C18-m14", MSA, "subj_query == obj_query:", "(subj_query is None) == (obj_query is None):", "flattened triples with the right binding test")
ts("fixed-shacl-generator", "C14", "C14-m13", API, "    pattern = \"\"\n    for record in converter.records:\n", "    for record in converter.records:\n        pattern = \"\"\n", "pattern reset per record")
ts("fixed-ensure-records", "C13 C04", "C13-m12", API, "    if all(isinstance(record, Record) for record in records):\n        # nothing to convert\n        return list(records)\n", "", "helper without the consuming fast path")
ts("fixed-chain-pipeline", "C09 C10", "C09-m13", API, "    records = sorted(\n        itt.chain.from_iterable(converter.records for converter in converters),\n        key=lambda r: r.prefix,\n    )\n", "    records = itt.chain.from_iterable(converter.records for converter in converters)\n", "pipeline without the sort")
ts("fixed-is-curie-direct", "C07", "C07-m14", API, "s.rpartition(self.delimiter)", "s.partition(self.delimiter)", "direct prefix test at the first delimiter")
ts("fixed-is-uri-startswith", "C07 C01", "C07-m13", API, "tuple(self.reverse_bimap)", "tuple(self.reverse_prefix_map)", "prefix test against the full reverse table")
ts("fixed-parse-curie-find", "C03 C02", "C03-m13", API, "curie[index + 1 :]", "curie[index + len(self.delimiter) :]", "find + slice with the delimiter's length")
ts("fixed-subconverter-fallback", "C10 C09", "C10-m12", API, "records.setdefault(record.prefix, record)", "records.setdefault(record.prefix, record.model_copy(deep=True))", "fallback loop that copies")
ts("fixed-cutoff-loop", "C19", "C19-m14", DISC, "        for uri_prefix in uri_prefixes:\n", "        for uri_prefix in list(uri_prefixes):\n", "removal while iterating a copy")
ts("fixed-write-table", "C16", "C16-m12", API, "_write_table(path, rows, header=_header)", "_write_table(path, rows, header=_header, delimiter=delimiter)", "shared writer with the delimiter forwarded")
ts("fixed-tuple-split", "C15", "C15-m14", API, "prefix, identifier = curie.split(sep)", "prefix, identifier = curie.split(sep, 1)", "inline split with maxsplit")
ts("fixed-resolver-removeprefix", "C17", "C17-m14", RES, "curie.lstrip(prefix + delimiter)", "curie.removeprefix(prefix + delimiter)", "removeprefix instead of lstrip")
ts("fixed-subconverter-index", "C02 C09", "C02-m14", API, "self.get_prefixes().intersection(prefixes)", "self.get_prefixes(include_synonyms=True).intersection(prefixes)", "index-based selection including synonyms")
ts("fixed-remap-known", "C11", "C11-m14", REC, "known = converter.get_prefixes()", "known = converter.get_prefixes(include_synonyms=True)", "hoisted unknown-old filter including synonyms")
ts("fixed-remap-owner", "C11", "C11-m13", REC, "owner.prefix != old:", "owner.prefix != _old:", "clash test against the canonical old prefix")
ts("fixed-reverse-groupby", "C04 C13", "C04-m12", API, "                _prepare(reverse_prefix_map).items(), key=operator.itemgetter(1)\n", "                sorted(_prepare(reverse_prefix_map).items(), key=operator.itemgetter(1)), key=operator.itemgetter(1)\n", "groupby over the sorted items")
ts("fixed-duplicates-groupby", "C04 C06 C02", "C06-m14", API, "    for value, group in itt.groupby(pairs, key=lambda pair: pair[0]):", "    for value, group in itt.groupby(sorted(pairs), key=lambda pair: pair[0]):", "single-pass duplicate detection over sorted pairs")
ts("fixed-discover-mask", "C19", "C19-m13", DISC, "for luids in uri_prefix_to_luids.values())", "for luids in map(uri_prefix_to_luids.__getitem__, uri_prefixes))", "mask aligned with the sorted names")

ts("fixed-index-pattern-first", "C01 C05", "C01-m12", API, "            if prefix in self.pattern_map:\n                return\n            self.pattern_map[prefix] = record.pattern\n", "            if prefix not in self.pattern_map:\n                self.pattern_map[prefix] = record.pattern\n", "flattened _index without the early return")
ts("fixed-fallback-helper", "C01 C03 C07 C08", "C01-m13", API, "        if reference and all(reference):\n", "        if reference is not None:\n", "shared fallback helper, plain None test")
ts("fixed-add-record-guards", "C01 C05", "C01-m14", API, "        ((prefix, *_),) = matched\n        existing_record = self.records[bisect_left([r.prefix for r in self.records], prefix)]\n", "        (key,) = matched\n        existing_record = next(r for r in self.records if r._key == key)\n", "guard-clause add_record with the linear lookup")
ts("fixed-raise-on-duplicates", "C02 C04 C10", "C02-m12", API, "            _raise_on_duplicates(records)\n\n        self.delimiter = delimiter\n        self.records = sorted(records, key=lambda r: r.prefix)\n", "            records = sorted(records, key=lambda r: r.prefix)\n            _raise_on_duplicates(records)\n\n        self.delimiter = delimiter\n        self.records = sorted(records, key=lambda r: r.prefix)\n", "hoisted duplicate check on the materialised list")
ts("fixed-merge-indexes", "C02 C05 C01", "C02-m13", API, "self._index_prefix(prefix_synonym, record)", "self._index_prefix(prefix_synonym, into)", "merge-and-index with the right record")
ts("fixed-standardize-curie-direct", "C03 C06", "C03-m12", API, "curie.rpartition(self.delimiter)", "curie.partition(self.delimiter)", "direct standardisation at the first delimiter")
ts("fixed-init-sorted-name", "C03 C01 C10", "C03-m14", API, "self.synonym_to_prefix = _get_prefix_synmap(records)", "self.synonym_to_prefix = _get_prefix_synmap(sorted_records)", "every table from the sorted list")
ts("fixed-init-self-records", "C06 C01 C10", "C06-m12", API, "self.reverse_prefix_map = _get_reverse_prefix_map(records)", "self.reverse_prefix_map = _get_reverse_prefix_map(self.records)", "every table from self.records")
ts("fixed-duplicates-helper", "C04 C02", "C04-m13", API, "        values_2 = get_values(record_2)\n", "        values_2 = list(get_values(record_2))\n", "iterator materialised before repeated membership tests")
ts("fixed-match-partial", "C05 C01", "C05-m13", API, "*(among(synonym, record.prefix_synonyms) for synonym in external.uri_prefix_synonyms)", "*(among(synonym, record.uri_prefix_synonyms) for synonym in external.uri_prefix_synonyms)", "list-literal match with the right attribute")
ts("fixed-chain-partial-copy", "C05 C10 C09", "C05-m14", API, "add_record(record.model_copy())", "add_record(record.model_copy(deep=True))", "pipeline chain with deep copies")
ts("fixed-match-normalised", "C06 C05 C09", "C06-m13", API, "                if uri_prefix in uri_prefixes\n", "                if norm(uri_prefix) in uri_prefixes\n", "normalise-once match with both sides normalised")
ts("fixed-std-prefix-or", "C07 C06 C08", "C07-m12", API, "        return self.synonym_to_prefix.get(prefix) or fallback\n", "        rv = self.synonym_to_prefix.get(prefix)\n        return fallback if rv is None else rv\n", "restructured standardize_prefix with a None test")
ts("fixed-parse-uri-flat", "C08 C01", "C08-m12", API, "        if return_none:\n            return None\n        if strict:\n            raise CompressionError(uri)\n", "        if strict:\n            raise CompressionError(uri)\n        if return_none:\n            return None\n", "flattened parse_uri with strict first")
ts("fixed-std-curie-except", "C08 C06", "C08-m13", API, "        except StandardizationError as e:", "        except (StandardizationError, NoCURIEDelimiterError) as e:", "restructured standardize_curie catching the delimiter error too")
ts("fixed-chain-bridge", "C09 C05", "C09-m14", API, "        if not merge:\n            raise ValueError(_describe_matches(matched))\n", "        if not merge or len(matched) > 1:\n            raise ValueError(_describe_matches(matched))\n", "guard-clause add_record that still rejects bridging records")
ts("fixed-with-uri-prefix", "C10 C12", "C10-m13", REC, "    return record.model_copy(\n        update={\"uri_prefix\": uri_prefix, \"uri_prefix_synonyms\": sorted(uri_prefix_synonyms)}\n    )", "    return record.model_copy(\n        update={\"uri_prefix\": uri_prefix, \"uri_prefix_synonyms\": sorted(uri_prefix_synonyms)}, deep=True\n    )", "shared upgrade helper with a deep copy")
ts("fixed-transitive-helper", "C12", "C12-m12", REC, "    keys = (str(key) for key in remapping)\n", "    keys = {str(key) for key in remapping}\n", "transitivity helper with a set of keys")
ts("fixed-upgrade-owners", "C12 C10", "C12-m13", REC, "    owners = converter.reverse_prefix_map\n", "    owners = dict(converter.reverse_prefix_map)\n", "shared upgrade helper with its own copy of the index")
ts("fixed-from-rdflib-manager", "C13", "C13-m14", API, "            manager = NamespaceManager(graph_or_manager)\n", "            manager = graph_or_manager.namespace_manager\n", "normalised to the graph's own manager")
ts("fixed-written-prefixes", "C14 C10", "C14-m12", API, "    prefixes = record.prefix_synonyms if include_synonyms else []\n    prefixes += [record.prefix]\n    return prefixes\n", "    prefixes = record.prefix_synonyms if include_synonyms else []\n    return [record.prefix, *prefixes]\n", "shared prefix helper without the in-place +=")
ts("fixed-from-parts", "C15", "C15-m12", API, "return cls._from_parts(prefix, identifier, converter)", "return cls._from_parts(prefix, identifier, None, converter)", "shared constructor helper with the converter in its slot")
ts("fixed-prefix-validate", "C15 C06", "C15-m13", API, "        if not standardized:\n", "        if standardized is None:\n", "Prefix validation with a None test")
ts("fixed-bind-flags", "C16 C08", "C16-m13", API, "    if passthrough:\n        return partial(func, passthrough=True)\n    if strict:\n        return partial(func, strict=True)\n    return func\n", "    if strict:\n        return partial(func, strict=True)\n    if passthrough:\n        return partial(func, passthrough=True)\n    return func\n", "flag binder with strict taking precedence")
ts("fixed-resplit-helper", "C17", "C17-m12", RES, "    prefix, _, swallowed = prefix.partition(delimiter)\n    if swallowed:\n", "    prefix, found, swallowed = prefix.partition(delimiter)\n    if found:\n", "re-split helper testing whether a delimiter was found")
ts("fixed-merge-extended", "C17 C05 C01", "C17-m13", API, "        extended = _extend_sorted(\n            into.uri_prefix_synonyms,", "        extended |= _extend_sorted(\n            into.uri_prefix_synonyms,", "merge reports whether either side was extended")
ts("fixed-discover-sorted-visit", "C19", "C19-m12", DISC, "        for uri_prefix, luids in uri_prefix_to_luids.items()\n", "        for uri_prefix, luids in sorted(uri_prefix_to_luids.items())\n", "sorted visiting order plus the sorted numbering")
ts("fixed-w3c-spaces", "C20", "C20-m13", W3C, "    spaces = map(str.isspace, curie)\n", "    spaces = list(map(str.isspace, curie))\n", "whitespace flags materialised")

# ------------------------------------------------------------------------------------- slips made while refactoring (round 4)
bs("slip-lookup-helper-order", "C12", "C12-r16", REC, "for s in chain((preferred,), synonyms):", "for s in chain(synonyms, (preferred,)):", "C12-D5", "shared lookup helper consults synonyms first")
bs("slip-groupby-sort-key", "C13", "C13-r16", API, "pairs = sorted((uri_prefix, curie_prefix) for curie_prefix, uri_prefix in prefix_map.items())", "pairs = sorted(((uri_prefix, curie_prefix) for curie_prefix, uri_prefix in prefix_map.items()), key=itemgetter(0))", "C13-D4", "pairs sorted by URI prefix only")
bs("slip-get-record-demorgan", "C02 C05 C11", "C08-r16", API, "if record.prefix != prefix and prefix not in record.prefix_synonyms:", "if record.prefix != prefix or prefix not in record.prefix_synonyms:", "C02-D7 C05-X17 C11-X11", "De Morgan slip: and -> or")
bs("slip-split-inverted", "C02 C07", "C06-r14", API, "if found == sep:", "if found != sep:", "C02-D1 C07-X21", "_split guard inverted")
bs("slip-add-record-flat", "C05", "C05-r13", API, "if matched and not merge:", "if matched and merge:", "C05-D3", "flat add_record: wrong polarity of merge")
bs("slip-remap-demorgan", "C11", "C11-r13", REC, "new_record is None or record == new_record", "new_record is None and record == new_record", "C11-D5", "De Morgan slip in the clash test")
bs("slip-triples-merged", "C18", "C18-r13", MSA, "(subj_query is None) == (obj_query is None)", "(subj_query is None) != (obj_query is None)", "C18-D5", "merged rejection test inverted")
bs("slip-discover-merged-skip", "C19", "C19-r13", DISC, "(converter is None or not converter.is_uri(uri))", "(converter is None or converter.is_uri(uri))", "C19-D5", "merged skip test loses its negation")
bs("slip-subconverter-not", "C09", "C10-r15", API, "record.prefix in prefixes or not prefixes.isdisjoint(record.prefix_synonyms)", "record.prefix in prefixes or prefixes.isdisjoint(record.prefix_synonyms)", "C09-D3", "lost negation of isdisjoint")
bs("slip-eq-demorgan", "C15", "C15-r13", API, "return not (self.prefix != other.prefix or self.identifier != other.identifier)", "return not (self.prefix != other.prefix and self.identifier != other.identifier)", "C15-D1", "De Morgan slip in __eq__")
bs("slip-ne-not-negated", "C15", "C15-r13", API, "        return not equal\n", "        return equal\n", "C15-D1", "__ne__ forgets the negation")
bs("slip-w3c-split-len", "C20", "C20-r15", W3C, "if len(pieces) == 1:", "if len(pieces) == 2:", "C20-D3", "piece count test inverted")
bs("slip-file-sep", "C16", "C16-r14", API, 'delimiter = "\\t" if not sep else sep', 'delimiter = "\\t" if sep else sep', "C16-D4", "conditional default inverted")
bs("slip-shacl-flag", "C14", "C14-r14", API, "prefixes = record._all_prefixes if include_synonyms else [record.prefix]", "prefixes = record._all_prefixes if not include_synonyms else [record.prefix]", "C14-D3", "include_synonyms inverted")
bs("slip-jsonld-merged-filter", "C13 C14", "C13-r13", API, 'if key.startswith("@") or not isinstance(value, (str, dict)):', 'if key.startswith("@") or isinstance(value, (str, dict)):', "C13-D5 C14-D2", "merged skip test loses its negation")
bs("slip-reduce-no-init", "C10", "C09-r15", API, "return reduce(_add, all_records, rv)", "return reduce(_add, all_records)", "C10-D3 C10-D6 C09-D1", "fold without the fresh accumulator")
bs("slip-chain-kwargs-merge", "C09", "C10-r15", API, '"merge": True}', '"merge": False}', "C09-D1", "kwargs dict carries merge=False")
bs("slip-parse-demorgan", "C07", "C07-r14", API, "if not (recognized_as_uri or self.is_curie(uri_or_curie)):", "if not (recognized_as_uri and self.is_curie(uri_or_curie)):", "C07-D1 C07-D2 C07-D3 C07-D4 C07-D5 C07-D6", "parse: De Morgan slip")
bs("slip-std-prefix-tail", "C06 C08", "C15-r15", API, "return prefix if passthrough else None", "return None if passthrough else prefix", "C06-D5 C08-D3", "failure tail swapped")
bs("slip-helper-first-occurrence", "C19", "C19-r2", DISC, "head, sep, luid = uri.rpartition(delimiter)", "head, sep, luid = uri.partition(delimiter)", "C19-D4", "extracted search helper cuts at the first delimiter")
bs("slip-helper-no-isalnum", "C19", "C19-r2", DISC, "            if luid.isalnum():\n                return head + sep, luid", "            if luid:\n                return head + sep, luid", "C19-D4", "extracted search helper accepts any non-empty tail")
bs("slip-helper-skip-known", "C19", "C19-r5", DISC, "if converter is not None and converter.is_uri(uri):\n        return True", "if converter is not None and not converter.is_uri(uri):\n        return True", "C19-D5", "extracted skip helper inverted")
bs("slip-count-start", "C19", "C19-r15", DISC, "zip(itt.count(1), uri_prefixes)", "zip(itt.count(), uri_prefixes)", "C19-D2", "numbering starts at 0")



def apply_unified_diff(files: dict, diff_text: str) -> dict | None:
    """Apply a unified diff (git format, paths a/src/curies/...) to an in-memory tree; None if it does not fit."""
    import re as _re

    out = dict(files)
    cur = None
    hunks: list = []
    blocks: dict[str, list] = {}
    for line in diff_text.splitlines():
        if line.startswith("+++ "):
            path = line[4:].strip()
            path = path[2:] if path.startswith(("a/", "b/")) else path
            cur = path.replace("src/curies/", "", 1)
            blocks[cur] = []
        elif line.startswith("--- ") or line.startswith("diff ") or line.startswith("index "):
            continue
        elif line.startswith("@@") and cur is not None:
            m = _re.match(r"@@ -(\d+)", line)
            blocks[cur].append({"start": int(m.group(1)) if m else 1, "old": [], "new": []})
        elif cur is not None and blocks.get(cur):
            h = blocks[cur][-1]
            if line.startswith("+"):
                h["new"].append(line[1:])
            elif line.startswith("-"):
                h["old"].append(line[1:])
            elif line.startswith(" ") or line == "":
                h["old"].append(line[1:])
                h["new"].append(line[1:])
            elif line.startswith("\\"):
                continue
    for path, hs in blocks.items():
        if path not in out:
            return None
        lines = out[path].split("\n")
        offset = 0
        for h in hs:
            old, new = h["old"], h["new"]
            pos = h["start"] - 1 + offset
            found = None
            for delta in [0] + [d for k in range(1, 400) for d in (k, -k)]:
                q = pos + delta
                if 0 <= q <= len(lines) - len(old) and lines[q : q + len(old)] == old:
                    found = q
                    break
            if found is None:
                return None
            lines[found : found + len(old)] = new
            offset += len(new) - len(old)
        out[path] = "\n".join(lines)
    return out


def seeded_variants() -> list[dict]:
    """The confirmed seeded changes under /verif/seeded/<id>/ as extra breaking variants."""
    import json
    import pathlib

    root = pathlib.Path(__file__).resolve().parent.parent / "seeded"
    out = []
    if not root.is_dir():
        return out
    for d in sorted(root.iterdir()):
        pf = d / "patch.diff"
        if not pf.exists():
            continue
        prop = d.name.split("-")[0]
        try:
            meta = json.loads((d / "meta.json").read_text())
            prop = meta.get("property") or prop
        except Exception:  # noqa: BLE001
            pass
        out.append({"id": f"seeded/{d.name}", "prop": prop, "diff": pf.read_text()})
    return out


def refactor_variants() -> list[dict]:
    """Behaviour-preserving refactorings under /verif/refactors/<id>/ (confirmed: suite baseline, demo passes)."""
    import pathlib

    root = pathlib.Path(__file__).resolve().parent.parent / "refactors"
    out = []
    if not root.is_dir():
        return out
    for d in sorted(root.iterdir()):
        pf = d / "patch.diff"
        if pf.exists():
            out.append({"id": f"refactors/{d.name}", "diff": pf.read_text()})
    # seeded "refactoring with a slip" whose author also delivered the refactoring WITHOUT the slip
    sroot = root.parent / "seeded"
    if sroot.is_dir():
        for d in sorted(sroot.iterdir()):
            ff = d / "fixed.diff"
            if ff.exists():
                # a "commit done right" may be a FEATURE: right for the property it was written against, yet a change
                # of behaviour that another property forbids as stated (an input that must be rejected is now
                # accepted).  fixed_expect.json lists, per property, why its report on this twin is not a false alarm.
                fe = d / "fixed_expect.json"
                allowed = json.loads(fe.read_text()) if fe.exists() else {}
                out.append({"id": f"seeded/{d.name}#fixed", "diff": ff.read_text(), "allowed": allowed})
    return out


def _run_refactor(args):
    """A refactoring must never make an obligation VIOLATED; UNDECIDED is recorded, not an error."""
    rv, files, prop = args
    from . import props  # noqa: F401
    from .model import AnalysisError, Model
    from .report import REGISTRY, Cx, evaluate

    new_files = apply_unified_diff(files, rv["diff"])
    if new_files is None:
        return {"id": rv["id"], "kind": "refactoring", "props": [prop or "ALL"], "status": "not-applicable", "detail": "patch does not fit the current tree"}
    try:
        model = Model(new_files)
    except AnalysisError as e:
        return {"id": rv["id"], "kind": "refactoring", "props": [prop or "ALL"], "status": "not-applicable", "detail": e.reason}
    bad, und = {}, {}
    allowed = rv.get("allowed") or {}
    for p in ([prop] if prop else sorted(REGISTRY)):
        for o in evaluate(p, Cx(model, "quick")):
            if o.status == "VIOLATED" and p in allowed:
                continue  # a real change of behaviour under this property (reason in fixed_expect.json)
            if o.status == "VIOLATED":
                bad[o.id] = [f.key for f in o.findings]
            elif o.status == "UNDECIDED":
                und[o.id] = o.undecided_reasons[:1]
    r = {"id": rv["id"], "kind": "refactoring", "props": [prop or "ALL"], "obligations": {"violated": bad, "undecided": und}, "status": "UNMET" if bad else "met"}
    if bad:
        r["unmet"] = [f"{prop or 'ALL'}: false alarm on a behaviour-preserving refactoring: {bad}"]
    return r


def _run_seeded(args):
    sv, files = args
    from . import props  # noqa: F401
    from .model import AnalysisError, Model
    from .report import Cx, evaluate

    new_files = apply_unified_diff(files, sv["diff"])
    if new_files is None:
        return {"id": sv["id"], "kind": "breaking", "props": [sv["prop"]], "status": "not-applicable", "detail": "patch does not fit the current tree"}
    try:
        model = Model(new_files)
    except AnalysisError as e:
        return {"id": sv["id"], "kind": "breaking", "props": [sv["prop"]], "status": "not-applicable", "detail": e.reason}
    obs = evaluate(sv["prop"], Cx(model, "quick"))
    st = {o.id: o.status for o in obs if o.status != "HOLDS"}
    ok = any(v == "VIOLATED" for v in st.values())
    r = {"id": sv["id"], "kind": "breaking", "props": [sv["prop"]], "obligations": {sv["prop"]: st}, "status": "met" if ok else "UNMET"}
    if not ok:
        r["unmet"] = [f"{sv['prop']}: seeded change not reported (got {st})"]
    return r


def _run_one(args):
    """Evaluate one variant in a worker process: returns a result dict."""
    vid, files = args
    from . import props  # noqa: F401
    from .model import AnalysisError, Model
    from .report import Cx, evaluate

    v = next(x for x in V if x.id == vid)
    if v.base:
        import pathlib

        pf = pathlib.Path(__file__).resolve().parent.parent / (v.base if "/" in v.base else "refactors/" + v.base) / "patch.diff"
        files = apply_unified_diff(files, pf.read_text()) if pf.exists() else None
        if files is None:
            return {"id": v.id, "kind": v.kind, "props": list(v.props), "status": "not-applicable", "detail": f"base refactoring {v.base} does not fit the current tree"}
    src = files.get(v.file)
    if src is None or v.old not in src:
        return {"id": v.id, "kind": v.kind, "props": list(v.props), "status": "not-applicable", "detail": "anchor text not present in the current tree"}
    new_files = dict(files)
    new_files[v.file] = src.replace(v.old, v.new) if v.kind == "repaired" else src.replace(v.old, v.new, 1)
    try:
        model = Model(new_files)
    except AnalysisError as e:
        return {"id": v.id, "kind": v.kind, "props": list(v.props), "status": "not-applicable", "detail": f"variant does not parse: {e.reason}"}
    out = {"id": v.id, "kind": v.kind, "props": list(v.props), "note": v.note, "obligations": {}}
    met = True
    for p in v.props:
        cx = Cx(model, "quick")
        obs = evaluate(p, cx)
        st = {o.id: o.status for o in obs}
        out["obligations"][p] = {k: s for k, s in st.items() if s != "HOLDS"}
        if v.kind == "breaking":
            want = [e for e in v.expect if e.startswith(p + "-")]
            if want and not any(st.get(e) == "VIOLATED" for e in want):
                met = False
                out.setdefault("unmet", []).append(f"{p}: expected one of {want} VIOLATED, got { {k: s for k, s in st.items() if s != 'HOLDS'} }")
        elif v.kind == "repaired":
            # a seeded refactoring-with-a-slip, slip repaired: like any refactoring it must not be VIOLATED;
            # UNDECIDED is recorded
            bad = {k: s for k, s in st.items() if s == "VIOLATED"}
            und = {k: s for k, s in st.items() if s == "UNDECIDED"}
            if und:
                out.setdefault("undecided", {}).update(und)
            if bad:
                met = False
                findings = [f"{f.key}: {f.message[:80]}" for o in obs for f in o.findings]
                out.setdefault("unmet", []).append(f"{p}: false alarm on a repaired refactoring: {bad} {findings[:3]}")
        else:
            bad = {k: s for k, s in st.items() if s != "HOLDS"}
            if bad:
                met = False
                findings = [f"{f.key}: {f.message[:80]}" for o in obs for f in o.findings] + [f"{o.id}: {r[:100]}" for o in obs for r in o.undecided_reasons]
                out.setdefault("unmet", []).append(f"{p}: benign twin not silent: {bad} {findings[:3]}")
    out["status"] = "met" if met else "UNMET"
    return out


def _known_misses() -> dict:
    import json
    import pathlib

    f = pathlib.Path(__file__).resolve().parent.parent / "selftest_known_open.json"
    try:
        return json.loads(f.read_text()).get("open", {})
    except (OSError, ValueError):
        return {}


def run_matrix(prop: str | None, jobs: int | None = None):
    """Run the variants relevant to ``prop`` (all if None) against the current tree."""
    from .model import read_tree

    t0 = time.time()
    files = read_tree()
    todo = [v for v in V if prop is None or prop in v.props]
    results = []
    jobs = jobs or min(16, os.cpu_count() or 4)
    args = [(v.id, files) for v in todo]
    seeded = [sv for sv in seeded_variants() if prop is None or sv["prop"] == prop]
    sargs = [(sv, files) for sv in seeded]
    rargs = [(rv, files, prop) for rv in refactor_variants()]
    if jobs <= 1:
        results = [_run_one(a) for a in args] + [_run_seeded(a) for a in sargs] + [_run_refactor(a) for a in rargs]
    else:
        with ProcessPoolExecutor(max_workers=jobs) as ex:
            results = list(ex.map(_run_one, args, chunksize=2)) + list(ex.map(_run_seeded, sargs, chunksize=1)) + list(ex.map(_run_refactor, rargs, chunksize=1))
    if prop is not None:
        # restrict reporting to this property's part of each variant
        for r in results:
            r["unmet"] = [u for u in r.get("unmet", []) if u.startswith(prop + ":")]
            if r["status"] == "UNMET" and not r["unmet"]:
                r["status"] = "met"
    unmet = [r for r in results if r["status"] == "UNMET"]
    na = [r for r in results if r["status"] == "not-applicable"]
    # seeded changes this engine is KNOWN not to report (limits of the checker, committed list, never written here):
    # listed ones are printed and recorded, only a detection that was LOST fails the self-test
    known_open = _known_misses()
    code = 0
    open_rows = []
    for r in list(unmet):
        sid = r["id"].split("/", 1)[-1]
        if r["kind"] == "breaking" and r["id"].startswith("seeded/") and sid in known_open:
            print(f"SELFTEST-OPEN property={prop or 'ALL'} variant={r['id']}: known limit of the checker (selftest_known_open.json): {r['unmet'][0]}")
            r["status"] = "known-open"
            open_rows.append(r["id"])
            unmet.remove(r)
    for r in unmet:
        for u in r["unmet"]:
            print(f"ANALYSIS-ERROR property={prop or 'ALL'} obligation=sensitivity-matrix reason=variant {r['id']} ({r['kind']}): {u}")
        code = 2
    summary = {
        "sensitivity_matrix": {
            "variants_total": len(results),
            "breaking": sum(1 for r in results if r["kind"] == "breaking"),
            "benign_twins": sum(1 for r in results if r["kind"] == "benign"),
            "repaired_seeds": sum(1 for r in results if r["kind"] == "repaired"),
            "repaired_seeds_undecided": sorted(r["id"] for r in results if r["kind"] == "repaired" and r.get("undecided")),
            "refactorings": sum(1 for r in results if r["kind"] == "refactoring"),
            "refactorings_undecided": sorted(r["id"] for r in results if r["kind"] == "refactoring" and r.get("obligations", {}).get("undecided")),
            "met": sum(1 for r in results if r["status"] == "met"),
            "unmet": [r["id"] for r in unmet],
            "known_open": open_rows,
            "not_applicable": [r["id"] for r in na],
            "wall_s": round(time.time() - t0, 2),
            "rows": [{"id": r["id"], "kind": r["kind"], "status": r["status"], "reported": r.get("obligations", {})} for r in results],
        }
    }
    print(f"sensitivity matrix for {prop or 'ALL'}: {summary['sensitivity_matrix']['met']}/{len(results)} expectations met, {len(open_rows)} known open, {len(unmet)} unmet, {len(na)} not applicable ({summary['sensitivity_matrix']['wall_s']} s)")
    return code, summary


if __name__ == "__main__":
    import sys

    c, s = run_matrix(sys.argv[1] if len(sys.argv) > 1 else None)
    sys.exit(c)
