"""SETALG: symbolic set algebra over record-field updates, decided by a membership truth table.

A record's names on one side are ``{canonical} | synonyms``.  Along one path the stores to the
two fields are applied in order to a symbolic heap; the after-state is a set expression over the
before-state atoms (``S`` the old synonym set, ``c0`` the old canonical, and the named values in
play such as ``old`` / ``new``).  Inclusion questions are decided by enumerating the <= 32 rows of
the membership table of a generic element x (x in S, x == c0, x == old, x == new) under the
model invariant c0 not in S.  Finite enumeration - nothing is solved.
"""

from __future__ import annotations

import itertools

from ..model import AnalysisError
from ..terms import callee_name, is_const, op, show, subterms

PASS = {"sorted", "set", "list", "tuple", "frozenset", "reversed"}


class Undecided(Exception):
    pass


class SetAlg:
    def __init__(self, rec, canon_field: str, syn_field: str, named: dict, summary=None) -> None:
        """``named``: term -> short name for the values that may be compared (e.g. {$4: 'old', $5: 'new'})."""
        self.rec = rec
        self.canon_field = canon_field
        self.syn_field = syn_field
        self.named = dict(named)
        self.summary = summary
        self.heap = {canon_field: ("ATOM", "c0"), syn_field: ("SETATOM", "S")}

    # ------------------------------------------------------------------ heap
    def apply_store(self, target, value) -> bool:
        """Apply ``rec.<field> = value``; returns False if the store is to another object/field."""
        if op(target) != "attr" or target[1] != self.rec:
            return False
        f = target[2]
        if f not in (self.canon_field, self.syn_field):
            return False
        self.heap[f] = self.resolve(value)
        return True

    def resolve(self, t):
        """Replace reads of the record's fields by their current heap value."""
        if not isinstance(t, tuple):
            return t
        if op(t) == "attr" and t[1] == self.rec and t[2] in self.heap:
            return self.heap[t[2]]
        if op(t) in ("ATOM", "SETATOM"):
            return t
        if op(t) == "snap":
            return t
        if op(t) == "new":
            return self.snapshot(t)
        return tuple(self.resolve(x) if isinstance(x, tuple) else x for x in t)

    def snapshot(self, x):
        """Content of a local container as a pure expression, field reads resolved against the heap NOW."""
        if x[1] not in ("set", "list"):
            raise Undecided(f"local container of kind {x[1]} in a set expression")
        init = x[4] if len(x) > 4 else None
        if op(init) == "call" and op(init[1]) == "builtin" and callee_name(init) in PASS and len(init[2]) == 1:
            base = self.resolve(init)  # rv = set(xs): starts out with the elements of xs
        elif op(init) in ("set", "list", "tuple") and init[1]:
            base = self.resolve(init)
        elif init is None or (op(init) in ("set", "list", "tuple") and not init[1]) or (op(init) == "call" and op(init[1]) == "builtin" and not init[2]):
            base = ("set", ())
        else:
            raise Undecided(f"local container initialised with `{show(init)[:50]}`")
        muts = []
        if self.summary is not None:
            seen = set()
            for ev, _ in sorted(self.summary.mutations_of(x), key=lambda e: e[0].line):
                if ev.kind != "expr" or op(ev.a) != "call":
                    raise Undecided("item store into a local set")
                if (ev.line, ev.a) in seen:
                    continue
                seen.add((ev.line, ev.a))
                m, args = callee_name(ev.a), ev.a[2]
                if m == "sort":
                    continue
                if m not in ("add", "append", "discard", "remove", "update", "extend", "difference_update") or len(args) != 1:
                    raise Undecided(f"mutation .{m}() of a local set not recognised")
                muts.append((m, self.resolve(args[0])))
        return ("snap", base, tuple(muts))

    # ------------------------------------------------------------------ evaluation
    def rows(self):
        names = ["c0", *sorted(set(self.named.values()))]
        for in_s in (False, True):
            for bits in itertools.product((False, True), repeat=len(names)):
                val = dict(zip(names, bits))
                if in_s and val["c0"]:
                    continue  # invariant: canonical not among its own synonyms
                val["S"] = in_s
                yield val

    def eq(self, e, val) -> bool:
        e = self.resolve(e) if op(e) not in ("ATOM",) else e
        if op(e) == "ATOM":
            return val[e[1]]
        if e in self.named:
            return val[self.named[e]]
        raise Undecided(f"element `{show(e)[:60]}` is not one of the named values")

    def member(self, x, val, bound=None) -> bool:
        x = self.resolve(x) if op(x) not in ("SETATOM", "snap") else x
        o = op(x)
        if o == "SETATOM":
            return val["S"]
        if o == "ATOM":
            raise Undecided("canonical value used as a set")
        if o == "snap":
            cur = self.member(x[1], val)
            for m, arg in x[2]:
                if m in ("add", "append"):
                    cur = cur or self.eq(arg, val)
                elif m in ("discard", "remove"):
                    cur = cur and not self.eq(arg, val)
                elif m in ("update", "extend"):
                    cur = cur or self.member(arg, val)
                elif m == "difference_update":
                    cur = cur and not self.member(arg, val)
            return cur
        if o in ("set", "list", "tuple"):
            for e in x[1]:
                if op(e) == "star":
                    if self.member(e[1], val):
                        return True
                elif self.eq(e, val):
                    return True
            return False
        if o == "call":
            f = x[1]
            name = callee_name(x)
            if op(f) == "builtin" and name in PASS and len(x[2]) == 1:
                return self.member(x[2][0], val)
            if op(f) == "attr":
                base = f[1]
                args = x[2]
                if name == "union":
                    return self.member(base, val) or any(self.member(a, val) for a in args)
                if name == "difference":
                    return self.member(base, val) and not any(self.member(a, val) for a in args)
                if name == "intersection":
                    return self.member(base, val) and all(self.member(a, val) for a in args)
                if name == "symmetric_difference" and len(args) == 1:
                    return self.member(base, val) != self.member(args[0], val)
                if name == "copy" and not args:
                    return self.member(base, val)
            raise Undecided(f"set expression `{show(x)[:70]}` not recognised")
        if o == "bin":
            a, b = x[2], x[3]
            if x[1] == "|":
                return self.member(a, val) or self.member(b, val)
            if x[1] == "-":
                return self.member(a, val) and not self.member(b, val)
            if x[1] == "&":
                return self.member(a, val) and self.member(b, val)
            if x[1] == "^":
                return self.member(a, val) != self.member(b, val)
            if x[1] == "+":
                return self.member(a, val) or self.member(b, val)
        if o == "comp" and x[1] in ("list", "set", "gen") and len(x[3]) == 1:
            tgt, it, ifs = x[3][0]
            if x[2] != tgt:
                raise Undecided("mapping comprehension")
            if not self.member(it, val):
                return False
            for c in ifs:
                if not self.cond(c, tgt, val):
                    return False
            return True
        raise Undecided(f"set expression `{show(x)[:70]}` not recognised")

    def cond(self, c, tgt, val) -> bool:
        """Filter condition of a comprehension over the generic element (bound variable ``tgt``)."""
        if op(c) == "cmp":
            o, a, b = c[1], c[2], c[3]
            if o in ("!=", "==") and (a == tgt or b == tgt):
                other = b if a == tgt else a
                r = self.eq(other, val)
                return r if o == "==" else not r
            if o in ("in", "not in") and a == tgt:
                r = self.member(b, val)
                return r if o == "in" else not r
        if op(c) == "and":
            return all(self.cond(x, tgt, val) for x in c[1])
        if op(c) == "or":
            return any(self.cond(x, tgt, val) for x in c[1])
        if op(c) == "not":
            return not self.cond(c[1], tgt, val)
        raise Undecided(f"filter `{show(c)[:60]}` not recognised")

    # ------------------------------------------------------------------ questions
    def before(self, val) -> bool:
        return val["S"] or val["c0"]

    def after(self, val) -> bool:
        return self.member(self.heap[self.syn_field], val) or self.eq(self.heap[self.canon_field], val)

    def after_syn(self, val) -> bool:
        return self.member(self.heap[self.syn_field], val)

    def canonical_term(self):
        return self.heap[self.canon_field]

    @staticmethod
    def describe(val) -> str:
        bits = [k if v else None for k, v in val.items()]
        parts = []
        if val.get("S"):
            parts.append("x in old synonyms")
        if val.get("c0"):
            parts.append("x == old canonical")
        for k, v in val.items():
            if k in ("S", "c0"):
                continue
            parts.append(f"x {'==' if v else '!='} {k}")
        return ", ".join(parts)
