"""MODE: mode-sensitive effect analysis (DESIGN.md 2.4).

For a function and an assignment of its boolean flag parameters (strict / passthrough /
return_none) compute, over the path summaries, (a) the exception classes that may escape and
(b) the return terms that are reachable.  Flags are propagated into resolved callees from the
actual keyword arguments (constant, forwarded flag, default; anything else = both values).
The domain is finite (<= 8 assignments per function); nothing is solved.
"""

from __future__ import annotations

import ast
import itertools
from dataclasses import dataclass, field

from ..model import FunctionInfo
from ..report import Cx
from ..summ import Ev, Path, Summary
from ..terms import NONE, callee_name, is_const, op, show, subterms, substitute

FLAGS = ("strict", "passthrough", "return_none")
TABLE_ATTRS = {"prefix_map", "reverse_prefix_map", "synonym_to_prefix", "pattern_map", "trie"}
TRIE_RAISERS = {"longest_prefix_item", "longest_prefix", "longest_prefix_value"}
# stdlib calls that raise for SOME strings (a builtin exception, foreign to the library's conversion errors):
# table written from the library documentation
STDLIB_RAISERS = {
    "urllib.parse.urlsplit": ("ValueError", "raises ValueError('Invalid IPv6 URL') for an unbalanced '[' / ']' in the authority"),
    "urllib.parse.urlparse": ("ValueError", "raises ValueError('Invalid IPv6 URL') for an unbalanced '[' / ']' in the authority"),
    "re.compile": ("error", "re.compile raises re.error for an invalid pattern"),
    "ipaddress.ip_address": ("ValueError", "not an address"),
    "unicodedata.name": ("ValueError", "unicodedata.name(c) without a default raises ValueError('no such name') for characters that have none (control characters, unassigned code points)"),
    "unicodedata.lookup": ("KeyError", "no character of that name"),
    "unicodedata.digit": ("ValueError", "not a digit (no default given)"),
    "unicodedata.decimal": ("ValueError", "not a decimal (no default given)"),
    "unicodedata.numeric": ("ValueError", "not numeric (no default given)"),
}
# ... unless the optional default argument is given
_DEFAULT_SILENCES = {"unicodedata.name": 2, "unicodedata.digit": 2, "unicodedata.decimal": 2, "unicodedata.numeric": 2}


@dataclass(frozen=True)
class Esc:
    cls: str
    origin: str  # qualified function where the raise statement / implicit raiser sits
    line: int
    via: tuple = ()  # call chain (outermost first)


@dataclass
class ModeResult:
    raises: set = field(default_factory=set)  # of Esc
    returns: set = field(default_factory=set)  # of (term, line)


class Mode:
    def __init__(self, cx: Cx) -> None:
        self.cx = cx
        self.memo: dict = {}

    # ------------------------------------------------------------------ resolution
    def resolve(self, fn: FunctionInfo, c) -> FunctionInfo | None:
        f = c[1]
        m = self.cx.model
        if op(f) == "func":
            return m.functions.get(f[1])
        if op(f) == "attr":
            base = f[1]
            if fn.cls is not None and fn.self_name and base == ("param", fn.self_name):
                return m.find_method(fn.cls, f[2])
            if op(base) == "cls" and base[1] in m.classes:
                return m.find_method(m.classes[base[1]], f[2])
            if op(base) == "lv":
                # a local that is (only ever) bound to an instance of a package class built in place - a helper
                # object - has THAT class's methods, whatever other classes call a method by the same name
                import ast as _ast

                classes = set()
                other = False
                for n in _ast.walk(fn.node):
                    if isinstance(n, (_ast.Assign, _ast.AnnAssign)):
                        tgts = n.targets if isinstance(n, _ast.Assign) else [n.target]
                        if any(isinstance(t_, _ast.Name) and t_.id == base[1] for t_ in tgts) and n.value is not None:
                            v = n.value
                            head = v.func if isinstance(v, _ast.Call) else None
                            if isinstance(head, _ast.Attribute) and head.attr in ("_make", "from_tuple") :
                                head = head.value
                            nm = head.id if isinstance(head, _ast.Name) else None
                            cands_ = [ci for ci in m.classes.values() if ci.name == nm] if nm else []
                            if len(cands_) == 1:
                                classes.add(cands_[0].qualname)
                            else:
                                other = True
                if len(classes) == 1 and not other:
                    ci = m.classes[next(iter(classes))]
                    if ci.name != "Converter":
                        return m.find_method(ci, f[2])
            if op(base) in ("param", "lv", "free"):
                # annotated Converter parameter / unique method name in the package
                hits = [x for x in m.methods_named(f[2]) if x.cls and x.cls.name == "Converter"]
                if hits and f[2] not in ("get", "items", "values", "keys", "append", "pop", "update", "add"):
                    return hits[0]
        return None

    def callee_assignments(self, callee: FunctionInfo, c, A: dict) -> list[dict]:
        import ast

        kw = dict(c[3]) if op(c) == "call" else {}
        fixed: dict = {}
        unknown: list[str] = []
        for fl in FLAGS:
            p = callee.param(fl)
            if p is None:
                continue
            if fl in kw:
                v = kw[fl]
                if is_const(v) and isinstance(v[1], bool):
                    fixed[fl] = v[1]
                elif op(v) == "param" and v[1] in A:
                    fixed[fl] = A[v[1]]
                else:
                    unknown.append(fl)
            else:
                # positional flags (pd_* style signatures) - find by position
                pos = [q.name for q in callee.params if q.kind == "pos"]
                off = 1 if (callee.cls is not None and not callee.is_staticmethod) else 0
                idx = pos.index(fl) - off if fl in pos else -1
                args = c[2] if op(c) == "call" else ()
                if 0 <= idx < len(args):
                    v = args[idx]
                    if is_const(v) and isinstance(v[1], bool):
                        fixed[fl] = v[1]
                    elif op(v) == "param" and v[1] in A:
                        fixed[fl] = A[v[1]]
                    else:
                        unknown.append(fl)
                elif isinstance(p.default, ast.Constant) and isinstance(p.default.value, bool):
                    fixed[fl] = p.default.value
                elif p.default is None:
                    unknown.append(fl)
                else:
                    unknown.append(fl)
        if any(k is None for k, _ in (c[3] if op(c) == "call" else ())):
            # **kwargs splat: flags not fixed explicitly are unknown
            for fl in FLAGS:
                if callee.param(fl) is not None and fl not in kw and fl not in unknown:
                    fixed.pop(fl, None)
                    unknown.append(fl)
        out = []
        for combo in itertools.product([False, True], repeat=len(unknown)):
            d = dict(fixed)
            d.update(zip(unknown, combo))
            out.append(d)
        return out

    # ------------------------------------------------------------------ analysis
    def analyse(self, fn: FunctionInfo, A: dict, stack: tuple = ()) -> ModeResult:
        key = (fn.qualname, tuple(sorted(A.items())))
        if key in self.memo:
            return self.memo[key]
        if fn.qualname in stack or len(stack) > 12:
            return ModeResult()
        s = self.cx.summary(fn)
        res = ModeResult()
        self._paths(fn, s, s.paths, A, stack, res, ())
        self.memo[key] = res
        return res

    # ------------------------------------------------------------------ path feasibility
    @staticmethod
    def _canon(t):
        """(atom key, polarity) of a comparison so that `x is None` and `x is not None` share an atom."""
        if op(t) == "cmp":
            neg = {"is not": "is", "!=": "==", "not in": "in", ">=": "<", ">": "<="}
            if t[1] in neg:
                return ("cmp", neg[t[1]], t[2], t[3]), False
            return t, True
        return t, True

    def _eval(self, t, A: dict, val: dict):
        o = op(t)
        if o == "param" and t[1] in A:
            return A[t[1]]
        if o == "const":
            return bool(t[1])
        if o in ("not",):
            return not self._eval(t[1], A, val)
        if o == "truth":
            return self._eval(t[1], A, val)
        if o == "and":
            return all(self._eval(x, A, val) for x in t[1])
        if o == "or":
            return any(self._eval(x, A, val) for x in t[1])
        key, pol = self._canon(t)
        v = val[key]
        return v if pol else not v

    def _atoms(self, t, A: dict, out: list) -> None:
        o = op(t)
        if o == "param" and t[1] in A:
            return
        if o == "const":
            return
        if o in ("not", "truth"):
            self._atoms(t[1], A, out)
            return
        if o in ("and", "or"):
            for x in t[1]:
                self._atoms(x, A, out)
            return
        key, _ = self._canon(t)
        if key not in out:
            out.append(key)

    def feasible(self, guards: list, A: dict) -> bool:
        """Can all guards (term, polarity) hold together under the flag assignment A?

        Decided by enumerating the truth table of the (<= 10) opaque atoms occurring in the guards;
        beyond that the path is kept (over-approximation).
        """
        atoms: list = []
        for t, pol in guards:
            self._atoms(t, A, atoms)
        if len(atoms) > 10:
            return True
        for bits in itertools.product((False, True), repeat=len(atoms)):
            val = dict(zip(atoms, bits))
            if all(self._eval(t, A, val) == pol for t, pol in guards):
                return True
        return False

    def _none_test_infeasible(self, fn, t, pol, A: dict, stack: tuple) -> bool:
        """`X is None` (or its negation) where X is a call of a mode-sensitive function whose flags
        are fixed by A: infeasible when the callee, under those flags, cannot produce that outcome
        (e.g. standardize_prefix(strict=True) never returns None)."""
        key, p2 = self._canon(t)
        if not (op(key) == "cmp" and key[1] == "is" and is_const(key[3], None)):
            return False
        asserts_none = (pol == p2)
        x = key[2]
        if op(x) != "call":
            return False
        callee = self.resolve(fn, x)
        if callee is None or callee.qualname in stack or not any(callee.param(fl) is not None for fl in FLAGS):
            return False
        can_none = can_value = False
        for A2 in self.callee_assignments(callee, x, A):
            r = self.analyse(callee, A2, stack + (fn.qualname,))
            if not r.returns and not r.raises:
                return False  # recursion cut-off or unknown: keep the path
            for rt, _ in r.returns:
                if is_const(rt, None):
                    can_none = True
                else:
                    can_value = True
        return (asserts_none and not can_none) or (not asserts_none and not can_value)

    def _paths(self, fn, s: Summary, paths: list[Path], A, stack, res: ModeResult, handlers: tuple, outer_guards: tuple = ()) -> None:
        for p in paths:
            ok = True
            local = ModeResult()
            hs = handlers
            guards = list(outer_guards)
            pending: list = []  # (kind, payload) evaluated only if the whole path is feasible
            for ev in p.events:
                if ev.kind == "guard":
                    guards.append((ev.a, ev.b))
                    if not self.feasible(guards, A) or self._none_test_infeasible(fn, ev.a, ev.b, A, stack):
                        ok = False
                        break
                if ev.kind == "except":
                    hs = hs + (ev,)
                self._effects(fn, s, ev.line, ev.cov, A, stack, local, tuple(guards))
                if ev.kind in ("loop", "while") and ev.body is not None:
                    self._paths(fn, s, ev.body, A, stack, local, hs, tuple(guards))
            if not ok:
                continue
            o = p.out
            if o is not None and o[0] in ("return", "raise"):
                cov = o[3] if len(o) > 3 else ()
                self._effects(fn, s, o[2], cov, A, stack, local, tuple(guards))
                if o[0] == "return":
                    local.returns.add((o[1], o[2]))
                else:
                    for name in self._raised_classes(o[1], hs, A):
                        if not self._caught(name, cov):
                            local.raises.add(Esc(name, fn.qualname, o[2]))
            elif o is None and paths is s.paths:
                local.returns.add((NONE, fn.node.end_lineno or fn.node.lineno))
            res.raises |= local.raises
            res.returns |= local.returns

    def _raised_classes(self, t, handlers: tuple, A: dict | None = None) -> list[str]:
        head = t[1] if op(t) == "call" else t
        if A and op(head) == "param" and f"@cls:{head[1]}" in A:
            return [A[f"@cls:{head[1]}"]]  # the exception class handed in by the call site under analysis
        if op(t) == "reraise":
            if handlers:
                return [n.split(".")[-1] for n in handlers[-1].a]
            return ["UNKNOWN"]
        if op(t) == "cls" and t[1] in self.cx.model.classes:
            # `raise SomeError` (the class, not an instance): Python instantiates it without
            # arguments - a TypeError if its __init__ needs some
            init = self.cx.model.find_method(self.cx.model.classes[t[1]], "__init__")
            if init is not None and any(p.default is None and p.kind == "pos" for p in init.params[1:]):
                return ["TypeError"]
        if op(t) == "call":
            t = t[1]
        if op(t) in ("cls", "func"):
            return [t[1].rsplit(".", 1)[-1]]
        if op(t) in ("builtin", "name", "ext"):
            return [t[1].rsplit(".", 1)[-1]]
        if op(t) == "bv":
            return ["UNKNOWN"]
        return ["UNKNOWN"]

    def _caught(self, name: str, cov: tuple) -> bool:
        for names in cov:
            for h in names:
                h = h.split(".")[-1]
                if h in ("BaseException",) or name == h or self.cx.model.is_subclass(name, h):
                    return True
        return False

    def _effects(self, fn, s: Summary, line: int, cov: tuple, A, stack, res: ModeResult, guards: tuple = ()) -> None:
        for t in s.syn.get(line, ()):
            for c in subterms(t):
                # s[-1] / s[0] of a str PARAMETER: IndexError for the empty string (a legitimate prefix, identifier,
                # CURIE ..) unless the path has looked at the string's emptiness / length / ends before
                if op(c) == "item" and op(c[1]) == "param" and op(c[2]) == "const" and isinstance(c[2][1], int) and not isinstance(c[2][1], bool):
                    prm = fn.param(c[1][1])
                    ann = ast.unparse(prm.annotation).replace(" ", "") if prm is not None and prm.annotation is not None else ""
                    if ann == "str" and not self._caught("IndexError", cov):
                        looked = False
                        for g in guards:
                            ga = getattr(g, "a", None)
                            if isinstance(ga, tuple) and any(x == c[1] for x in subterms(ga)) and not any(x == c for x in subterms(ga)):
                                looked = True
                        if not looked:
                            res.raises.add(Esc("IndexError", fn.qualname, line, ("index-of-empty", f"{c[1][1]}[{c[2][1]}] raises IndexError for the empty string")))
                if op(c) == "call":
                    f = c[1]
                    if op(f) == "attr" and f[2] in TRIE_RAISERS and op(f[1]) == "attr" and f[1][2] == "trie" and len(c[2]) == 1 and not c[3]:
                        if not self._caught("KeyError", cov):
                            res.raises.add(Esc("KeyError", fn.qualname, line))
                        continue
                    # library semantics: set.union(*xs) / set.intersection(*xs) / reduce(f, xs) need a first operand
                    if (op(f) == "attr" and f[1] in (("builtin", "set"), ("builtin", "frozenset")) and f[2] in ("union", "intersection", "difference") and c[2] and op(c[2][0]) == "star") or (op(f) == "ext" and f[1] == "functools.reduce" and len(c[2]) == 2):
                        if not self._caught("TypeError", cov):
                            res.raises.add(Esc("TypeError", fn.qualname, line, ("empty-iterable", show(c)[:50])))
                        continue
                    # library semantics: stdlib functions that raise on inputs of the documented type (a str)
                    if op(f) == "ext" and f[1] in STDLIB_RAISERS and not (f[1] in _DEFAULT_SILENCES and len(c[2]) >= _DEFAULT_SILENCES[f[1]]):
                        exc, why = STDLIB_RAISERS[f[1]]
                        if not self._caught(exc, cov):
                            res.raises.add(Esc(exc, fn.qualname, line, (f[1], why)))
                        continue
                    callee = self.resolve(fn, c)
                    if callee is None and op(f) == "cls" and f[1] in self.cx.model.classes:
                        callee = self.cx.model.find_method(self.cx.model.classes[f[1]], "__init__")
                    if callee is None:
                        continue
                    from ..rules import bind_args

                    bound = bind_args(callee, c) or {}
                    cls_args = {}
                    for pn, av in bound.items():
                        if op(av) == "cls":
                            cls_args[f"@cls:{pn}"] = av[1].rsplit(".", 1)[-1]
                        elif op(av) == "param" and f"@cls:{av[1]}" in A:
                            cls_args[f"@cls:{pn}"] = A[f"@cls:{av[1]}"]
                    # a CURIE the converter has just produced (compress / format_curie / standardize_curie, tested for
                    # None) contains the delimiter: splitting it again cannot fail for want of one
                    def _produced(t_) -> bool:
                        return op(t_) == "call" and op(t_[1]) == "attr" and t_[1][2] in ("compress", "compress_strict", "format_curie", "standardize_curie")

                    a0 = c[2][0] if c[2] else None
                    if op(a0) == "lv":
                        vals = [ev.b for ev, _ in s.walk() if ev.kind == "bind" and ev.a == a0[1]]
                        produced = bool(vals) and all(_produced(v_) for v_ in vals)
                    else:
                        produced = _produced(a0)
                    has_delim = callee.name in ("from_curie", "_split") and produced
                    for A2 in self.callee_assignments(callee, c, A):
                        A2 = {**A2, **cls_args}
                        sub = self.analyse(callee, A2, stack + (fn.qualname,))
                        for e in sub.raises:
                            if has_delim and e.cls == "NoCURIEDelimiterError":
                                continue
                            if not self._caught(e.cls, cov):
                                res.raises.add(Esc(e.cls, e.origin, e.line, (fn.qualname,) + e.via))
                elif op(c) == "bin" and c[1] == "%" and (op(c[2]) in ("concat", "fmt") or (op(c[2]) == "param" and op(c[3]) in ("tuple", "star", "param", "attr", "call"))):
                    # printf-style formatting with a template that is not a literal: data containing
                    # '%' makes it raise TypeError / ValueError
                    for cls_ in ("TypeError",):
                        if not self._caught(cls_, cov):
                            res.raises.add(Esc(cls_, fn.qualname, line, ("%-format", show(c[2])[:40])))
                elif op(c) == "item":
                    b = c[1]
                    if op(b) == "attr" and b[2] in TABLE_ATTRS and op(b[1]) == "param":
                        if self._key_is_trie_value(s, line, b[2]) or self._membership_checked(s, line, b[2], guards):
                            continue
                        if not self._caught("KeyError", cov):
                            res.raises.add(Esc("KeyError", fn.qualname, line, ("subscript", b[2], show(c[2]))))


    def _membership_checked(self, s: Summary, line: int, table: str, guards: tuple) -> bool:
        """`table[k]` is safe on a path that has passed `k in table`."""
        keys = []
        for t, ev, _ in s.all_terms():
            if ev.line != line:
                continue
            for c in subterms(t):
                if op(c) == "item" and op(c[1]) == "attr" and c[1][2] == table:
                    keys.append((c[2], c[1]))
        if not keys:
            return False
        # tables with the same key set (IDX: both are keyed by every CURIE prefix and synonym / every URI prefix and
        # synonym of every record, C05-D1): a hit in one is a hit in the other
        same_keys = [{"prefix_map", "synonym_to_prefix"}, {"reverse_prefix_map", "trie"}]

        def twins(tab):
            out = [tab]
            if op(tab) == "attr":
                for grp in same_keys:
                    if tab[2] in grp:
                        out += [("attr", tab[1], o) for o in grp if o != tab[2]]
            return out

        def passed(k, tab):
            for tb in twins(tab):
                for g, pol in guards:
                    if (g == ("cmp", "in", k, tb) and pol is True) or (g == ("cmp", "not in", k, tb) and pol is False):
                        return True
                    # tb.get(k) is not None  (the tables hold strings, never None)
                    got = ("call", ("attr", tb, "get"), (k,), ())
                    if (g == ("cmp", "is", got, NONE) and pol is False) or (g == ("cmp", "is not", got, NONE) and pol is True):
                        return True
            return False

        for k, tab in keys:
            if not passed(k, tab):
                return False
        return True

    def _key_is_trie_value(self, s: Summary, line: int, table: str) -> bool:
        """Exemption: ``self.prefix_map[parse_uri(..).prefix]`` cannot miss.

        Every value stored in the trie is a record's canonical prefix and every canonical prefix
        is a key of prefix_map / synonym_to_prefix on the constructor path and in _index (IDX,
        obligations C01-D1 / C02-D4), so the subscript is safe whenever the key is the prefix
        component of a parse_uri result.
        """
        if table not in ("prefix_map", "synonym_to_prefix"):
            return False
        found = False
        for t, ev, _ in s.all_terms():
            if ev.line != line:
                continue
            for c in subterms(t):
                if op(c) == "item" and op(c[1]) == "attr" and c[1][2] == table:
                    k = c[2]
                    base = None
                    if op(k) == "attr" and k[2] == "prefix":
                        base = k[1]
                    elif op(k) == "item" and is_const(k[2], 0):
                        base = k[1]
                    if base is not None and op(base) == "call" and callee_name(base) == "parse_uri":
                        found = True
                    else:
                        return False
        return found


def flag_assignments(fn: FunctionInfo) -> list[dict]:
    fl = [f for f in FLAGS if fn.param(f) is not None]
    return [dict(zip(fl, combo)) for combo in itertools.product([False, True], repeat=len(fl))]


def strip_flags(t, A: dict):
    """Normal form of a return term for cross-mode comparison: flag kwargs removed, flag params substituted."""
    if not isinstance(t, tuple):
        return t
    if op(t) == "call":
        kws = tuple((k, strip_flags(v, A)) for k, v in t[3] if k not in FLAGS)
        return ("call", strip_flags(t[1], A), tuple(strip_flags(a, A) for a in t[2]), kws)
    return tuple(strip_flags(x, A) if isinstance(x, tuple) else x for x in t)
