"""Package-wide def-use lints over the AST (no values): constructs that are wrong for every input
they are reached with, independent of the property that is hurt.

* ONE-SHOT: a name bound to a one-shot iterator (generator expression, map, filter, zip, iter,
  reversed, enumerate, a call of a generator function of the package) is consumed more than once,
  or is consumed inside a loop (or comprehension) that starts after the binding: from the second
  round on the iterator is empty.
* MUTABLE-DEFAULT: a function's default argument is a mutable display / constructor call and the
  function mutates that parameter or stores it: state leaks between calls.
"""

from __future__ import annotations

import ast
from dataclasses import dataclass

from ..model import FunctionInfo, Model

ONE_SHOT_CALLS = {"map", "filter", "zip", "iter", "reversed", "enumerate"}
CONSUMERS_OK_ONCE = True
MUTATING_METHODS = {"append", "extend", "insert", "remove", "pop", "clear", "sort", "reverse", "update", "add", "discard", "setdefault", "popitem"}


@dataclass
class Lint:
    rule: str
    fn: FunctionInfo
    line: int
    name: str
    message: str


ITERTOOLS_ONE_SHOT = {"chain", "chain.from_iterable", "islice", "takewhile", "dropwhile", "starmap", "compress", "filterfalse", "accumulate", "zip_longest", "product", "combinations", "permutations", "combinations_with_replacement", "groupby", "pairwise", "batched", "tee"}

_OS_CACHE: dict = {}


def _one_shot_producers(model: Model) -> tuple[dict, dict]:
    """(functions, properties) of the package every ``return`` of which hands out a one-shot iterator:
    qualname -> kind, and property name -> kind (a property is evaluated on attribute access)."""
    memo = model.__dict__.setdefault("_memo_one_shot", {})  # per model object: ids are reused after collection
    if "v" in memo:
        return memo["v"]
    funcs: dict[str, str] = {}
    props: dict[str, str] = {}
    memo["v"] = (funcs, props)
    changed = True
    rounds = 0
    while changed and rounds < 4:
        changed = False
        rounds += 1
        for f in model.functions.values():
            if f.qualname in funcs:
                continue
            if any(isinstance(n, (ast.Yield, ast.YieldFrom)) for n in ast.walk(f.node)):
                kind = f"generator {f.name}(...)"
            else:
                rets = [n for n in ast.walk(f.node) if isinstance(n, ast.Return) and n.value is not None]
                kinds = [_is_one_shot(model, f, r.value) for r in rets]
                kind = kinds[0] if kinds and all(k is not None for k in kinds) else None
                if kind is not None:
                    kind = f"{kind} returned by {f.name}"
            if kind is not None:
                funcs[f.qualname] = kind
                if f.is_property:
                    props[f.name] = kind
                changed = True
    return funcs, props


def _callable_returns_one_shot(model: Model, fn: FunctionInfo, e: ast.expr) -> str | None:
    """``e`` is a callable (lambda / function name) whose result is a one-shot iterator."""
    if isinstance(e, ast.Lambda):
        return _is_one_shot(model, fn, e.body)
    if isinstance(e, ast.Name):
        r = model.resolve_global(fn.module, e.id)
        if r and r[0] == "func":
            return _one_shot_producers(model)[0].get(r[1].qualname)
    return None


def _param_callable_kind(model: Model, fn: FunctionInfo, pname: str) -> str | None:
    """A parameter that is called in ``fn``: does some caller in the package pass a callable returning a one-shot iterator?"""
    names = [p.name for p in fn.params]
    if pname not in names:
        return None
    idx = names.index(pname) - (1 if fn.cls is not None and fn.self_name and not fn.is_staticmethod else 0)
    for g in model.functions.values():
        for n in ast.walk(g.node):
            if not isinstance(n, ast.Call):
                continue
            f = n.func
            cname = f.id if isinstance(f, ast.Name) else f.attr if isinstance(f, ast.Attribute) else None
            if cname != fn.name:
                continue
            arg = None
            if 0 <= idx < len(n.args) and not any(isinstance(a, ast.Starred) for a in n.args[: idx + 1]):
                arg = n.args[idx]
            for k in n.keywords:
                if k.arg == pname:
                    arg = k.value
            if arg is not None:
                kind = _callable_returns_one_shot(model, g, arg)
                if kind is not None:
                    return f"{kind} (callable passed at {g.module.relpath}:{n.lineno})"
    return None


def _is_one_shot(model: Model, fn: FunctionInfo, e: ast.expr) -> str | None:
    if isinstance(e, ast.GeneratorExp):
        return "generator expression"
    if isinstance(e, ast.Call) and isinstance(e.func, ast.Name) and e.func.id in ONE_SHOT_CALLS:
        return f"{e.func.id}(...)"
    if isinstance(e, ast.Call):
        dotted = ast.unparse(e.func)
        head, _, rest = dotted.partition(".")
        r = model.resolve_global(fn.module, head)
        full = (r[1] + ("." + rest if rest else "")) if r and r[0] == "ext" else None
        if full and full.startswith("itertools.") and full[len("itertools.") :] in ITERTOOLS_ONE_SHOT:
            return f"{dotted}(...)"
    if isinstance(e, ast.Call) and isinstance(e.func, ast.Name):
        r = model.resolve_global(fn.module, e.func.id)
        if r and r[0] == "func":
            if any(isinstance(n, (ast.Yield, ast.YieldFrom)) for n in ast.walk(r[1].node)):
                return f"generator {e.func.id}(...)"
            k = _one_shot_producers(model)[0].get(r[1].qualname) if "v" in model.__dict__.get("_memo_one_shot", {}) else None
            if k is not None:
                return k
        if r is None and e.func.id in {p.name for p in fn.params}:
            return _param_callable_kind(model, fn, e.func.id)
    if isinstance(e, ast.Attribute) and "v" in model.__dict__.get("_memo_one_shot", {}):
        k = model.__dict__["_memo_one_shot"]["v"][1].get(e.attr)
        if k is not None:
            return k
    return None


class _Uses(ast.NodeVisitor):
    """Loads of one name with the stack of enclosing loops / comprehensions at each load."""

    def __init__(self, name: str) -> None:
        self.name = name
        self.stack: list[ast.AST] = []
        self.uses: list[tuple[ast.Name, tuple]] = []

    def visit_Name(self, node: ast.Name) -> None:
        if node.id == self.name and isinstance(node.ctx, ast.Load):
            self.uses.append((node, tuple(self.stack)))

    def _loop(self, node, header_fields, body_fields) -> None:
        for f in header_fields:
            v = getattr(node, f, None)
            for x in v if isinstance(v, list) else [v]:
                if x is not None:
                    self.visit(x)
        self.stack.append(node)
        for f in body_fields:
            for x in getattr(node, f, []):
                self.visit(x)
        self.stack.pop()

    def visit_For(self, node):
        self._loop(node, ["iter"], ["body", "orelse"])

    visit_AsyncFor = visit_For

    def visit_While(self, node):
        self.stack.append(node)
        self.generic_visit(node)
        self.stack.pop()

    def _comp(self, node):
        # the first iterable is evaluated once, everything else once per element
        gens = node.generators
        self.visit(gens[0].iter)
        self.stack.append(node)
        for i, g in enumerate(gens):
            if i > 0:
                self.visit(g.iter)
            for c in g.ifs:
                self.visit(c)
        for f in ("elt", "key", "value"):
            if hasattr(node, f):
                self.visit(getattr(node, f))
        self.stack.pop()

    visit_ListComp = visit_SetComp = visit_DictComp = visit_GeneratorExp = _comp

    def visit_FunctionDef(self, node):
        self.stack.append(node)  # a closure may run any number of times
        self.generic_visit(node)
        self.stack.pop()

    visit_Lambda = visit_AsyncFunctionDef = visit_FunctionDef


def one_shot_reuse(model: Model, fn: FunctionInfo) -> list[Lint]:
    out: list[Lint] = []
    body = fn.node.body
    # candidate bindings: simple `name = <one-shot>` statements at any depth, name assigned exactly once
    assigns: dict[str, list[ast.Assign]] = {}
    for n in ast.walk(fn.node):
        if isinstance(n, ast.Assign) and len(n.targets) == 1 and isinstance(n.targets[0], ast.Name):
            assigns.setdefault(n.targets[0].id, []).append(n)
        elif isinstance(n, (ast.AugAssign, ast.AnnAssign)) and isinstance(getattr(n, "target", None), ast.Name):
            assigns.setdefault(n.target.id, []).append(n)  # type: ignore[arg-type]
        elif isinstance(n, (ast.For, ast.comprehension)):
            for t in ast.walk(n.target):
                if isinstance(t, ast.Name):
                    assigns.setdefault(t.id, []).append(n)  # type: ignore[arg-type]
    for name, sites in assigns.items():
        lines = sorted(getattr(x, "lineno", 0) for x in sites)
        for bind in sites:
            value = getattr(bind, "value", None)
            if not isinstance(bind, (ast.Assign, ast.AnnAssign)) or value is None:
                continue
            kind = _is_one_shot(model, fn, value)
            if kind is None:
                continue
            nxt = min((l for l in lines if l > bind.lineno), default=10**9)  # next (textual) rebinding of the name
            enclosing = _enclosing_loops(fn.node, bind)
            u = _Uses(name)
            for st in body:
                u.visit(st)
            uses = [(node, stack) for node, stack in u.uses if bind.lineno < node.lineno < nxt or (node.lineno == bind.lineno and node.col_offset > bind.col_offset and node.lineno < nxt)]
            inner = [(node, [l for l in stack if l not in enclosing]) for node, stack in uses]
            in_loop = [(node, ls) for node, ls in inner if ls]
            if in_loop:
                node, ls = in_loop[0]
                what = "loop" if isinstance(ls[0], (ast.For, ast.While, ast.AsyncFor)) else ("closure" if isinstance(ls[0], (ast.FunctionDef, ast.Lambda, ast.AsyncFunctionDef)) else "comprehension")
                out.append(Lint("one-shot", fn, node.lineno, name, f"`{name}` is a {kind} created once (line {bind.lineno}) but consumed inside a {what} that runs repeatedly (line {node.lineno}): from the second round on it is exhausted and yields nothing"))
            elif len(uses) > 1:
                a, b = uses[0][0], uses[1][0]
                if not _exclusive(fn.node, a, b):
                    out.append(Lint("one-shot", fn, b.lineno, name, f"`{name}` is a {kind} (line {bind.lineno}) consumed at line {a.lineno} and again at line {b.lineno}: the second consumer sees it exhausted"))
    return out


def _enclosing_loops(root: ast.AST, target: ast.AST) -> list[ast.AST]:
    path: list[ast.AST] = []

    def go(n, stack) -> bool:
        if n is target:
            path.extend(stack)
            return True
        for c in ast.iter_child_nodes(n):
            if go(c, stack + ([n] if isinstance(n, (ast.For, ast.While, ast.AsyncFor, ast.ListComp, ast.SetComp, ast.DictComp, ast.GeneratorExp, ast.FunctionDef, ast.Lambda)) and n is not root else [])):
                return True
        return False

    go(root, [])
    return path


def _exclusive(root: ast.AST, a: ast.AST, b: ast.AST) -> bool:
    """Are the two nodes in different arms of one if / try (never both executed)?"""
    for n in ast.walk(root):
        if isinstance(n, ast.If):
            in_body = lambda x, part: any(x is y for st in part for y in ast.walk(st))  # noqa: E731
            if (in_body(a, n.body) and in_body(b, n.orelse)) or (in_body(b, n.body) and in_body(a, n.orelse)):
                return True
            # early return in the first arm
            if in_body(a, n.body) and n.body and isinstance(n.body[-1], (ast.Return, ast.Raise, ast.Continue, ast.Break)) and not in_body(b, n.body):
                return True
        if isinstance(n, ast.IfExp):
            under = lambda x, part: any(x is y for y in ast.walk(part))  # noqa: E731
            if (under(a, n.body) and under(b, n.orelse)) or (under(b, n.body) and under(a, n.orelse)):
                return True
    return False


def mutable_defaults(model: Model, fn: FunctionInfo) -> list[Lint]:
    out: list[Lint] = []
    for p in fn.params:
        d = p.default
        mutable = isinstance(d, (ast.List, ast.Dict, ast.Set)) or (isinstance(d, ast.Call) and isinstance(d.func, ast.Name) and d.func.id in ("list", "dict", "set", "defaultdict"))
        if not mutable:
            continue
        for n in ast.walk(fn.node):
            hit = None
            if isinstance(n, ast.Call) and isinstance(n.func, ast.Attribute) and isinstance(n.func.value, ast.Name) and n.func.value.id == p.name and n.func.attr in MUTATING_METHODS:
                hit = f".{n.func.attr}()"
            elif isinstance(n, (ast.Assign, ast.AugAssign)):
                tgts = n.targets if isinstance(n, ast.Assign) else [n.target]
                for t in tgts:
                    if isinstance(t, ast.Subscript) and isinstance(t.value, ast.Name) and t.value.id == p.name:
                        hit = "item assignment"
                    if isinstance(t, ast.Attribute) and isinstance(n, ast.Assign) and isinstance(n.value, ast.Name) and n.value.id == p.name:
                        hit = f"stored as {ast.unparse(t)}"
            elif isinstance(n, ast.Return) and isinstance(n.value, ast.Name) and n.value.id == p.name:
                hit = "returned to the caller"
            if hit:
                out.append(Lint("mutable-default", fn, n.lineno, p.name, f"parameter `{p.name}` defaults to a mutable `{ast.unparse(d)}` that is shared by all calls and is changed / leaked here ({hit}): one call's data shows up in the next"))
                break
    return out


def bisect_unsorted(model: Model, fn: FunctionInfo) -> list[Lint]:
    """Binary search over a sequence for which the package keeps no sortedness invariant: the
    converter's record list (add_record appends) and the synonym lists of a Record (only _merge
    and add_prefix sort them; the loaders and the constructor keep the given order)."""
    out: list[Lint] = []
    for n in ast.walk(fn.node):
        if not isinstance(n, ast.Call):
            continue
        name = ast.unparse(n.func)
        if not (name.startswith("bisect.") or name in ("bisect_left", "bisect_right", "bisect", "insort", "insort_left", "insort_right")):
            continue
        if not n.args:
            continue
        arg = n.args[0]
        # a local name: judge the expression it was bound to (unless the function sorts that name itself)
        hops = 0
        while isinstance(arg, ast.Name) and hops < 3:
            hops += 1
            if any(isinstance(c, ast.Call) and isinstance(c.func, ast.Attribute) and c.func.attr == "sort" and isinstance(c.func.value, ast.Name) and c.func.value.id == arg.id for c in ast.walk(fn.node)):
                arg = None
                break
            binds = [a.value for a in ast.walk(fn.node) if isinstance(a, ast.Assign) and any(isinstance(t, ast.Name) and t.id == arg.id for t in a.targets)]
            if len(binds) != 1:
                break
            arg = binds[0]
        if arg is None:
            continue

        def unsorted_source(e):
            """The unsorted sequence an expression enumerates in its own order (through comprehensions, list(), map())."""
            if isinstance(e, ast.Call) and isinstance(e.func, ast.Name) and e.func.id == "sorted":
                return None
            if isinstance(e, ast.Attribute) and (e.attr == "records" or e.attr.endswith("_synonyms") or e.attr in ("_all_prefixes", "_all_uri_prefixes")):
                return ast.unparse(e)
            if isinstance(e, (ast.ListComp, ast.GeneratorExp)) and e.generators:
                return unsorted_source(e.generators[0].iter)
            if isinstance(e, ast.Call) and isinstance(e.func, ast.Name) and e.func.id in ("list", "tuple") and len(e.args) == 1:
                return unsorted_source(e.args[0])
            if isinstance(e, ast.Call) and isinstance(e.func, ast.Name) and e.func.id == "map" and len(e.args) == 2:
                return unsorted_source(e.args[1])
            return None

        seq = unsorted_source(arg)
        if seq is not None:
            # a hit that is verified and a miss that falls back on a scan of the same sequence make the search an
            # optimisation only: what it finds is right, what it misses is found by the scan
            later_scan = any(
                isinstance(x, (ast.GeneratorExp, ast.ListComp, ast.For)) and getattr(x, "lineno", 0) > n.lineno and any(ast.unparse(it) == seq for it in ([g.iter for g in x.generators] if not isinstance(x, ast.For) else [x.iter]))
                for x in ast.walk(fn.node)
            )
            verified = any(isinstance(x, ast.Compare) and getattr(x, "lineno", 0) > n.lineno and any(isinstance(o, ast.Eq) for o in x.ops) and any(isinstance(y, ast.Subscript) and ast.unparse(y.value) == seq for y in ast.walk(x)) for x in ast.walk(fn.node))
            if later_scan and verified:
                continue
            out.append(Lint("bisect-unsorted", fn, n.lineno, seq.rsplit(".", 1)[-1], f"`{name}({ast.unparse(n.args[0])[:60]}, ...)`: binary search over `{seq}`, which is not kept sorted (add_record appends new records at the end; synonym lists are sorted only by _merge / add_prefix): present entries are missed or the wrong one is hit"))
    out += _handwritten_bisect(fn)
    return out


def _handwritten_bisect(fn: FunctionInfo) -> list[Lint]:
    """``while lo < hi: mid = (lo + hi) // 2; ... xs[mid] ...`` - a binary search written out by hand - over a
    sequence the package does not keep sorted, where a miss is final (no scan of the same sequence follows)."""
    out: list[Lint] = []
    for w in ast.walk(fn.node):
        if not isinstance(w, ast.While):
            continue
        t = w.test
        if not (isinstance(t, ast.Compare) and len(t.ops) == 1 and isinstance(t.ops[0], (ast.Lt, ast.LtE)) and isinstance(t.left, ast.Name) and isinstance(t.comparators[0], ast.Name)):
            continue
        lo, hi = t.left.id, t.comparators[0].id
        mids = set()
        for a in ast.walk(w):
            if isinstance(a, ast.Assign) and len(a.targets) == 1 and isinstance(a.targets[0], ast.Name) and isinstance(a.value, ast.BinOp):
                v = a.value
                halved = (isinstance(v.op, ast.FloorDiv) and isinstance(v.right, ast.Constant) and v.right.value == 2) or (isinstance(v.op, ast.RShift) and isinstance(v.right, ast.Constant) and v.right.value == 1)
                if halved and {x.id for x in ast.walk(v.left) if isinstance(x, ast.Name)} >= {lo, hi}:
                    mids.add(a.targets[0].id)
        if not mids:
            continue
        seqs = []
        for sub in ast.walk(w):
            if isinstance(sub, ast.Subscript) and isinstance(sub.slice, ast.Name) and sub.slice.id in mids and isinstance(sub.value, (ast.Name, ast.Attribute)):
                seqs.append(sub.value)
        for seq in seqs[:1]:
            e: ast.expr = seq
            alias = {ast.unparse(seq)}
            hops = 0
            while isinstance(e, ast.Name) and hops < 3:
                hops += 1
                if any(isinstance(c, ast.Call) and isinstance(c.func, ast.Attribute) and c.func.attr == "sort" and isinstance(c.func.value, ast.Name) and c.func.value.id == e.id for c in ast.walk(fn.node)):
                    e = None  # type: ignore[assignment]
                    break
                binds = [a.value for a in ast.walk(fn.node) if isinstance(a, ast.Assign) and any(isinstance(x, ast.Name) and x.id == e.id for x in a.targets)]
                if len(binds) != 1:
                    break
                e = binds[0]
                alias.add(ast.unparse(e))
            if e is None:
                continue
            src = None
            if isinstance(e, ast.Attribute) and (e.attr == "records" or e.attr.endswith("_synonyms") or e.attr in ("_all_prefixes", "_all_uri_prefixes")):
                src = ast.unparse(e)
            if src is None:
                continue
            # a full scan of the same sequence after the search makes a miss of the search harmless
            fallback = False
            for n in ast.walk(fn.node):
                if getattr(n, "lineno", 0) <= (w.end_lineno or w.lineno):
                    continue
                its = []
                if isinstance(n, (ast.For, ast.AsyncFor)):
                    its.append(n.iter)
                if isinstance(n, (ast.ListComp, ast.GeneratorExp, ast.SetComp, ast.DictComp)):
                    its += [g.iter for g in n.generators]
                if isinstance(n, ast.Compare) and any(isinstance(o, (ast.In, ast.NotIn)) for o in n.ops):
                    its += n.comparators
                if any(ast.unparse(i) in alias for i in its):
                    fallback = True
            if not fallback:
                out.append(Lint("bisect-unsorted", fn, w.lineno, src.rsplit(".", 1)[-1], f"a binary search written out by hand (`while {lo} < {hi}` halving on `{ast.unparse(seq)}[{sorted(mids)[0]}]`) over `{src}`, which is not kept sorted (add_record appends new records at the end; synonym lists are sorted only by _merge / add_prefix), and a miss is final: present entries are not found"))
    return out


def _materialised(g: FunctionInfo, e: ast.expr, depth: int = 0) -> bool:
    """Is the argument expression a re-iterable container (a display, a list / sorted / set / dict / tuple call,
    a non-generator comprehension, an attribute of an object, or a local bound only to such)?"""
    if isinstance(e, (ast.List, ast.Tuple, ast.Set, ast.Dict, ast.ListComp, ast.SetComp, ast.DictComp, ast.Constant, ast.Attribute, ast.Subscript)):
        return True
    if isinstance(e, ast.Call) and isinstance(e.func, ast.Name) and e.func.id in ("sorted", "list", "tuple", "set", "frozenset", "dict"):
        return True
    if isinstance(e, ast.Call) and isinstance(e.func, ast.Attribute) and e.func.attr in ("values", "keys", "items", "copy", "split", "splitlines"):
        return True
    if isinstance(e, ast.Name) and depth < 3:
        binds = [a.value for a in ast.walk(g.node) if isinstance(a, ast.Assign) and any(isinstance(t, ast.Name) and t.id == e.id for t in a.targets)]
        binds += [a.value for a in ast.walk(g.node) if isinstance(a, ast.AnnAssign) and isinstance(a.target, ast.Name) and a.target.id == e.id and a.value is not None]
        is_param = any(q.name == e.id for q in g.params)
        if binds and not is_param:
            return all(_materialised(g, b, depth + 1) for b in binds)
        if binds and is_param:
            # a parameter that the caller re-binds before the call (`records = sorted(records)`): judged by the binding
            return all(_materialised(g, b, depth + 1) for b in binds) and all(getattr(b, "lineno", 0) < getattr(e, "lineno", 10**9) for b in binds)
    return False


def _only_materialised_callers(model: Model, fn: FunctionInfo, pname: str) -> bool:
    """Every call of the private helper ``fn`` in the package passes a re-iterable container for ``pname``."""
    names = [q.name for q in fn.params]
    idx = names.index(pname) - (1 if fn.cls is not None and fn.self_name and not fn.is_staticmethod else 0)
    seen = 0
    for g in model.functions.values():
        for n in ast.walk(g.node):
            if not isinstance(n, ast.Call):
                continue
            f = n.func
            cname = f.id if isinstance(f, ast.Name) else f.attr if isinstance(f, ast.Attribute) else None
            if cname != fn.name:
                continue
            arg = None
            if 0 <= idx < len(n.args) and not any(isinstance(a, ast.Starred) for a in n.args[: idx + 1]):
                arg = n.args[idx]
            for k in n.keywords:
                if k.arg == pname:
                    arg = k.value
            if arg is None:
                return False
            seen += 1
            if not _materialised(g, arg):
                return False
    # the helper escaping as a value (passed around) cannot be judged
    for g in model.functions.values():
        for n in ast.walk(g.node):
            if isinstance(n, ast.Name) and n.id == fn.name and isinstance(n.ctx, ast.Load):
                parent_calls = [c for c in ast.walk(g.node) if isinstance(c, ast.Call) and c.func is n]
                if not parent_calls:
                    return False
    return seen > 0


def _hands_back_argument(model: Model, fn: FunctionInfo, value: ast.expr, name: str) -> bool:
    """``value`` is ``helper(name, ..)`` for a package function with a ``return <that parameter>`` statement."""
    if not (isinstance(value, ast.Call) and isinstance(value.func, ast.Name) and value.args and isinstance(value.args[0], ast.Name) and value.args[0].id == name):
        return False
    r = model.resolve_global(fn.module, value.func.id)
    if not r or r[0] != "func":
        return False
    callee = r[1]
    if not callee.params:
        return False
    first = callee.params[0].name
    if any(isinstance(n, ast.Name) and n.id == first and isinstance(n.ctx, ast.Store) for n in ast.walk(callee.node)):
        return False  # the helper rebinds the name (`xs = list(xs)`): what it returns is its own object
    return any(isinstance(n, ast.Return) and isinstance(n.value, ast.Name) and n.value.id == first for n in ast.walk(callee.node))


def iterable_param_reuse(model: Model, fn: FunctionInfo) -> list[Lint]:
    """A parameter annotated ``Iterable`` / ``Iterator`` (callers may pass a generator) is consumed twice - or
    inside a loop - before the function has materialised it: the second consumer sees it exhausted."""
    out: list[Lint] = []
    for p in fn.params:
        if p.annotation is None:
            continue
        ann = ast.unparse(p.annotation)
        import re as _re

        outer = _re.search(r"\b(Callable|Iterable|Iterator|Sequence|Collection|Mapping|list|List|set|Set|dict|Dict|tuple|Tuple|frozenset|str|type|Type)\b", ann)
        if outer is None or outer.group(1) not in ("Iterable", "Iterator"):
            continue
        if fn.name.startswith("_") and not fn.name.startswith("__") and _only_materialised_callers(model, fn, p.name):
            continue
        rebinds = [n.lineno for n in ast.walk(fn.node) if isinstance(n, ast.Name) and n.id == p.name and isinstance(n.ctx, ast.Store)]
        # `xs = helper(xs)` with a package helper that can hand its argument back unchanged (a loader that only
        # resolves locations) leaves the name bound to the caller's one-shot iterable
        for a_ in ast.walk(fn.node):
            if isinstance(a_, ast.Assign) and len(a_.targets) == 1 and isinstance(a_.targets[0], ast.Name) and a_.targets[0].id == p.name and _hands_back_argument(model, fn, a_.value, p.name):
                rebinds = [ln for ln in rebinds if ln != a_.lineno]
        first_rebind = min(rebinds, default=10**9)
        skip = set()
        for n in ast.walk(fn.node):
            # tests that do not consume: isinstance(x, ..), x is None, bool context of the bare name
            if isinstance(n, ast.Call) and isinstance(n.func, ast.Name) and n.func.id in ("isinstance", "id", "type", "callable", "hasattr") and n.args and isinstance(n.args[0], ast.Name):
                skip.add(id(n.args[0]))
            if isinstance(n, ast.Compare) and isinstance(n.left, ast.Name) and all(isinstance(o, (ast.Is, ast.IsNot)) for o in n.ops):
                skip.add(id(n.left))
            if isinstance(n, (ast.If, ast.While, ast.IfExp)) and isinstance(n.test, ast.Name):
                skip.add(id(n.test))
            if isinstance(n, ast.UnaryOp) and isinstance(n.op, ast.Not) and isinstance(n.operand, ast.Name):
                skip.add(id(n.operand))
            if isinstance(n, ast.BoolOp):
                for v in n.values[:-1]:
                    if isinstance(v, ast.Name):
                        skip.add(id(v))
        u = _Uses(p.name)
        for st in fn.node.body:
            u.visit(st)
        uses = [(node, stack) for node, stack in u.uses if id(node) not in skip and (node.lineno < first_rebind or (node.lineno == first_rebind))]
        # the rebinding statement itself (`xs = sorted(xs)`) is one legitimate consumption
        in_loop = [(node, stack) for node, stack in uses if any(not isinstance(l, (ast.FunctionDef, ast.AsyncFunctionDef)) or True for l in stack) and stack]
        if in_loop:
            node, stack = in_loop[0]
            what = "loop" if isinstance(stack[0], (ast.For, ast.While, ast.AsyncFor)) else ("closure" if isinstance(stack[0], (ast.FunctionDef, ast.Lambda, ast.AsyncFunctionDef)) else "comprehension")
            out.append(Lint("iterable-param", fn, node.lineno, p.name, f"parameter `{p.name}` is declared `{ann}` - a caller may pass a generator - but is consumed inside a {what} that runs repeatedly (line {node.lineno}): after the first round it is exhausted"))
        elif len(uses) > 1:
            pairs = [(a, b) for i, (a, _) in enumerate(uses) for b, _ in uses[i + 1 :] if not _exclusive(fn.node, a, b)]
            if pairs:
                a, b = pairs[0]
                out.append(Lint("iterable-param", fn, b.lineno, p.name, f"parameter `{p.name}` is declared `{ann}` - a caller may pass a generator - and is consumed at line {a.lineno} and again at line {b.lineno} without having been materialised: the second consumer sees it exhausted (elements are lost or the result is empty)"))
    return out


SIZE_CHANGERS = {"remove", "pop", "insert", "append", "extend", "clear", "popitem", "discard", "add", "update", "setdefault", "sort", "reverse"}


def mutate_while_iterating(model: Model, fn: FunctionInfo) -> list[Lint]:
    """``for x in xs: ... xs.remove(x)``: the container that is being iterated is resized (or reordered) in the
    loop body - the iterator skips or repeats elements (lists) or raises (dicts, sets) - unless the loop is left
    immediately afterwards."""
    out: list[Lint] = []
    for loop in ast.walk(fn.node):
        if not isinstance(loop, (ast.For, ast.AsyncFor)):
            continue
        it = loop.iter
        if isinstance(it, ast.Call) and isinstance(it.func, ast.Attribute) and it.func.attr in ("items", "keys", "values") and not it.args:
            it = it.func.value
        if isinstance(it, ast.Call) and isinstance(it.func, ast.Name) and it.func.id in ("enumerate", "reversed", "iter") and it.args:
            it = it.args[0]
        if not isinstance(it, (ast.Name, ast.Attribute)):
            continue
        src = ast.unparse(it)

        def walk_block(stmts):
            for i, st in enumerate(stmts):
                hit = None
                for n in ast.walk(st):
                    if isinstance(n, (ast.FunctionDef, ast.AsyncFunctionDef, ast.Lambda)):
                        continue
                    if isinstance(n, ast.Call) and isinstance(n.func, ast.Attribute) and n.func.attr in SIZE_CHANGERS and ast.unparse(n.func.value) == src:
                        hit = (n, f".{n.func.attr}()")
                    elif isinstance(n, ast.Delete) and any(isinstance(t, ast.Subscript) and ast.unparse(t.value) == src for t in n.targets):
                        hit = (n, "del ...[...]")
                if hit is not None and isinstance(st, (ast.Expr, ast.Delete, ast.Assign, ast.AugAssign)):
                    nxt = stmts[i + 1] if i + 1 < len(stmts) else None
                    if not isinstance(nxt, (ast.Break, ast.Return, ast.Raise)):
                        out.append(Lint("mutate-while-iterating", fn, hit[0].lineno, src.rsplit(".", 1)[-1], f"`{src}` is changed ({hit[1]}) inside the loop that iterates it (line {loop.lineno}): after a removal the next element is skipped, after an insertion one is visited twice; dictionaries and sets raise"))
                for sub in ("body", "orelse", "handlers", "finalbody"):
                    inner = getattr(st, sub, None)
                    if isinstance(inner, list) and not isinstance(st, (ast.FunctionDef, ast.AsyncFunctionDef, ast.ClassDef)):
                        walk_block([x for x in inner if isinstance(x, ast.stmt)] + [y for x in inner if isinstance(x, ast.ExceptHandler) for y in x.body])

        walk_block(loop.body)
    # one report per line
    seen, uniq = set(), []
    for l in out:
        if (l.line, l.name) not in seen:
            seen.add((l.line, l.name))
            uniq.append(l)
    return uniq


def global_mutable_leak(model: Model, fn: FunctionInfo) -> list[Lint]:
    """``return SOME_CONSTANT`` (or ``self.x = SOME_CONSTANT``) where the module-level name is bound to a MUTABLE
    container (a set / list / dict display, ``set(..)`` / ``list(..)`` / ``dict(..)`` call or a comprehension): every
    caller gets the same object, so what one of them adds shows up for all (a default shared by every service /
    converter built in the process)."""
    out: list[Lint] = []
    consts = fn.module.constants

    def mutable(node) -> bool:
        if isinstance(node, (ast.Set, ast.List, ast.Dict, ast.ListComp, ast.SetComp, ast.DictComp)):
            return True
        return isinstance(node, ast.Call) and isinstance(node.func, ast.Name) and node.func.id in ("set", "list", "dict", "defaultdict", "OrderedDict")

    local = {n.id for n in ast.walk(fn.node) if isinstance(n, ast.Name) and isinstance(n.ctx, ast.Store)} | {p.name for p in fn.params}
    for n in ast.walk(fn.node):
        leak = None
        if isinstance(n, ast.Return) and isinstance(n.value, ast.Name):
            leak = (n.value.id, "returned to the caller")
        elif isinstance(n, ast.Assign) and isinstance(n.value, ast.Name) and any(isinstance(t, ast.Attribute) for t in n.targets):
            leak = (n.value.id, f"stored as {ast.unparse(n.targets[0])}")
        if leak and leak[0] not in local and leak[0] in consts and mutable(consts[leak[0]]):
            out.append(Lint("global-mutable-leak", fn, n.lineno, leak[0], f"the module-level `{leak[0]}` is a mutable `{ast.unparse(consts[leak[0]])[:40]}` and is {leak[1]} as it is (no copy): every caller shares one object, so an element added through one of them appears in all"))
    return out


def last_iteration_flag(model: Model, fn: FunctionInfo) -> list[Lint]:
    """``flag = False`` / ``for ..: flag = <test>`` / ``if flag`` after the loop: the flag is overwritten in every
    iteration, so after the loop it tells about the LAST element only - "did any ..." / "did all ..." was meant
    (``flag = flag or <test>``)."""
    out: list[Lint] = []
    for blk in ast.walk(fn.node):
        body = getattr(blk, "body", None)
        if not isinstance(body, list):
            continue
        for seq in (body, getattr(blk, "orelse", None) or [], getattr(blk, "finalbody", None) or []):
            for i, st in enumerate(seq):
                if not isinstance(st, (ast.For, ast.AsyncFor)):
                    continue
                inits = {}
                for prev in ast.walk(fn.node):
                    if isinstance(prev, ast.Assign) and prev.lineno < st.lineno and len(prev.targets) == 1 and isinstance(prev.targets[0], ast.Name) and isinstance(prev.value, ast.Constant) and isinstance(prev.value.value, bool):
                        inits[prev.targets[0].id] = prev.value.value
                for inner in st.body:  # unconditional statements of the loop body only
                    if isinstance(inner, ast.Assign) and len(inner.targets) == 1 and isinstance(inner.targets[0], ast.Name) and inner.targets[0].id in inits:
                        name = inner.targets[0].id
                        v = inner.value
                        if isinstance(v, ast.Constant) or any(isinstance(n, ast.Name) and n.id == name for n in ast.walk(v)):
                            continue
                        if not isinstance(v, (ast.Compare, ast.BoolOp, ast.UnaryOp, ast.Call)):
                            continue
                        if any(isinstance(n, ast.Break) for n in ast.walk(st)):
                            continue
                        used_after = any(isinstance(n, ast.Name) and n.id == name and isinstance(n.ctx, ast.Load) and n.lineno > (st.end_lineno or st.lineno) for n in ast.walk(fn.node))
                        if used_after:
                            out.append(Lint("last-iteration-flag", fn, inner.lineno, name, f"`{name}` starts as {inits[name]} and is overwritten with `{ast.unparse(v)[:50]}` in every iteration of the loop at line {st.lineno}, then read after the loop: it reflects the last element only, not whether the test held for any (or all) of them"))
    return out


def unbound_after_loop(model: Model, fn: FunctionInfo) -> list[Lint]:
    """A name that only the loop binds (its target, or an assignment in its body) and that is read AFTER the loop:
    for an empty iterable the loop body never runs and the read raises UnboundLocalError / NameError."""
    out: list[Lint] = []
    params = {p.name for p in fn.params}
    for lp in ast.walk(fn.node):
        if not isinstance(lp, (ast.For, ast.AsyncFor)):
            continue
        end = lp.end_lineno or lp.lineno
        bound_in_loop = {n.id for n in ast.walk(lp.target) if isinstance(n, ast.Name)}
        for name in sorted(bound_in_loop - params):
            before = any(isinstance(n, ast.Name) and n.id == name and isinstance(n.ctx, ast.Store) and n.lineno < lp.lineno for n in ast.walk(fn.node))
            # other bindings (imports, with/except targets, nested defs) before the loop
            before = before or any(isinstance(n, (ast.FunctionDef, ast.ClassDef)) and n.name == name and n.lineno < lp.lineno for n in ast.walk(fn.node))
            if before:
                continue
            # reads in an inner scope that binds the name itself (a comprehension target, a lambda / nested function
            # parameter) are not reads of the loop's name
            shadowed = set()
            for sc in ast.walk(fn.node):
                binds = set()
                if isinstance(sc, (ast.ListComp, ast.SetComp, ast.DictComp, ast.GeneratorExp)):
                    binds = {x.id for g in sc.generators for x in ast.walk(g.target) if isinstance(x, ast.Name)}
                elif isinstance(sc, ast.Lambda) or (isinstance(sc, (ast.FunctionDef, ast.AsyncFunctionDef)) and sc is not fn.node):
                    a_ = sc.args
                    binds = {q.arg for q in a_.posonlyargs + a_.args + a_.kwonlyargs} | {q.arg for q in (a_.vararg, a_.kwarg) if q is not None}
                if name in binds:
                    shadowed.update(id(x) for x in ast.walk(sc) if isinstance(x, ast.Name) and x.id == name)
            reads = [n for n in ast.walk(fn.node) if isinstance(n, ast.Name) and n.id == name and isinstance(n.ctx, ast.Load) and n.lineno > end and id(n) not in shadowed]
            # a later rebinding in front of the read (another loop over the same name, an assignment) makes it bound
            reads = [n for n in reads if not any(isinstance(m_, ast.Name) and m_.id == name and isinstance(m_.ctx, ast.Store) and end < m_.lineno <= n.lineno for m_ in ast.walk(fn.node))]
            if reads and not lp.orelse:
                out.append(Lint("unbound-after-loop", fn, reads[0].lineno, name, f"`{name}` is bound only by the loop at line {lp.lineno} and read after it (line {reads[0].lineno}): when the iterable is empty the loop never binds it and the read raises UnboundLocalError"))
    return out


def split_unpack(model: Model, fn: FunctionInfo) -> list[Lint]:
    """``a, b = s.split(d)``: str.split without maxsplit cuts at EVERY occurrence, so the unpacking raises
    ValueError (too many values) as soon as ``d`` occurs twice - and (not enough values) when it does not occur
    and no test in front guarantees that it does.  ``s.split(d, 1)`` / ``s.partition(d)`` are the total forms."""
    out: list[Lint] = []
    for n in ast.walk(fn.node):
        if not (isinstance(n, ast.Assign) and len(n.targets) == 1 and isinstance(n.targets[0], (ast.Tuple, ast.List))):
            continue
        tg = n.targets[0]
        if any(isinstance(e, ast.Starred) for e in tg.elts):
            continue
        v = n.value
        if isinstance(v, ast.Call) and isinstance(v.func, ast.Attribute) and v.func.attr in ("split", "rsplit") and v.args:
            maxsplit = v.args[1] if len(v.args) > 1 else next((k.value for k in v.keywords if k.arg == "maxsplit"), None)
            k = len(tg.elts)
            if maxsplit is None or not (isinstance(maxsplit, ast.Constant) and maxsplit.value == k - 1):
                out.append(Lint("split-unpack", fn, n.lineno, ast.unparse(v.func.value)[:20], f"`{ast.unparse(n)[:70]}` unpacks str.{v.func.attr} without maxsplit={k - 1} into {k} names: the string is cut at every occurrence of the separator, so a value containing it twice raises ValueError (too many values to unpack) - an error of the wrong kind, from every function that goes through here, in every mode"))
    return out


def strip_charset(model: Model, fn: FunctionInfo) -> list[Lint]:
    """``s.strip("x-")`` / ``s.rstrip("$1")`` / ``s.rstrip(self.delimiter)``: the argument of strip / lstrip / rstrip
    is a SET of characters, not a prefix or suffix - every leading / trailing character that is in the set goes,
    however many and in whatever order ('xml'.lstrip('x-') == 'ml', '...obo/RO_0000301'.rstrip('$1') loses the 1).
    Flagged when the argument reads like a token (a literal of two or more characters with a letter or digit in
    it, or a name that denotes a separator / prefix / suffix); pure whitespace / bracket sets are what strip is for."""
    out: list[Lint] = []
    for n in ast.walk(fn.node):
        if not (isinstance(n, ast.Call) and isinstance(n.func, ast.Attribute) and n.func.attr in ("strip", "lstrip", "rstrip") and len(n.args) == 1):
            continue
        a = n.args[0]
        token = None
        if isinstance(a, ast.Constant) and isinstance(a.value, str) and len(a.value) >= 2 and any(ch.isalnum() for ch in a.value):
            token = repr(a.value)
        elif isinstance(a, (ast.Name, ast.Attribute)):
            nm = (a.id if isinstance(a, ast.Name) else a.attr).lower()
            if any(k in nm for k in ("delim", "sep", "prefix", "suffix")):
                token = ast.unparse(a)
        if token:
            fix = {"strip": "removeprefix / removesuffix", "lstrip": "removeprefix", "rstrip": "removesuffix"}[n.func.attr]
            out.append(Lint("strip-charset", fn, n.lineno, n.func.attr, f"`{ast.unparse(n)[:60]}`: str.{n.func.attr} takes {token} as a set of characters and removes every leading / trailing character that is in it, not the token once ({fix} does that): values that merely begin / end with one of those characters are cut short"))
    return out


_GETTER_MUTATORS = {"sort", "reverse", "append", "extend", "insert", "remove", "pop", "clear", "update", "add", "discard", "setdefault", "popitem"}


def getter_side_effect(model: Model, fn: FunctionInfo) -> list[Lint]:
    """A property, ``__eq__`` / ``__hash__`` / ``__lt__`` / ``__repr__`` / ``__str__`` / ``__len__`` / ``__contains__``
    that changes the object it is asked about: reading must not write.  These run implicitly - in comparisons,
    while matching records, in log messages - also on calls that are then REJECTED, so the object is changed by an
    operation that is supposed to change nothing.  Filling a private cache attribute (a name starting with ``_``)
    is not flagged here (memoisation has its own rule)."""
    passive = fn.is_property or fn.name in ("__eq__", "__ne__", "__hash__", "__lt__", "__le__", "__gt__", "__ge__", "__repr__", "__str__", "__len__", "__contains__", "__iter__", "__bool__")
    if not passive or fn.self_name is None:
        return []
    me = fn.self_name
    out: list[Lint] = []

    def on_self_field(e) -> str | None:
        if isinstance(e, ast.Attribute) and isinstance(e.value, ast.Name) and e.value.id == me and not e.attr.startswith("_"):
            return e.attr
        if isinstance(e, ast.Subscript):
            return on_self_field(e.value)
        return None

    for n in ast.walk(fn.node):
        if isinstance(n, ast.Call) and isinstance(n.func, ast.Attribute) and n.func.attr in _GETTER_MUTATORS:
            f = on_self_field(n.func.value)
            if f:
                out.append(Lint("getter-side-effect", fn, n.lineno, f, f"`{ast.unparse(n)[:50]}` inside {'the property' if fn.is_property else 'the special method'} {fn.name}: reading the object changes its `{f}` in place - also while a call that ends up rejected is still comparing records, so 'raises and changes nothing' no longer holds and the order of an object's lists depends on who looked at it"))
        elif isinstance(n, (ast.Assign, ast.AugAssign, ast.AnnAssign)):
            tgts = n.targets if isinstance(n, ast.Assign) else [n.target]
            for t in tgts:
                f = on_self_field(t)
                if f:
                    out.append(Lint("getter-side-effect", fn, n.lineno, f, f"`{ast.unparse(n)[:50]}` inside {'the property' if fn.is_property else 'the special method'} {fn.name}: reading the object rebinds / changes its `{f}`"))
    return out


def format_on_interpolated(model: Model, fn: FunctionInfo) -> list[Lint]:
    """``f"{x} ... " "... {y}".format(y=..)``: adjacent literals are ONE string, so ``.format`` runs over the text
    the f-string half has just interpolated.  A value containing ``{`` / ``}`` is re-read as a replacement field:
    IndexError / KeyError / ValueError from a line that only meant to build a message - in an exception class this
    replaces the error being raised by a foreign one.  (Also ``(f"..." + "...").format(..)`` and ``%`` on an
    f-string.)"""
    out: list[Lint] = []

    def interpolates(e) -> bool:
        if isinstance(e, ast.JoinedStr):
            return any(isinstance(v, ast.FormattedValue) for v in e.values)
        if isinstance(e, ast.BinOp) and isinstance(e.op, ast.Add):
            return interpolates(e.left) or interpolates(e.right)
        return False

    for n in ast.walk(fn.node):
        if isinstance(n, ast.Call) and isinstance(n.func, ast.Attribute) and n.func.attr in ("format", "format_map") and interpolates(n.func.value):
            out.append(Lint("format-on-interpolated", fn, n.lineno, "format", f"`{ast.unparse(n)[:70]}`: str.format is applied to a string that already contains interpolated run-time text (adjacent literals form one string): braces in that text are read as replacement fields, so the call raises IndexError / KeyError / ValueError for inputs such as '{{}}' or '{{id}}' - where this builds an exception message, callers get that error instead of the library's"))
        elif isinstance(n, ast.BinOp) and isinstance(n.op, ast.Mod) and interpolates(n.left):
            out.append(Lint("format-on-interpolated", fn, n.lineno, "%", f"`{ast.unparse(n)[:70]}`: the % operator is applied to a string that already contains interpolated run-time text: a '%' in that text is read as a conversion"))
    return out


_GLOBAL_SETTERS = {
    "csv.field_size_limit": "the csv module's field size limit (shared by every reader in the process - file_compress / file_expand included)",
    "sys.setrecursionlimit": "the interpreter's recursion limit",
    "locale.setlocale": "the process locale",
    "os.chdir": "the working directory (relative paths given to the loaders resolve differently)",
    "socket.setdefaulttimeout": "the default socket timeout",
    "warnings.simplefilter": "the global warnings filter",
    "warnings.filterwarnings": "the global warnings filter",
    "random.seed": "the global random state",
}


def process_global_setting(model: Model, fn: FunctionInfo) -> list[Lint]:
    """A library function that changes a PROCESS-WIDE setting and does not put it back (no ``finally`` that calls the
    same setter again, not inside ``warnings.catch_warnings()``): every later call of unrelated functions in the
    same process runs under the new setting - behaviour that depends on what was called before."""
    out: list[Lint] = []
    for n in ast.walk(fn.node):
        if not isinstance(n, ast.Call) or not n.args:
            continue
        name = ast.unparse(n.func)
        key = next((k for k in _GLOBAL_SETTERS if name == k or name.endswith("." + k)), None)
        if key is None:
            continue
        restored = False
        for t in ast.walk(fn.node):
            if isinstance(t, ast.Try) and t.finalbody and any(isinstance(c, ast.Call) and ast.unparse(c.func) == name for st in t.finalbody for c in ast.walk(st)):
                restored = True
            if isinstance(t, ast.With) and any("catch_warnings" in ast.unparse(i.context_expr) for i in t.items) and key.startswith("warnings."):
                restored = True
        if not restored:
            out.append(Lint("process-global-setting", fn, n.lineno, key, f"`{ast.unparse(n)[:60]}` changes {_GLOBAL_SETTERS[key]} and nothing in {fn.name} restores it: after one call of {fn.name} every other function of the process runs under the new value - a file operation that handled a table before now fails on it, depending on what was called earlier"))
    return out


def registered_once_from_arguments(model: Model, fn: FunctionInfo) -> list[Lint]:
    """``csv.register_dialect(NAME, ..)`` under ``if NAME not in csv.list_dialects()`` with formatting parameters
    taken from the function's own arguments: the registry is process-wide, so the first call's arguments are the
    dialect for every later call - whatever separator those calls ask for."""
    out: list[Lint] = []
    params = {a.arg for a in fn.node.args.posonlyargs + fn.node.args.args + fn.node.args.kwonlyargs}
    # locals computed from parameters count as parameters (one step: `delimiter = sep or "\t"`)
    derived = set(params)
    for n in ast.walk(fn.node):
        if isinstance(n, ast.Assign) and len(n.targets) == 1 and isinstance(n.targets[0], ast.Name):
            if any(isinstance(x, ast.Name) and x.id in params for x in ast.walk(n.value)):
                derived.add(n.targets[0].id)
    for n in ast.walk(fn.node):
        if not isinstance(n, ast.If) or "list_dialects" not in ast.unparse(n.test):
            continue
        if not (isinstance(n.test, ast.Compare) and len(n.test.ops) == 1 and isinstance(n.test.ops[0], ast.NotIn)):
            continue
        for c in (c for st in n.body for c in ast.walk(st)):
            if isinstance(c, ast.Call) and ast.unparse(c.func).endswith("register_dialect") and c.args:
                if ast.unparse(c.args[0]) != ast.unparse(n.test.left):
                    continue
                from_args = sorted({x.id for k in c.keywords for x in ast.walk(k.value) if isinstance(x, ast.Name) and x.id in derived})
                if from_args:
                    out.append(Lint("registered-once-from-arguments", fn, c.lineno, "csv.register_dialect", f"`{ast.unparse(c)[:70]}` runs only while `{ast.unparse(n.test.left)}` is not yet in csv's process-wide dialect registry, with formatting taken from {fn.name}'s own argument(s) {', '.join(from_args)}: the first call's value is the dialect of every later call - a later call that asks for another separator reads and writes its file with the first one"))
    return out


_PRIORITY_ORDERED = ("expand_pair_all", "expand_all", "expand_reference_all")


def priority_order_lost(model: Model, fn: FunctionInfo) -> list[Lint]:
    """The ``*_all`` expansions return the URIs in priority order - the standard one first, then one per URI prefix
    synonym. ``sorted(..)`` (or a set) of such a result, read BY POSITION afterwards (``[0]``, ``first, *rest = ..``),
    takes the alphabetically smallest URI for the standard one."""
    out: list[Lint] = []

    def ordered_call(e) -> bool:
        return isinstance(e, ast.Call) and isinstance(e.func, ast.Attribute) and e.func.attr in _PRIORITY_ORDERED

    names = set()
    for n in ast.walk(fn.node):
        if isinstance(n, ast.Assign) and len(n.targets) == 1 and isinstance(n.targets[0], ast.Name) and ordered_call(n.value):
            names.add(n.targets[0].id)
    if not names and not any(ordered_call(n) for n in ast.walk(fn.node)):
        return out
    # a name bound once only: `uris = c.expand_pair_all(..)` rebinding would make the judgement path dependent
    for nm in list(names):
        binds = [n for n in ast.walk(fn.node) if isinstance(n, ast.Name) and n.id == nm and isinstance(n.ctx, ast.Store)]
        if len(binds) != 1:
            names.discard(nm)

    def strip(e):
        while isinstance(e, ast.Call) and isinstance(e.func, ast.Name) and e.func.id in ("list", "tuple") and len(e.args) == 1 and not e.keywords:
            e = e.args[0]
        return e

    def is_source(e) -> bool:
        e = strip(e)
        return ordered_call(e) or (isinstance(e, ast.Name) and e.id in names)

    def reordered(e) -> str | None:
        """`sorted(S)`, `sorted(set(S))`, `set(S)`, `frozenset(S)` of a priority-ordered result S (no key=: a key may
        well encode the priority)."""
        e = strip(e)
        if isinstance(e, ast.Call) and isinstance(e.func, ast.Name) and len(e.args) == 1:
            if e.func.id == "sorted" and not any(k.arg == "key" for k in e.keywords):
                inner = strip(e.args[0])
                if is_source(inner) or (isinstance(inner, ast.Call) and isinstance(inner.func, ast.Name) and inner.func.id in ("set", "frozenset") and len(inner.args) == 1 and is_source(inner.args[0])):
                    return "sorted"
        return None

    lost = {}
    for n in ast.walk(fn.node):
        if isinstance(n, ast.Assign) and len(n.targets) == 1 and reordered(n.value):
            t = n.targets[0]
            if isinstance(t, ast.Name):
                lost[t.id] = n
            elif isinstance(t, (ast.Tuple, ast.List)) and t.elts and not isinstance(t.elts[0], ast.Starred) and isinstance(t.elts[0], ast.Name):
                out.append(Lint("priority-order-lost", fn, n.lineno, t.elts[0].id, f"`{ast.unparse(n)[:80]}`: the expansions are returned in priority order (the standard URI first, then one per URI prefix synonym); sorted() puts the alphabetically smallest one first, and `{t.elts[0].id}` is then taken for the standard URI - for a record whose synonym sorts before its URI prefix the answer is the synonym's URI"))
        elif isinstance(n, ast.Subscript) and isinstance(n.slice, ast.Constant) and n.slice.value == 0 and reordered(n.value):
            out.append(Lint("priority-order-lost", fn, n.lineno, "[0]", f"`{ast.unparse(n)[:80]}`: the first of the SORTED expansions is the alphabetically smallest URI, not the standard one (the *_all expansions come in priority order)"))
    for nm, a in lost.items():
        binds = [n for n in ast.walk(fn.node) if isinstance(n, ast.Name) and n.id == nm and isinstance(n.ctx, ast.Store)]
        if len(binds) != 1:
            continue
        for n in ast.walk(fn.node):
            if isinstance(n, ast.Subscript) and isinstance(n.value, ast.Name) and n.value.id == nm and isinstance(n.slice, ast.Constant) and n.slice.value == 0 and isinstance(n.ctx, ast.Load):
                out.append(Lint("priority-order-lost", fn, n.lineno, nm, f"`{nm}[0]` after `{ast.unparse(a)[:60]}`: the first of the SORTED expansions is the alphabetically smallest URI, not the standard one (the *_all expansions come in priority order)"))
    return out


def sorted_optional_keys(model: Model, fn: FunctionInfo) -> list[Lint]:
    """``sorted(param)`` / ``sorted(param.items())`` / ``sorted(param.keys())`` without ``key=`` on a parameter whose
    annotation says the keys (or elements) are ``str | None`` / ``Optional[str]``: comparing None with a str raises
    TypeError as soon as both occur - the author's own annotation says they may."""
    out: list[Lint] = []

    def optional_first(ann) -> bool:
        # Mapping[str | None, X], dict[Optional[str], X], Iterable[str | None], Collection[None | str] ..
        if not isinstance(ann, ast.Subscript):
            return False
        first = ann.slice.elts[0] if isinstance(ann.slice, ast.Tuple) and ann.slice.elts else ann.slice
        txt = ast.unparse(first)
        if isinstance(first, ast.BinOp) and isinstance(first.op, ast.BitOr):
            parts = [x.strip() for x in txt.split("|")]
            return "None" in parts and len(parts) > 1
        return txt.startswith(("Optional[", "typing.Optional[", "t.Optional["))

    params = {}
    for a in fn.node.args.posonlyargs + fn.node.args.args + fn.node.args.kwonlyargs:
        if a.annotation is not None and optional_first(a.annotation):
            params[a.arg] = a
    if not params:
        return out
    stored = {n.id for n in ast.walk(fn.node) if isinstance(n, ast.Name) and isinstance(n.ctx, ast.Store)}
    # the None entry taken out in place beforehand (`groups.pop(None, ..)`, `del groups[None]`, `.discard(None)`)
    for n in ast.walk(fn.node):
        if isinstance(n, ast.Call) and isinstance(n.func, ast.Attribute) and n.func.attr in ("pop", "discard", "remove") and isinstance(n.func.value, ast.Name) and n.args and isinstance(n.args[0], ast.Constant) and n.args[0].value is None:
            stored.add(n.func.value.id)
        if isinstance(n, ast.Delete):
            for t in n.targets:
                if isinstance(t, ast.Subscript) and isinstance(t.value, ast.Name) and isinstance(t.slice, ast.Constant) and t.slice.value is None:
                    stored.add(t.value.id)
    for n in ast.walk(fn.node):
        if not (isinstance(n, ast.Call) and isinstance(n.func, ast.Name) and n.func.id == "sorted" and len(n.args) == 1 and not any(k.arg == "key" for k in n.keywords)):
            continue
        a = n.args[0]
        if isinstance(a, ast.Call) and isinstance(a.func, ast.Attribute) and a.func.attr in ("items", "keys") and not a.args:
            a = a.func.value
        if isinstance(a, ast.Name) and a.id in params and a.id not in stored:
            ann = ast.unparse(params[a.id].annotation)
            out.append(Lint("sorted-optional-keys", fn, n.lineno, a.id, f"`{ast.unparse(n)[:60]}` sorts `{a.id}: {ann[:50]}` as it comes: by its own annotation a None stands next to strings there, and comparing the two raises TypeError - the caller gets that instead of the error this function was about to describe"))
    return out


def module_level_one_shot(model: Model, fn: FunctionInfo) -> list[Lint]:
    """A module-level name bound to a one-shot iterator (generator expression, map / filter / zip ..) and read inside
    a function: the first call that iterates it uses it up, every later call sees an empty iterator."""
    out: list[Lint] = []
    mod = fn.module
    local = {n.id for n in ast.walk(fn.node) if isinstance(n, ast.Name) and isinstance(n.ctx, ast.Store)} | {p.name for p in fn.params}
    for n in ast.walk(fn.node):
        if isinstance(n, ast.Name) and isinstance(n.ctx, ast.Load) and n.id not in local and n.id in mod.constants:
            v = mod.constants[n.id]
            kind = None
            if isinstance(v, ast.GeneratorExp):
                kind = "a generator expression"
            elif isinstance(v, ast.Call) and isinstance(v.func, ast.Name) and v.func.id in ("map", "filter", "zip", "iter", "reversed", "enumerate"):
                kind = f"{v.func.id}(...)"
            if kind is None:
                continue
            out.append(Lint("module-one-shot", fn, n.lineno, n.id, f"`{n.id}` is bound at module level to {kind}, a one-shot iterator, and {fn.name} iterates it: the first call (up to where it stops reading) uses it up, and from then on the loop body never runs / `any(..)` is False / `all(..)` is True - the answer of {fn.name} depends on how often it has been called before"))
    return out


def isdigit_then_int(model: Model, fn: FunctionInfo) -> list[Lint]:
    """``int(s)`` under the test ``s.isdigit()``: str.isdigit is True for characters int() refuses (superscript
    digits '\u00b2', circled digits ..) - ValueError for such a string; str.isdecimal is the matching test."""
    out: list[Lint] = []
    for n in ast.walk(fn.node):
        test = body_nodes = None
        if isinstance(n, ast.IfExp):
            test, body_nodes = n.test, [n.body]
        elif isinstance(n, ast.If):
            test, body_nodes = n.test, n.body
        elif isinstance(n, (ast.ListComp, ast.SetComp, ast.GeneratorExp, ast.DictComp)):
            for g in n.generators:
                for c in g.ifs:
                    out += _isdigit_pair(fn, c, [n.elt] if not isinstance(n, ast.DictComp) else [n.key, n.value])
            continue
        if test is not None:
            out += _isdigit_pair(fn, test, body_nodes)
    return out


def _isdigit_pair(fn: FunctionInfo, test: ast.expr, body_nodes: list) -> list[Lint]:
    out: list[Lint] = []
    tested = [ast.unparse(c.func.value) for c in ast.walk(test) if isinstance(c, ast.Call) and isinstance(c.func, ast.Attribute) and c.func.attr == "isdigit" and not c.args]
    if not tested or any(isinstance(x, ast.Not) for x in ast.walk(test)):
        return out
    for b in body_nodes:
        for c in ast.walk(b):
            if isinstance(c, ast.Call) and isinstance(c.func, ast.Name) and c.func.id == "int" and len(c.args) == 1 and ast.unparse(c.args[0]) in tested:
                out.append(Lint("isdigit-int", fn, c.lineno, ast.unparse(c.args[0])[:30], f"`int({ast.unparse(c.args[0])})` is guarded by `.isdigit()`, which also holds for characters int() does not accept (superscript and other non-decimal digits such as '\u00b2'): a string containing one raises ValueError where the unguarded code path handled it as text; `.isdecimal()` is the test that matches int()"))
    return out


_RE_FLAG_NAMES = {"UNICODE", "U", "IGNORECASE", "I", "MULTILINE", "M", "DOTALL", "S", "VERBOSE", "X", "ASCII", "A", "LOCALE", "L", "DEBUG", "NOFLAG"}


def regex_flag_as_position(model: Model, fn: FunctionInfo) -> list[Lint]:
    """``PATTERN.fullmatch(s, re.UNICODE)``: the second positional argument of the methods of a COMPILED pattern is
    ``pos`` (where matching starts), not flags - re.UNICODE is 32, so the first 32 characters are skipped."""
    out: list[Lint] = []
    for n in ast.walk(fn.node):
        if isinstance(n, ast.Call) and isinstance(n.func, ast.Attribute) and n.func.attr in ("match", "fullmatch", "search", "findall", "finditer") and len(n.args) >= 2:
            recv = n.func.value
            if isinstance(recv, ast.Name) and recv.id == "re" or (isinstance(recv, ast.Attribute) and ast.unparse(recv) == "re"):
                continue  # re.match(pattern, string, flags): there the third argument IS flags
            a = n.args[1]
            flagish = [x for x in ast.walk(a) if isinstance(x, ast.Attribute) and x.attr in _RE_FLAG_NAMES and ast.unparse(x.value) in ("re", "regex")]
            if flagish:
                out.append(Lint("regex-flag-as-pos", fn, n.lineno, ast.unparse(recv)[:30], f"`{ast.unparse(n)[:70]}` passes `{ast.unparse(a)}` as the second positional argument of a compiled pattern's .{n.func.attr}(): that parameter is `pos`, the index where matching starts, not flags - the first {ast.unparse(a)} (= some dozens of) characters of the string are never looked at, so strings are accepted whatever they start with"))
    return out


def scan(model: Model, files: set[str] | None = None) -> tuple[list[Lint], int]:
    """All lints for the functions defined in ``files`` (relative paths under src/curies; None = everything)."""
    out: list[Lint] = []
    n = 0
    _one_shot_producers(model)
    for fn in model.functions.values():
        out += process_global_setting(model, fn)  # process-wide: whichever file it sits in
        out += registered_once_from_arguments(model, fn)
        if files is not None and fn.module.relpath not in files:
            continue
        n += 1
        out += one_shot_reuse(model, fn)
        out += priority_order_lost(model, fn)
        out += sorted_optional_keys(model, fn)
        out += mutable_defaults(model, fn)
        out += bisect_unsorted(model, fn)
        out += mutate_while_iterating(model, fn)
        out += iterable_param_reuse(model, fn)
        out += global_mutable_leak(model, fn)
        out += last_iteration_flag(model, fn)
        out += unbound_after_loop(model, fn)
        out += split_unpack(model, fn)
        out += strip_charset(model, fn)
        out += getter_side_effect(model, fn)
        out += format_on_interpolated(model, fn)
        out += module_level_one_shot(model, fn)
        out += isdigit_then_int(model, fn)
        out += regex_flag_as_position(model, fn)
    return out, n
