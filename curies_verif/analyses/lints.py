"""Package-wide def-use lints over the AST (no values): constructs that are wrong for every input
they are reached with, independent of the property that is hurt.

* ONE-SHOT: a name bound to a one-shot iterator (generator expression, map, filter, zip, iter,
  reversed, enumerate, a call of a generator function of the package) is consumed more than once,
  or is consumed inside a loop (or comprehension) that starts after the binding: from the second
  round on the iterator is empty.
* MUTABLE-DEFAULT: a function's default argument is a mutable display / constructor call and the
  function mutates that parameter or stores it: state leaks between calls.
"""

from __future__ import annotations

import ast
from dataclasses import dataclass

from ..model import FunctionInfo, Model

ONE_SHOT_CALLS = {"map", "filter", "zip", "iter", "reversed", "enumerate"}
CONSUMERS_OK_ONCE = True
MUTATING_METHODS = {"append", "extend", "insert", "remove", "pop", "clear", "sort", "reverse", "update", "add", "discard", "setdefault", "popitem"}


@dataclass
class Lint:
    rule: str
    fn: FunctionInfo
    line: int
    name: str
    message: str


def _is_one_shot(model: Model, fn: FunctionInfo, e: ast.expr) -> str | None:
    if isinstance(e, ast.GeneratorExp):
        return "generator expression"
    if isinstance(e, ast.Call) and isinstance(e.func, ast.Name) and e.func.id in ONE_SHOT_CALLS:
        return f"{e.func.id}(...)"
    if isinstance(e, ast.Call) and isinstance(e.func, ast.Name):
        r = model.resolve_global(fn.module, e.func.id)
        if r and r[0] == "func" and any(isinstance(n, (ast.Yield, ast.YieldFrom)) for n in ast.walk(r[1].node)):
            return f"generator {e.func.id}(...)"
    return None


class _Uses(ast.NodeVisitor):
    """Loads of one name with the stack of enclosing loops / comprehensions at each load."""

    def __init__(self, name: str) -> None:
        self.name = name
        self.stack: list[ast.AST] = []
        self.uses: list[tuple[ast.Name, tuple]] = []

    def visit_Name(self, node: ast.Name) -> None:
        if node.id == self.name and isinstance(node.ctx, ast.Load):
            self.uses.append((node, tuple(self.stack)))

    def _loop(self, node, header_fields, body_fields) -> None:
        for f in header_fields:
            v = getattr(node, f, None)
            for x in v if isinstance(v, list) else [v]:
                if x is not None:
                    self.visit(x)
        self.stack.append(node)
        for f in body_fields:
            for x in getattr(node, f, []):
                self.visit(x)
        self.stack.pop()

    def visit_For(self, node):
        self._loop(node, ["iter"], ["body", "orelse"])

    visit_AsyncFor = visit_For

    def visit_While(self, node):
        self.stack.append(node)
        self.generic_visit(node)
        self.stack.pop()

    def _comp(self, node):
        # the first iterable is evaluated once, everything else once per element
        gens = node.generators
        self.visit(gens[0].iter)
        self.stack.append(node)
        for i, g in enumerate(gens):
            if i > 0:
                self.visit(g.iter)
            for c in g.ifs:
                self.visit(c)
        for f in ("elt", "key", "value"):
            if hasattr(node, f):
                self.visit(getattr(node, f))
        self.stack.pop()

    visit_ListComp = visit_SetComp = visit_DictComp = visit_GeneratorExp = _comp

    def visit_FunctionDef(self, node):
        self.stack.append(node)  # a closure may run any number of times
        self.generic_visit(node)
        self.stack.pop()

    visit_Lambda = visit_AsyncFunctionDef = visit_FunctionDef


def one_shot_reuse(model: Model, fn: FunctionInfo) -> list[Lint]:
    out: list[Lint] = []
    body = fn.node.body
    # candidate bindings: simple `name = <one-shot>` statements at any depth, name assigned exactly once
    assigns: dict[str, list[ast.Assign]] = {}
    for n in ast.walk(fn.node):
        if isinstance(n, ast.Assign) and len(n.targets) == 1 and isinstance(n.targets[0], ast.Name):
            assigns.setdefault(n.targets[0].id, []).append(n)
        elif isinstance(n, (ast.AugAssign, ast.AnnAssign)) and isinstance(getattr(n, "target", None), ast.Name):
            assigns.setdefault(n.target.id, []).append(n)  # type: ignore[arg-type]
        elif isinstance(n, (ast.For, ast.comprehension)):
            for t in ast.walk(n.target):
                if isinstance(t, ast.Name):
                    assigns.setdefault(t.id, []).append(n)  # type: ignore[arg-type]
    for name, sites in assigns.items():
        lines = sorted(getattr(x, "lineno", 0) for x in sites)
        for bind in sites:
            value = getattr(bind, "value", None)
            if not isinstance(bind, (ast.Assign, ast.AnnAssign)) or value is None:
                continue
            kind = _is_one_shot(model, fn, value)
            if kind is None:
                continue
            nxt = min((l for l in lines if l > bind.lineno), default=10**9)  # next (textual) rebinding of the name
            enclosing = _enclosing_loops(fn.node, bind)
            u = _Uses(name)
            for st in body:
                u.visit(st)
            uses = [(node, stack) for node, stack in u.uses if bind.lineno < node.lineno < nxt or (node.lineno == bind.lineno and node.col_offset > bind.col_offset and node.lineno < nxt)]
            inner = [(node, [l for l in stack if l not in enclosing]) for node, stack in uses]
            in_loop = [(node, ls) for node, ls in inner if ls]
            if in_loop:
                node, ls = in_loop[0]
                what = "loop" if isinstance(ls[0], (ast.For, ast.While, ast.AsyncFor)) else ("closure" if isinstance(ls[0], (ast.FunctionDef, ast.Lambda, ast.AsyncFunctionDef)) else "comprehension")
                out.append(Lint("one-shot", fn, node.lineno, name, f"`{name}` is a {kind} created once (line {bind.lineno}) but consumed inside a {what} that runs repeatedly (line {node.lineno}): from the second round on it is exhausted and yields nothing"))
            elif len(uses) > 1:
                a, b = uses[0][0], uses[1][0]
                if not _exclusive(fn.node, a, b):
                    out.append(Lint("one-shot", fn, b.lineno, name, f"`{name}` is a {kind} (line {bind.lineno}) consumed at line {a.lineno} and again at line {b.lineno}: the second consumer sees it exhausted"))
    return out


def _enclosing_loops(root: ast.AST, target: ast.AST) -> list[ast.AST]:
    path: list[ast.AST] = []

    def go(n, stack) -> bool:
        if n is target:
            path.extend(stack)
            return True
        for c in ast.iter_child_nodes(n):
            if go(c, stack + ([n] if isinstance(n, (ast.For, ast.While, ast.AsyncFor, ast.ListComp, ast.SetComp, ast.DictComp, ast.GeneratorExp, ast.FunctionDef, ast.Lambda)) and n is not root else [])):
                return True
        return False

    go(root, [])
    return path


def _exclusive(root: ast.AST, a: ast.AST, b: ast.AST) -> bool:
    """Are the two nodes in different arms of one if / try (never both executed)?"""
    for n in ast.walk(root):
        if isinstance(n, ast.If):
            in_body = lambda x, part: any(x is y for st in part for y in ast.walk(st))  # noqa: E731
            if (in_body(a, n.body) and in_body(b, n.orelse)) or (in_body(b, n.body) and in_body(a, n.orelse)):
                return True
            # early return in the first arm
            if in_body(a, n.body) and n.body and isinstance(n.body[-1], (ast.Return, ast.Raise, ast.Continue, ast.Break)) and not in_body(b, n.body):
                return True
    return False


def mutable_defaults(model: Model, fn: FunctionInfo) -> list[Lint]:
    out: list[Lint] = []
    for p in fn.params:
        d = p.default
        mutable = isinstance(d, (ast.List, ast.Dict, ast.Set)) or (isinstance(d, ast.Call) and isinstance(d.func, ast.Name) and d.func.id in ("list", "dict", "set", "defaultdict"))
        if not mutable:
            continue
        for n in ast.walk(fn.node):
            hit = None
            if isinstance(n, ast.Call) and isinstance(n.func, ast.Attribute) and isinstance(n.func.value, ast.Name) and n.func.value.id == p.name and n.func.attr in MUTATING_METHODS:
                hit = f".{n.func.attr}()"
            elif isinstance(n, (ast.Assign, ast.AugAssign)):
                tgts = n.targets if isinstance(n, ast.Assign) else [n.target]
                for t in tgts:
                    if isinstance(t, ast.Subscript) and isinstance(t.value, ast.Name) and t.value.id == p.name:
                        hit = "item assignment"
                    if isinstance(t, ast.Attribute) and isinstance(n, ast.Assign) and isinstance(n.value, ast.Name) and n.value.id == p.name:
                        hit = f"stored as {ast.unparse(t)}"
            elif isinstance(n, ast.Return) and isinstance(n.value, ast.Name) and n.value.id == p.name:
                hit = "returned to the caller"
            if hit:
                out.append(Lint("mutable-default", fn, n.lineno, p.name, f"parameter `{p.name}` defaults to a mutable `{ast.unparse(d)}` that is shared by all calls and is changed / leaked here ({hit}): one call's data shows up in the next"))
                break
    return out


def bisect_unsorted(model: Model, fn: FunctionInfo) -> list[Lint]:
    """Binary search over a sequence for which the package keeps no sortedness invariant: the
    converter's record list (add_record appends) and the synonym lists of a Record (only _merge
    and add_prefix sort them; the loaders and the constructor keep the given order)."""
    out: list[Lint] = []
    for n in ast.walk(fn.node):
        if not isinstance(n, ast.Call):
            continue
        name = ast.unparse(n.func)
        if not (name.startswith("bisect.") or name in ("bisect_left", "bisect_right", "bisect", "insort", "insort_left", "insort_right")):
            continue
        if not n.args:
            continue
        seq = ast.unparse(n.args[0])
        if seq.endswith(".records") or seq.endswith("_synonyms") or seq.endswith("._all_prefixes") or seq.endswith("._all_uri_prefixes"):
            out.append(Lint("bisect-unsorted", fn, n.lineno, seq.rsplit(".", 1)[-1], f"`{name}({seq}, ...)`: binary search over `{seq}`, which is not kept sorted (add_record appends new records at the end; synonym lists are sorted only by _merge / add_prefix): present entries are missed or the wrong one is hit"))
    return out


def scan(model: Model, files: set[str] | None = None) -> tuple[list[Lint], int]:
    """All lints for the functions defined in ``files`` (relative paths under src/curies; None = everything)."""
    out: list[Lint] = []
    n = 0
    for fn in model.functions.values():
        if files is not None and fn.module.relpath not in files:
            continue
        n += 1
        out += one_shot_reuse(model, fn)
        out += mutable_defaults(model, fn)
        out += bisect_unsorted(model, fn)
    return out, n
