"""String-language abstract interpreter for small predicate functions (DESIGN.md 3, C20).

Computes, from the *body* of a predicate ``f(s) -> bool``, the regular language
``L_true(f) = { s | f(s) is truthy }`` by structural recursion over the AST: regex calls become
automata (RELANG), boolean operators become intersection / union / complement, ``partition``
introduces head / separator / tail *views* of the parameter whose languages are lifted back to
languages of the whole parameter, early returns partition the input space by path condition.
Anything outside the recognised forms raises ``Unsupported`` (-> UNDECIDED, never a verdict).
"""

from __future__ import annotations

import ast

from ..model import AnalysisError, Model, ModuleInfo
from .relang import DFA, Alphabet, Lang, Unsupported, collect_atoms, complement, inter, minimise, union

import re._parser as P


class Raises(Unsupported):
    """The interpreted function raises for the inputs in ``lang`` (an unpacking that cannot succeed)."""

    def __init__(self, msg: str, lang) -> None:
        super().__init__(msg)
        self.lang = lang



class _Subst(ast.NodeTransformer):
    """Replace a loop variable by a string constant (unrolling any()/all() over constant characters)."""

    def __init__(self, name: str, value: str) -> None:
        self.name, self.value = name, value

    def visit_Name(self, node):
        if node.id == self.name:
            return ast.copy_location(ast.Constant(value=self.value), node)
        return node


def module_regexes(model: Model, mod: ModuleInfo) -> dict[str, tuple[str, int]]:
    """name -> (pattern, flags) for module constants that are strings or re.compile(...) results."""
    out = {}
    for name in mod.constants:
        try:
            v = model.const_value(mod, name)
        except AnalysisError:
            continue
        if isinstance(v, tuple) and len(v) == 3 and v[0] == "regex" and isinstance(v[1], str):
            out[name] = (v[1], v[2])
    return out


def module_strings(model: Model, mod: ModuleInfo) -> dict[str, str]:
    out = {}
    for name in mod.constants:
        try:
            v = model.const_value(mod, name)
        except AnalysisError:
            continue
        if isinstance(v, str):
            out[name] = v
    return out


def fold_atoms(base: Alphabet, kinds: set) -> list:
    """Extra atoms that make str.casefold / lower / upper CLASS-UNIFORM: code points are grouped by the
    sequence of base classes of their image, so that one representative per class stands for all."""
    groups: dict = {}
    import bisect as _b

    starts, owners = [], []
    for k, iv in enumerate(base.members):
        for lo, hi in iv:
            starts.append(lo)
            owners.append((hi, k))
    order = sorted(range(len(starts)), key=lambda i: starts[i])
    starts = [starts[i] for i in order]
    owners = [owners[i] for i in order]

    def cls(cp: int) -> int:
        i = _b.bisect_right(starts, cp) - 1
        return owners[i][1]

    fns = [getattr(str, k) for k in sorted(kinds)]
    for cp in range(0x110000):
        if 0xD800 <= cp <= 0xDFFF:
            continue
        ch = chr(cp)
        sig = []
        changed = False
        for f in fns:
            im = f(ch)
            if im != ch:
                changed = True
            sig.append(tuple(cls(ord(x)) for x in im))
        if changed:
            groups.setdefault((cls(cp), tuple(sig)), []).append(cp)
    atoms = []
    for cps in groups.values():
        iv = []
        for cp in cps:
            if iv and iv[-1][1] == cp - 1:
                iv[-1] = (iv[-1][0], cp)
            else:
                iv.append((cp, cp))
        atoms.append(iv)
    return atoms


CHAR_PREDICATES = ("isalpha", "isalnum", "isdigit", "isdecimal", "isnumeric", "isupper_char", "islower_char")
_PRED_CACHE: dict = {}


def predicate_intervals(name: str) -> list:
    """Code points c with ``chr(c).<name>()`` true, as intervals - str.isalpha() & co. are 'non-empty and every
    character satisfies the predicate', so the per-character sets are all that is needed (taken from the str type of
    the interpreter that runs the check, like the whitespace and case-folding tables)."""
    if name in _PRED_CACHE:
        return _PRED_CACHE[name]
    f = getattr(str, name)
    out: list = []
    for cp in range(0x110000):
        if 0xD800 <= cp <= 0xDFFF:
            continue
        if f(chr(cp)):
            if out and out[-1][1] == cp - 1:
                out[-1] = (out[-1][0], cp)
            else:
                out.append((cp, cp))
    _PRED_CACHE[name] = out
    return out


def build_alphabet(patterns: list[tuple[str, int]], extra_chars: str, fold_kinds: set | None = None, char_sets: list | None = None, pred_kinds: set | None = None) -> Alphabet:
    atoms: list = []
    for pk in sorted(pred_kinds or ()):
        atoms.append(predicate_intervals(pk))
    for p, fl in patterns:
        collect_atoms(P.parse(p, fl), atoms)
    for ch in extra_chars:
        atoms.append([(ord(ch), ord(ch))])
    for cs in char_sets or ():
        if cs:
            atoms.append(sorted({(ord(c), ord(c)) for c in cs}))
    from .relang import category_intervals

    atoms.append(list(category_intervals("space")))
    atoms.append([(0, 127)])  # str.isascii
    base = Alphabet(atoms)
    if fold_kinds:
        return Alphabet(atoms + fold_atoms(base, fold_kinds))
    return base


class StrLang:
    def __init__(self, model: Model, mod: ModuleInfo, alpha: Alphabet) -> None:
        self.model = model
        self.mod = mod
        self.alpha = alpha
        self.L = Lang(alpha)
        self.regexes = module_regexes(model, mod)
        self.strings = module_strings(model, mod)
        self.memo: dict[str, DFA] = {}
        from .relang import category_intervals

        self.WS = alpha.classes_of_intervals(category_intervals("space"))
        self.BLANK = self.L.star(self.WS)
        self.used: list[str] = []  # (pattern, method) pairs consulted, for the evidence
        self.fold_kinds: set = set()

    # ------------------------------------------------------------------ views
    def lift(self, lang: DFA, view) -> DFA:
        """Language of the PARAMETER for which the string seen through ``view`` lies in ``lang``.

        Views compose: ('whole',) | ('strip', parent) | (kind, d, parent) with kind one of
        head / sep / tail / rhead / rsep / rtail of a partition at the single character d.
        """
        L = self.L
        kind = view[0]
        if kind == "whole":
            return lang
        if kind == "cond":
            return minimise(union(inter(view[1], self.lift(lang, view[2])), inter(complement(view[1]), self.lift(lang, view[3]))))
        if kind == "truth":
            raise Unsupported("a truth-valued local used as a string")
        if kind == "fold":
            # s.casefold() in lang  <=>  s in h^-1(lang), h the per-character image (a string):
            # run the automaton of lang along h(representative) for every class
            f = getattr(str, view[1])
            k = lang.k if hasattr(lang, "k") else self.alpha.n
            trans = {}
            for q in range(lang.n):
                for c in range(self.alpha.n):
                    s_ = q
                    for x in f(chr(self.alpha.reps[c])):
                        s_ = lang.t[(s_, self.alpha.cls_of(x))]
                    trans[(q, c)] = s_
            here = DFA(self.alpha.n, lang.start, set(lang.acc), trans, lang.n)
            return self.lift(minimise(here), view[2])
        if kind in ("rmprefix", "rmsuffix"):
            # x.removeprefix(p) in lang  <=>  x = p.y with y in lang, or x does not start with p and x in lang
            p_ = L.literal(view[1])
            if kind == "rmprefix":
                has = L.concat(p_, L.SIGMA_STAR)
                here = union(L.concat(p_, lang), inter(complement(has), lang))
            else:
                has = L.concat(L.SIGMA_STAR, p_)
                here = union(L.concat(lang, p_), inter(complement(has), lang))
            return self.lift(minimise(here), view[2])
        if kind == "lit":
            # a literal string: the test does not depend on the parameter at all
            return L.SIGMA_STAR if lang.accepts([self.alpha.cls_of(ch) for ch in view[1]]) else L.EMPTY
        parent = view[-1]
        if kind == "strip":
            # s.strip() in lang  <=>  s in WS* . (lang & T) . WS*, T = no leading/trailing whitespace
            nows = self.alpha.all - self.WS
            edge = L.sym(nows)
            T = union(L.EPS, union(edge, L.concat(edge, L.SIGMA_STAR, edge)))
            here = minimise(L.concat(self.BLANK, inter(lang, T), self.BLANK))
            return self.lift(here, parent)
        d = view[1]
        if len(d) != 1:
            raise Unsupported("multi-character partition separator")
        D = L.literal(d)
        NOD = L.free_of(d)
        eps_in = lang.start in lang.acc
        if kind == "head":
            here = L.concat(inter(lang, NOD), union(L.EPS, L.concat(D, L.SIGMA_STAR)))
        elif kind == "tail":
            r = L.concat(NOD, D, lang)
            here = union(r, NOD) if eps_in else r
        elif kind == "rtail":
            r = L.concat(L.SIGMA_STAR, D, inter(lang, NOD))
            here = union(r, inter(lang, NOD))
        elif kind == "rhead":
            r = L.concat(lang, D, NOD)
            here = union(r, NOD) if eps_in else r
        elif kind == "septail":
            # the part from the first d on (d included); a string without d is seen whole (position -1 counts as 0)
            here = union(L.concat(NOD, inter(lang, L.startswith(d))), inter(NOD, lang))
        elif kind in ("sep", "rsep"):
            has_d = lang.accepts([self.alpha.cls_of(d)])
            r = L.contains(d) if has_d else L.EMPTY
            here = union(r, NOD) if eps_in else r
        else:
            raise Unsupported(f"view {view}")
        return self.lift(minimise(here), parent)

    # ------------------------------------------------------------------ functions
    def lang_true(self, fname: str, consts: tuple = ()) -> DFA:
        """L_true of ``fname``; ``consts`` binds further parameters to module constants (pattern objects)."""
        key = (fname, consts)
        if key in self.memo:
            return self.memo[key]
        fn = self.mod.functions.get(fname)
        if fn is None:
            raise AnalysisError(f"predicate {fname} not found in {self.mod.name}")
        node = fn.node
        params = [a.arg for a in node.args.args + node.args.kwonlyargs]
        bound = dict(consts)
        # integer parameters with a constant default (a start position) take that default unless bound by the caller
        defaults = dict(zip(reversed([a.arg for a in node.args.args]), reversed(node.args.defaults)))
        defaults.update({a.arg: d for a, d in zip(node.args.kwonlyargs, node.args.kw_defaults) if d is not None})
        posviews = {}
        bools = {}
        for pname, val in list(bound.items()):
            if isinstance(val, tuple) and val and val[0] in ("idx", "idxafter", "posconst"):
                posviews[pname] = val
                del bound[pname]
            elif isinstance(val, tuple) and val and val[0] == "boolconst":
                bools[pname] = val[1]
                del bound[pname]
        # boolean switches the caller leaves alone take their defaults
        for pname in params:
            d0 = defaults.get(pname)
            if pname not in bound and pname not in bools and isinstance(d0, ast.Constant) and isinstance(d0.value, bool):
                bools[pname] = d0.value
        for pname in params:
            d0 = defaults.get(pname)
            if pname not in bound and pname not in posviews and isinstance(d0, ast.Constant) and isinstance(d0.value, int) and not isinstance(d0.value, bool):
                posviews[pname] = ("posconst", d0.value)
        # a parameter with a string default that the call does not bind: the language decided is that of the call
        # the property speaks about, where the default applies (is_w3c_curie(s) with sep=":")
        str_defaults = {}
        if len([p for p in params if p not in bound and p not in posviews and p not in bools]) > 1:
            for pname in params:
                d0 = defaults.get(pname)
                if pname not in bound and pname not in posviews and isinstance(d0, ast.Constant) and isinstance(d0.value, str):
                    str_defaults[pname] = d0.value
        free = [p for p in params if p not in bound and p not in posviews and p not in str_defaults and p not in bools]
        if len(free) != 1:
            raise Unsupported(f"{fname} does not take exactly one string parameter")
        views = {free[0]: ("whole",)}
        if any(v[0] != "posconst" for v in posviews.values()):
            # position views refer to the caller's string: re-anchor them on this function's parameter
            posviews = {k: ((v[0], v[1], ("whole",), free[0]) if v[0] in ("idx", "idxafter") else v) for k, v in posviews.items()}
        views.update(posviews)
        saved = (dict(self.regexes), dict(self.strings))
        saved_bools = dict(getattr(self, "bools", {}))
        self.bools = {**saved_bools, **bools}
        for pname, cname in bound.items():
            if cname in saved[0]:
                self.regexes[pname] = saved[0][cname]
            elif cname in saved[1]:
                self.strings[pname] = saved[1][cname]
        for pname, sval in str_defaults.items():
            self.strings[pname] = sval
        try:
            res, _ = self._block(node.body, self.L.SIGMA_STAR, views)
        finally:
            self.regexes, self.strings = saved
            self.bools = saved_bools
        res = minimise(res)
        self.memo[key] = res
        return res

    def _block(self, stmts, pc: DFA, views: dict):
        L = self.L
        res = L.EMPTY
        for st in stmts:
            if isinstance(st, ast.Expr) and isinstance(st.value, ast.Constant):
                continue
            if isinstance(st, ast.Return):
                val = self._truth(st.value, views) if st.value is not None else L.EMPTY
                return union(res, inter(pc, val)), L.EMPTY
            if isinstance(st, ast.If):
                c = self._truth(st.test, views)
                v1, v2 = dict(views), dict(views)
                r1, p1 = self._block(st.body, inter(pc, c), v1)
                r2, p2 = self._block(st.orelse, inter(pc, complement(c)), v2)
                res = union(res, union(r1, r2))
                pc = minimise(union(p1, p2))
                # merge what the two branches assigned
                for name in set(v1) | set(v2):
                    a, b = v1.get(name), v2.get(name)
                    if a == b and a is not None:
                        views[name] = a
                    elif a is not None and b is not None and a[0] == "truth" and b[0] == "truth":
                        views[name] = ("truth", minimise(union(inter(c, a[1]), inter(complement(c), b[1]))))
                    elif a is not None and b is not None and a[0] != "truth" and b[0] != "truth":
                        views[name] = ("cond", c, a, b)
                    else:
                        views.pop(name, None)
                continue
            if isinstance(st, ast.Assign) and len(st.targets) == 1:
                tgt, v = st.targets[0], st.value
                if (
                    isinstance(tgt, ast.Tuple)
                    and len(tgt.elts) == 3
                    and isinstance(v, ast.Call)
                    and isinstance(v.func, ast.Attribute)
                    and v.func.attr in ("partition", "rpartition")
                    and isinstance(v.func.value, ast.Name)
                    and v.func.value.id in views
                    and len(v.args) == 1
                ):
                    d = self._const_str(v.args[0])
                    parent = views[v.func.value.id]
                    kinds = ("head", "sep", "tail") if v.func.attr == "partition" else ("rhead", "rsep", "rtail")
                    for t, kind in zip(tgt.elts, kinds):
                        if not isinstance(t, ast.Name):
                            raise Unsupported("partition target")
                        views[t.id] = (kind, d, parent)
                    continue
                cf = self._charflags(v, views)
                if cf is not None and isinstance(tgt, ast.Name):
                    views[tgt.id] = cf  # flags = [c.isspace() for c in s]  /  list(map(str.isspace, s))
                    continue
                sp = self._split1(v, views)
                if sp is not None and isinstance(tgt, ast.Name):
                    views[tgt.id] = sp  # pieces = s.split(d, 1)
                    continue
                if sp is not None and isinstance(tgt, (ast.Tuple, ast.List)) and len(tgt.elts) == 2 and isinstance(tgt.elts[0], ast.Name):
                    _, d, parent = sp
                    if isinstance(tgt.elts[1], ast.Name):
                        # head, tail = s.split(d, 1): raises when d is absent; where it runs, the parts of the first d
                        self._must_hold(pc, self.lift(L.contains(d), parent), "unpacking two parts of a split that may have one")
                        views[tgt.elts[0].id] = ("head", d, parent)
                        views[tgt.elts[1].id] = ("tail", d, parent)
                        continue
                    if isinstance(tgt.elts[1], ast.Starred) and isinstance(tgt.elts[1].value, ast.Name):
                        views[tgt.elts[0].id] = ("head", d, parent)
                        views[tgt.elts[1].value.id] = ("rest1", d, parent)
                        continue
                if isinstance(tgt, (ast.Tuple, ast.List)) and len(tgt.elts) == 1 and isinstance(tgt.elts[0], ast.Name) and isinstance(v, ast.Name) and v.id in views and views[v.id][0] == "rest1":
                    self._must_hold(pc, self.lift(L.contains(views[v.id][1]), views[v.id][2]), "unpacking the rest of a split that may be empty")
                    views[tgt.elts[0].id] = ("tail", views[v.id][1], views[v.id][2])
                    continue
                if (
                    isinstance(tgt, ast.Name)
                    and isinstance(v, ast.Call)
                    and isinstance(v.func, ast.Attribute)
                    and v.func.attr == "strip"
                    and not v.args
                    and isinstance(v.func.value, ast.Name)
                    and v.func.value.id in views
                ):
                    views[tgt.id] = ("strip", views[v.func.value.id])
                    continue
                if isinstance(tgt, ast.Name) and isinstance(v, ast.Name) and v.id in views:
                    views[tgt.id] = views[v.id]
                    continue
                if isinstance(tgt, ast.Name) and isinstance(v, ast.IfExp):
                    try:
                        views[tgt.id] = self._view_of(v, views)
                        continue
                    except Unsupported:
                        pass
                if isinstance(tgt, ast.Name) and isinstance(v, ast.Call) and isinstance(v.func, ast.Attribute) and v.func.attr in ("removeprefix", "removesuffix") and len(v.args) == 1:
                    views[tgt.id] = self._view_of(v, views)
                    continue
                if isinstance(tgt, ast.Name) and isinstance(v, ast.Call) and isinstance(v.func, ast.Attribute) and v.func.attr in ("casefold", "lower", "upper") and not v.args:
                    try:
                        views[tgt.id] = self._view_of(v, views)
                        continue
                    except Unsupported:
                        pass
                if isinstance(tgt, ast.Name) and isinstance(v, ast.Constant) and isinstance(v.value, str):
                    views[tgt.id] = ("lit", v.value)
                    continue
                if isinstance(tgt, ast.Tuple) and isinstance(v, ast.Tuple) and len(tgt.elts) == len(v.elts) and all(isinstance(t, ast.Name) for t in tgt.elts):
                    new = []
                    for t, x in zip(tgt.elts, v.elts):
                        if isinstance(x, ast.Constant) and isinstance(x.value, str):
                            new.append(("lit", x.value))
                        elif isinstance(x, ast.Name) and x.id in views:
                            new.append(views[x.id])
                        else:
                            new = None
                            break
                    if new is not None:
                        for t, w in zip(tgt.elts, new):
                            views[t.id] = w
                        continue
                if (
                    isinstance(tgt, ast.Name)
                    and isinstance(v, ast.Call)
                    and isinstance(v.func, ast.Attribute)
                    and v.func.attr in ("find", "index")
                    and isinstance(v.func.value, ast.Name)
                    and v.func.value.id in views
                    and len(v.args) == 1
                    and v.func.attr == "find"
                ):
                    views[tgt.id] = ("idx", self._const_str(v.args[0]), views[v.func.value.id], v.func.value.id)
                    continue
                if isinstance(tgt, ast.Name) and isinstance(v, ast.Subscript):
                    try:
                        views[tgt.id] = self._view_of(v, views)
                        continue
                    except Unsupported:
                        pass
                if isinstance(tgt, ast.Name) and tgt.id not in views:
                    # a local holding a truth value (`ok = not prefix or is_w3c_prefix(prefix)`, `m = RE.fullmatch(s)`):
                    # remember the language of inputs for which it is truthy
                    try:
                        views[tgt.id] = ("truth", self._truth(v, views))
                        continue
                    except Unsupported:
                        pass
            if isinstance(st, ast.Pass):
                continue
            if isinstance(st, ast.For) and not st.orelse and isinstance(st.target, ast.Name) and isinstance(st.iter, ast.Name) and st.iter.id in views and len(st.body) == 1 and isinstance(st.body[0], ast.If) and not st.body[0].orelse:
                # for ch in s: if <predicate on ch>: return <constant>   ==   "some character of s satisfies the predicate"
                inner = st.body[0]
                if len(inner.body) == 1 and isinstance(inner.body[0], ast.Return) and isinstance(inner.body[0].value, ast.Constant) and isinstance(inner.body[0].value.value, bool):
                    cls = self._char_classes(inner.test, st.target.id)
                    some = self.lift(minimise(L.concat(L.SIGMA_STAR, L.sym(cls), L.SIGMA_STAR)), views[st.iter.id])
                    if inner.body[0].value.value:
                        res = union(res, inter(pc, some))
                    pc = minimise(inter(pc, complement(some)))
                    continue
            raise Unsupported(f"statement `{ast.unparse(st)[:60]}`")
        return res, pc

    def _char_classes(self, test, var: str) -> frozenset:
        """Alphabet classes of the characters c (the loop variable) for which ``test`` is true."""
        if isinstance(test, ast.UnaryOp) and isinstance(test.op, ast.Not):
            return self.alpha.all - self._char_classes(test.operand, var)
        if isinstance(test, ast.BoolOp):
            parts = [self._char_classes(v, var) for v in test.values]
            out = parts[0]
            for x in parts[1:]:
                out = (out & x) if isinstance(test.op, ast.And) else (out | x)
            return out
        if isinstance(test, ast.Call) and isinstance(test.func, ast.Attribute) and isinstance(test.func.value, ast.Name) and test.func.value.id == var and not test.args:
            if test.func.attr == "isspace":
                return self.WS
            if test.func.attr == "isascii":
                return self.alpha.classes_of_intervals([(0, 127)])
        if isinstance(test, ast.Compare) and len(test.ops) == 1 and isinstance(test.left, ast.Name) and test.left.id == var:
            o, b = test.ops[0], test.comparators[0]
            if isinstance(o, (ast.In, ast.NotIn)):
                chars = self._char_set(b)
                c = self.alpha.classes_of_chars(chars)
                return c if isinstance(o, ast.In) else self.alpha.all - c
            if isinstance(o, (ast.Eq, ast.NotEq)):
                ch = self._const_str(b)
                if len(ch) == 1:
                    c = self.alpha.classes_of_chars(ch)
                    return c if isinstance(o, ast.Eq) else self.alpha.all - c
        raise Unsupported(f"character test `{ast.unparse(test)[:50]}`")

    def _char_set(self, e) -> str:
        """A constant collection of single characters (string, or set/frozenset/tuple/list of 1-char strings)."""
        try:
            return self._const_str(e)
        except Unsupported:
            pass
        try:
            v = self.model.fold(self.mod, e)
        except Exception as ex:  # noqa: BLE001
            raise Unsupported(f"character set `{ast.unparse(e)[:40]}`") from ex
        if isinstance(v, tuple) and v and v[0] in ("frozenset", "set") and len(v) == 2:
            v = v[1]
        if isinstance(v, str):
            return v
        if isinstance(v, (set, frozenset, list, tuple)) and all(isinstance(x, str) and len(x) == 1 for x in v):
            return "".join(sorted(v))
        raise Unsupported(f"character set `{ast.unparse(e)[:40]}`")

    def _const_str(self, e) -> str:
        if isinstance(e, ast.Constant) and isinstance(e.value, str):
            return e.value
        if isinstance(e, ast.Name) and e.id in self.strings:
            return self.strings[e.id]
        raise Unsupported(f"non-constant string `{ast.unparse(e)[:40]}`")

    def _pattern(self, e) -> tuple[str, int]:
        if isinstance(e, ast.Name) and e.id in self.regexes:
            return self.regexes[e.id]
        if isinstance(e, ast.Name) and e.id in self.strings:
            return self.strings[e.id], 0
        if isinstance(e, ast.Constant) and isinstance(e.value, str):
            return e.value, 0
        if isinstance(e, ast.JoinedStr):
            try:
                return self.model.fold(self.mod, e), 0
            except AnalysisError:
                pass
        raise Unsupported(f"pattern `{ast.unparse(e)[:40]}` is not a module constant")

    def _must_hold(self, pc: DFA, cond: DFA, what: str) -> None:
        """The statement raises for inputs outside ``cond``: every input that reaches it must be inside."""
        from .relang import witness

        bad = minimise(inter(pc, complement(cond)))
        w = witness(bad)
        if w is not None:
            raise Raises(f"{what} (e.g. for {self.alpha.word(w)!r}): the validator would raise instead of answering", bad)

    _CHAR_PREDICATES = {"isspace": "space"}

    def _charflags(self, v, views):
        """A materialised list of per-character flags: ('charflags', classes for which the flag is true, view)."""
        from .relang import category_intervals

        def classes(pred):
            cat = self._CHAR_PREDICATES.get(pred)
            return self.alpha.classes_of_intervals(category_intervals(cat)) if cat else None

        inner = v
        if isinstance(v, ast.Call) and isinstance(v.func, ast.Name) and v.func.id in ("list", "tuple") and len(v.args) == 1:
            inner = v.args[0]
            if isinstance(inner, ast.Call) and isinstance(inner.func, ast.Name) and inner.func.id == "map" and len(inner.args) == 2 and isinstance(inner.args[0], ast.Attribute) and isinstance(inner.args[0].value, ast.Name) and inner.args[0].value.id == "str" and isinstance(inner.args[1], ast.Name) and inner.args[1].id in views:
                cls = classes(inner.args[0].attr)
                if cls is not None:
                    return ("charflags", cls, views[inner.args[1].id])
        if isinstance(inner, (ast.ListComp,)) or (inner is not v and isinstance(inner, ast.GeneratorExp)):
            g = inner.generators
            if len(g) == 1 and not g[0].ifs and isinstance(g[0].target, ast.Name) and isinstance(g[0].iter, ast.Name) and g[0].iter.id in views and isinstance(inner.elt, ast.Call) and isinstance(inner.elt.func, ast.Attribute) and isinstance(inner.elt.func.value, ast.Name) and inner.elt.func.value.id == g[0].target.id and not inner.elt.args:
                cls = classes(inner.elt.func.attr)
                if cls is not None:
                    return ("charflags", cls, views[g[0].iter.id])
        return None

    def _pos_of(self, e, views):
        """A position expression: ('idx', d, view, name) = s.find(d); ('idxafter', ..) = s.find(d) + len(d); ('posconst', k)."""
        if isinstance(e, ast.Constant) and isinstance(e.value, int) and not isinstance(e.value, bool):
            return ("posconst", e.value)
        if isinstance(e, ast.Name) and e.id in views and views[e.id][0] in ("idx", "idxafter", "posconst"):
            return views[e.id]
        if isinstance(e, ast.BinOp) and isinstance(e.op, ast.Add):
            for a, b in ((e.left, e.right), (e.right, e.left)):
                pa = self._pos_of(a, views)
                if pa is not None and pa[0] == "idx":
                    if isinstance(b, ast.Constant) and b.value == len(pa[1]):
                        return ("idxafter",) + pa[1:]
                    if isinstance(b, ast.Call) and isinstance(b.func, ast.Name) and b.func.id == "len" and len(b.args) == 1:
                        try:
                            if self._const_str(b.args[0]) == pa[1]:
                                return ("idxafter",) + pa[1:]
                        except Unsupported:
                            pass
        return None

    def _split1(self, v, views):
        """``s.split(d, 1)`` (or a name bound to it): ('split1', d, view of s)."""
        if isinstance(v, ast.Name) and v.id in views and views[v.id][0] == "split1":
            return views[v.id]
        if isinstance(v, ast.Call) and isinstance(v.func, ast.Attribute) and v.func.attr == "split" and isinstance(v.func.value, ast.Name) and v.func.value.id in views and views[v.func.value.id][0] not in ("truth", "idx", "split1", "rest1"):
            ms = v.args[1] if len(v.args) == 2 else next((k.value for k in v.keywords if k.arg == "maxsplit"), None)
            if len(v.args) in (1, 2) and isinstance(ms, ast.Constant) and ms.value == 1 and all(k.arg == "maxsplit" for k in v.keywords):
                d = self._const_str(v.args[0])
                if len(d) != 1:
                    raise Unsupported("multi-character split separator")
                return ("split1", d, views[v.func.value.id])
        return None

    def _view_of(self, e, views):
        if isinstance(e, ast.Subscript) and isinstance(e.value, ast.Name) and e.value.id in views and views[e.value.id][0] in ("split1", "rest1") and isinstance(e.slice, (ast.Constant, ast.UnaryOp)):
            try:
                k = ast.literal_eval(e.slice)
            except Exception:  # noqa: BLE001
                k = None
            kind, d, parent = views[e.value.id]
            if kind == "split1" and k == 0:
                return ("head", d, parent)
            if kind == "split1" and k == 1 or kind == "rest1" and k in (0, -1):
                return ("tail", d, parent)
            raise Unsupported(f"index `{ast.unparse(e)[:30]}` of a split")
        if isinstance(e, ast.Call) and isinstance(e.func, ast.Attribute) and e.func.attr in ("casefold", "lower", "upper") and not e.args and not e.keywords:
            if e.func.attr not in self.fold_kinds:
                raise Unsupported(f"str.{e.func.attr}() view without a fold-uniform alphabet")
            return ("fold", e.func.attr, self._view_of(e.func.value, views))
        if isinstance(e, ast.IfExp):
            # a if c else b: seen through a where c holds, through b elsewhere
            return ("cond", self._truth(e.test, views), self._view_of(e.body, views), self._view_of(e.orelse, views))
        if isinstance(e, ast.Call) and isinstance(e.func, ast.Attribute) and e.func.attr in ("removeprefix", "removesuffix") and len(e.args) == 1 and not e.keywords:
            return ("rmprefix" if e.func.attr == "removeprefix" else "rmsuffix", self._const_str(e.args[0]), self._view_of(e.func.value, views))
        if isinstance(e, ast.Name) and e.id in views:
            if views[e.id][0] in ("truth", "idx", "idxafter", "posconst", "charflags"):
                raise Unsupported(f"`{e.id}` is not a string")
            return views[e.id]
        if isinstance(e, ast.Subscript) and isinstance(e.slice, ast.Slice) and isinstance(e.value, ast.Name) and e.value.id in views and e.slice.step is None:
            lo, hi = e.slice.lower, e.slice.upper
            # s[:i] / s[i + len(d):] with i = s.find(d): head / tail of the partition at the first d
            def idx_of(n):
                return views[n.id] if isinstance(n, ast.Name) and n.id in views and views[n.id][0] == "idx" and views[n.id][3] == e.value.id else None

            if lo is None and hi is not None and idx_of(hi):
                ix = idx_of(hi)
                return ("head", ix[1], ix[2])
            if hi is None and isinstance(lo, ast.BinOp) and isinstance(lo.op, ast.Add) and idx_of(lo.left) and isinstance(lo.right, ast.Constant):
                ix = idx_of(lo.left)
                if lo.right.value == len(ix[1]):
                    return ("tail", ix[1], ix[2])
        raise Unsupported(f"argument `{ast.unparse(e)[:40]}` is not the parameter or a partition part of it")

    def _truth(self, e, views) -> DFA:
        """Language (over the parameter) of inputs for which ``e`` is truthy."""
        L = self.L
        if isinstance(e, ast.Constant):
            return L.SIGMA_STAR if e.value else L.EMPTY
        if isinstance(e, ast.Name) and e.id not in views and e.id in getattr(self, "bools", {}):
            return L.SIGMA_STAR if self.bools[e.id] else L.EMPTY  # a boolean switch with a known value
        if isinstance(e, ast.Name) and e.id not in views and isinstance(self.strings.get(e.id), str):
            return L.SIGMA_STAR if self.strings[e.id] else L.EMPTY  # a name bound to a string constant
        if isinstance(e, ast.Name) and e.id in views:
            if views[e.id][0] == "truth":
                return views[e.id][1]
            if views[e.id][0] == "rest1":
                return self.lift(L.contains(views[e.id][1]), views[e.id][2])  # the part after the first d exists
            if views[e.id][0] == "split1":
                return L.SIGMA_STAR  # split always yields at least one piece
            return self.lift(L.nonempty(), views[e.id])
        if isinstance(e, ast.Compare) and len(e.ops) == 1 and isinstance(e.left, ast.Call) and isinstance(e.left.func, ast.Name) and e.left.func.id == "len" and len(e.left.args) == 1 and isinstance(e.left.args[0], ast.Name) and e.left.args[0].id in views and views[e.left.args[0].id][0] in ("split1", "rest1") and isinstance(e.comparators[0], ast.Constant) and isinstance(e.comparators[0].value, int):
            # the number of pieces is 2 where d occurs, else 1 (for the starred rest: 1 / 0)
            kind, d, parent = views[e.left.args[0].id]
            present = self.lift(L.contains(d), parent)
            hi, lo = (2, 1) if kind == "split1" else (1, 0)
            import operator as _o

            cmpf = {ast.Eq: _o.eq, ast.NotEq: _o.ne, ast.Lt: _o.lt, ast.LtE: _o.le, ast.Gt: _o.gt, ast.GtE: _o.ge}.get(type(e.ops[0]))
            if cmpf is not None:
                n = e.comparators[0].value
                t_hi, t_lo = cmpf(hi, n), cmpf(lo, n)
                return union(inter(present, L.SIGMA_STAR if t_hi else L.EMPTY), inter(complement(present), L.SIGMA_STAR if t_lo else L.EMPTY))
        if isinstance(e, ast.UnaryOp) and isinstance(e.op, ast.Not):
            return complement(self._truth(e.operand, views))
        if isinstance(e, ast.BoolOp):
            ls = [self._truth(v, views) for v in e.values]
            r = ls[0]
            for x in ls[1:]:
                r = minimise(inter(r, x) if isinstance(e.op, ast.And) else union(r, x))
            return r
        if isinstance(e, ast.IfExp):
            c = self._truth(e.test, views)
            return union(inter(c, self._truth(e.body, views)), inter(complement(c), self._truth(e.orelse, views)))
        if isinstance(e, ast.Compare) and len(e.ops) == 1:
            o, a, b = e.ops[0], e.left, e.comparators[0]
            if isinstance(o, (ast.Eq, ast.NotEq)):
                # <str-valued call> == "": the string is empty, i.e. falsy
                for x, y in ((a, b), (b, a)):
                    if isinstance(y, ast.Constant) and y.value == "" and isinstance(x, ast.Call) and isinstance(x.func, ast.Attribute) and x.func.attr in ("strip", "lstrip", "rstrip") and not x.args and not x.keywords:
                        r = self._truth(x, views)
                        return complement(r) if isinstance(o, ast.Eq) else r
            if isinstance(o, (ast.In, ast.NotIn)) and isinstance(b, ast.Name) and b.id in views:
                r = self.lift(L.contains(self._const_str(a)), views[b.id])
                return complement(r) if isinstance(o, ast.NotIn) else r
            if isinstance(o, (ast.Is, ast.IsNot, ast.Eq, ast.NotEq)) and isinstance(b, ast.Constant) and b.value is None:
                r = self._truth(a, views)  # a match object is truthy iff it is not None
                return complement(r) if isinstance(o, (ast.Is, ast.Eq)) else r
            if isinstance(o, (ast.Eq, ast.NotEq)) and isinstance(a, ast.Name) and a.id in views and isinstance(b, ast.Constant) and isinstance(b.value, str):
                r = self.lift(L.literal(b.value), views[a.id])
                return complement(r) if isinstance(o, ast.NotEq) else r
            if isinstance(a, ast.Name) and a.id in views and views[a.id][0] == "idx" and isinstance(b, (ast.Constant, ast.UnaryOp)):
                try:
                    num = ast.literal_eval(b)
                except Exception:  # noqa: BLE001
                    num = None
                ix = views[a.id]
                present = self.lift(L.contains(ix[1]), ix[2])
                at0 = self.lift(L.startswith(ix[1]), ix[2])
                table = None
                if num == -1 and isinstance(o, (ast.Eq, ast.LtE)) or num == 0 and isinstance(o, ast.Lt):
                    table = complement(present)
                elif num == -1 and isinstance(o, (ast.NotEq, ast.Gt)) or num == 0 and isinstance(o, ast.GtE):
                    table = present
                elif num == 0 and isinstance(o, ast.Eq):
                    table = at0
                elif num == 0 and isinstance(o, ast.NotEq):
                    table = complement(at0)
                elif num == 0 and isinstance(o, ast.Gt):
                    table = inter(present, complement(at0))
                elif num == 0 and isinstance(o, ast.LtE):
                    table = union(complement(present), at0)
                if table is not None:
                    return table
            if (
                isinstance(a, ast.Call) and isinstance(a.func, ast.Name) and a.func.id == "len" and len(a.args) == 1
                and isinstance(a.args[0], ast.Call) and isinstance(a.args[0].func, ast.Attribute) and a.args[0].func.attr == "split" and not a.args[0].args and not a.args[0].keywords
                and isinstance(a.args[0].func.value, ast.Name) and a.args[0].func.value.id in views
                and isinstance(b, ast.Constant) and isinstance(b.value, int) and not isinstance(b.value, bool) and 0 <= b.value <= 4
            ):
                # len(s.split()) <op> n: the number of whitespace-separated tokens (leading / trailing blanks are
                # dropped by str.split(): ' a ' has ONE token)
                import operator as _o3

                cmpf = {ast.Eq: _o3.eq, ast.NotEq: _o3.ne, ast.Lt: _o3.lt, ast.LtE: _o3.le, ast.Gt: _o3.gt, ast.GtE: _o3.ge}.get(type(o))
                if cmpf is not None:
                    ws, nw = L.sym(self.WS), L.sym(self.alpha.all - self.WS)
                    ws_star, ws_plus, tok = L.star(self.WS), minimise(L.concat(ws, L.star(self.WS))), minimise(L.concat(nw, L.star(self.alpha.all - self.WS)))
                    n_ = b.value
                    exact = [ws_star]
                    for k_ in range(1, n_ + 2):
                        body = tok
                        for _ in range(k_ - 1):
                            body = minimise(L.concat(body, L.concat(ws_plus, tok)))
                        exact.append(minimise(L.concat(ws_star, L.concat(body, ws_star))))
                    lang = L.EMPTY
                    upto = L.EMPTY
                    for k_ in range(n_ + 1):
                        upto = minimise(union(upto, exact[k_]))
                        if cmpf(k_, n_):
                            lang = minimise(union(lang, exact[k_]))
                    if cmpf(n_ + 1, n_):
                        lang = minimise(union(lang, complement(upto)))  # more than n tokens
                    return self.lift(lang, views[a.args[0].func.value.id])
            if isinstance(a, ast.Call) and isinstance(a.func, ast.Name) and a.func.id == "len" and len(a.args) == 1 and isinstance(b, ast.Constant) and isinstance(b.value, int) and not isinstance(b.value, bool) and 0 <= b.value <= 8 and not (b.value == 0 and isinstance(o, (ast.Eq, ast.NotEq, ast.Gt))):
                # len(s) <op> n: the strings of the lengths that satisfy it (0 .. n, or everything longer)
                import operator as _o2

                cmpf = {ast.Eq: _o2.eq, ast.NotEq: _o2.ne, ast.Lt: _o2.lt, ast.LtE: _o2.le, ast.Gt: _o2.gt, ast.GtE: _o2.ge}.get(type(o))
                if cmpf is not None:
                    n_ = b.value
                    any1 = L.sym(self.alpha.all)
                    exact = [L.EPS]
                    for _ in range(n_ + 1):
                        exact.append(minimise(L.concat(exact[-1], any1)))
                    lang = L.EMPTY
                    for k_ in range(n_ + 2):
                        if cmpf(k_, n_):
                            # lengths 0 .. n+1 individually; n+1 stands for "n+1 or more" when the relation keeps holding
                            piece = exact[k_] if k_ <= n_ else minimise(L.concat(exact[n_ + 1], L.SIGMA_STAR))
                            lang = minimise(union(lang, piece))
                    return self.lift(lang, self._view_of(a.args[0], views))
            if isinstance(a, ast.Call) and isinstance(a.func, ast.Name) and a.func.id == "len" and isinstance(b, ast.Constant) and b.value == 0 and isinstance(o, (ast.Eq, ast.NotEq, ast.Gt)):
                r = self.lift(L.EPS, self._view_of(a.args[0], views))
                return r if isinstance(o, ast.Eq) else complement(r)
        if isinstance(e, ast.Call):
            f = e.func
            if isinstance(f, ast.Name) and f.id == "bool" and len(e.args) == 1:
                return self._truth(e.args[0], views)
            if isinstance(f, ast.Name) and f.id in self.mod.functions and len(e.args) == 1 and not e.keywords:
                return self.lift(self.lang_true(f.id), self._view_of(e.args[0], views))
            if isinstance(f, ast.Name) and f.id in self.mod.functions and len(e.args) == 1 and e.keywords and all(k.arg is not None and isinstance(k.value, ast.Constant) and isinstance(k.value.value, bool) for k in e.keywords):
                # a helper called with boolean switches: its language for exactly these switch values
                consts = tuple((k.arg, ("boolconst", k.value.value)) for k in e.keywords)
                return self.lift(self.lang_true(f.id, consts), self._view_of(e.args[0], views))
            if isinstance(f, ast.Name) and f.id in self.mod.functions and not e.keywords and len(e.args) >= 2:
                # helper taking pattern constant(s) plus one string: bind the constants by name
                callee = self.mod.functions[f.id].node
                names = [a.arg for a in callee.args.args]
                if len(names) == len(e.args):
                    consts, sarg = [], None
                    for pname, a in zip(names, e.args):
                        pv = self._pos_of(a, views)
                        if isinstance(a, ast.Name) and (a.id in self.regexes or a.id in self.strings) and a.id not in views:
                            consts.append((pname, a.id))
                        elif pv is not None:
                            consts.append((pname, pv[:2] if pv[0] != "posconst" else pv))
                            if pv[0] != "posconst" and sarg not in (None, False) and not (isinstance(sarg, ast.Name) and sarg.id == pv[3]):
                                sarg = False
                        elif sarg is None:
                            sarg = a
                        else:
                            sarg = False
                    if sarg not in (None, False):
                        return self.lift(self.lang_true(f.id, tuple(consts)), self._view_of(sarg, views))
            if isinstance(f, ast.Name) and f.id in ("any", "all") and len(e.args) == 1 and isinstance(e.args[0], ast.Name) and e.args[0].id in views and views[e.args[0].id][0] == "charflags":
                _, cls, base = views[e.args[0].id]
                if f.id == "all":
                    return self.lift(L.star(cls), base)  # every character has the property (true for '')
                return self.lift(L.concat(L.SIGMA_STAR, L.sym(cls), L.SIGMA_STAR), base)
            if isinstance(f, ast.Name) and f.id in ("any", "all") and len(e.args) == 1 and isinstance(e.args[0], (ast.GeneratorExp, ast.ListComp)):
                g = e.args[0]
                if len(g.generators) == 1 and not g.generators[0].ifs and isinstance(g.generators[0].target, ast.Name):
                    try:
                        chars = self._const_str(g.generators[0].iter)
                    except Unsupported:
                        chars = None
                    if chars is None and isinstance(g.generators[0].iter, (ast.Tuple, ast.List)) and all(isinstance(x, ast.Constant) and isinstance(x.value, str) for x in g.generators[0].iter.elts):
                        chars = [x.value for x in g.generators[0].iter.elts]
                    if chars is not None:
                        var = g.generators[0].target.id
                        acc = None
                        for ch in chars:
                            sub = ast.fix_missing_locations(_Subst(var, ch).visit(ast.parse(ast.unparse(g.elt), mode="eval").body))
                            cur = self._truth(sub, views)
                            acc = cur if acc is None else (union(acc, cur) if f.id == "any" else inter(acc, cur))
                        return acc if acc is not None else (L.EMPTY if f.id == "any" else L.SIGMA_STAR)
            if isinstance(f, ast.Attribute) and f.attr in ("match", "fullmatch", "search"):
                if isinstance(f.value, ast.Name) and f.value.id == "re" and len(e.args) == 2:
                    pat, fl = self._pattern(e.args[0])
                    arg = e.args[1]
                elif len(e.args) == 1:
                    pat, fl = self._pattern(f.value)
                    arg = e.args[0]
                elif len(e.args) in (2, 3) and isinstance(e.args[0], ast.Name) and e.args[0].id in views:
                    # compiled.fullmatch(s, pos[, endpos]): the slice s[pos:endpos] is matched ($ holds at endpos; ^ only at 0)
                    pat, fl = self._pattern(f.value)
                    sname = e.args[0].id
                    start = self._pos_of(e.args[1], views)
                    end = self._pos_of(e.args[2], views) if len(e.args) == 3 else None
                    is_len = len(e.args) == 3 and isinstance(e.args[2], ast.Call) and isinstance(e.args[2].func, ast.Name) and e.args[2].func.id == "len" and len(e.args[2].args) == 1 and isinstance(e.args[2].args[0], ast.Name) and e.args[2].args[0].id == sname
                    if start is None or (len(e.args) == 3 and end is None and not is_len):
                        raise Unsupported(f"match position `{ast.unparse(e)[:60]}`")
                    for pv in (start, end):
                        if pv is not None and pv[0] != "posconst" and pv[3] != sname:
                            raise Unsupported("match position computed on another string")
                    base = views[sname]
                    zero = start[0] == "posconst" and start[1] == 0
                    if start[0] == "posconst" and start[1] != 0 or (end is not None and end[0] == "posconst"):
                        raise Unsupported("constant match position other than 0")
                    if not zero and pat.startswith("^"):
                        raise Unsupported("'^' with a start position other than 0")
                    if zero and end is None:
                        view = base
                    elif zero and end[0] == "idx":
                        view = ("head", end[1], base)
                    elif end is None and start[0] == "idxafter":
                        view = ("tail", start[1], base)
                    elif end is None and start[0] == "idx":
                        view = ("septail", start[1], base)
                    else:
                        raise Unsupported(f"match window `{ast.unparse(e)[:60]}`")
                    self.used.append(f"{f.attr}:{pat}")
                    return self.lift(self.L.regex(pat, f.attr, fl), view)
                else:
                    raise Unsupported(ast.unparse(e)[:60])
                self.used.append(f"{f.attr}:{pat}")
                return self.lift(self.L.regex(pat, f.attr, fl), self._view_of(arg, views))
            if isinstance(f, ast.Attribute) and isinstance(f.value, ast.Name) and f.value.id in views and not e.keywords:
                v = views[f.value.id]
                if f.attr in ("strip", "lstrip", "rstrip") and not e.args:
                    return self.lift(complement(self.BLANK), v)
                if f.attr == "isspace" and not e.args:
                    return self.lift(inter(self.BLANK, L.nonempty()), v)
                if f.attr == "isascii" and not e.args:
                    return self.lift(L.star(self.alpha.classes_of_intervals([(0, 127)])), v)
                if f.attr in ("isalpha", "isalnum", "isdigit", "isdecimal", "isnumeric") and not e.args:
                    if f.attr not in getattr(self, "pred_kinds", ()):
                        raise Unsupported(f"str.{f.attr}() (not among the alphabet's atoms)")
                    cls = self.alpha.classes_of_intervals(predicate_intervals(f.attr))
                    return self.lift(inter(L.star(cls), L.nonempty()), v)  # non-empty, every character of that kind
                if f.attr == "startswith" and len(e.args) == 1:
                    return self.lift(L.startswith(self._const_str(e.args[0])), v)
                if f.attr == "endswith" and len(e.args) == 1:
                    return self.lift(L.endswith(self._const_str(e.args[0])), v)
        if isinstance(e, ast.Call) and isinstance(e.func, ast.Attribute) and e.func.attr in ("issuperset", "__ge__") and len(e.args) == 1 and not e.keywords:
            # CHARS.issuperset(s): every character of s is one of CHARS
            arg = e.args[0]
            if isinstance(arg, ast.Call) and isinstance(arg.func, ast.Name) and arg.func.id in ("set", "frozenset") and len(arg.args) == 1:
                arg = arg.args[0]
            if isinstance(arg, ast.Name) and arg.id in views:
                cls = self.alpha.classes_of_chars(self._char_set(e.func.value))
                return self.lift(L.star(cls), views[arg.id])
        if isinstance(e, ast.Compare) and len(e.ops) == 1 and isinstance(e.ops[0], (ast.In, ast.NotIn)) and isinstance(e.left, ast.Subscript) and isinstance(e.left.value, ast.Name) and e.left.value.id in views and isinstance(e.left.slice, ast.Slice) and e.left.slice.lower is None and e.left.slice.step is None and isinstance(e.left.slice.upper, ast.Constant) and e.left.slice.upper.value == 1:
            # s[:1] in CHARS: the first character (or '' for the empty string) is a member
            right = e.comparators[0]
            substring = False
            try:
                chars = self._const_str(right)
                substring = True  # membership in a str is the substring test: '' in "abc" holds
            except Unsupported:
                chars = self._char_set(right)
            cls = self.alpha.classes_of_chars(chars)
            r = L.concat(L.sym(cls), L.SIGMA_STAR)
            if substring:
                r = union(r, L.EPS)
            r = self.lift(r, views[e.left.value.id])
            return complement(r) if isinstance(e.ops[0], ast.NotIn) else r
        if isinstance(e, ast.Call) and isinstance(e.func, ast.Attribute) and e.func.attr in ("issubset", "__le__") and len(e.args) == 1 and not e.keywords and isinstance(e.args[0], ast.Name) and e.args[0].id in views:
            # CHARS.issubset(s): EVERY character of CHARS occurs in s
            acc = L.SIGMA_STAR
            for ch in self._char_set(e.func.value):
                acc = minimise(inter(acc, L.contains(ch)))
            return self.lift(acc, views[e.args[0].id])
        if isinstance(e, ast.Call) and isinstance(e.func, ast.Attribute) and e.func.attr == "isdisjoint" and len(e.args) == 1 and not e.keywords:
            # CHARS.isdisjoint(s) / set(s).isdisjoint(CHARS): no character of s is in CHARS
            a, b = e.func.value, e.args[0]
            if isinstance(a, ast.Call) and isinstance(a.func, ast.Name) and a.func.id in ("set", "frozenset") and len(a.args) == 1 and isinstance(a.args[0], ast.Name) and a.args[0].id in views:
                a, b = b, a.args[0]
            if isinstance(b, ast.Name) and b.id in views:
                cls = self.alpha.classes_of_chars(self._char_set(a))
                return self.lift(L.star(self.alpha.all - cls), views[b.id])
        if isinstance(e, ast.Compare) and len(e.ops) == 1 and isinstance(e.ops[0], (ast.Eq, ast.NotEq)):
            # s.split() == [s]: s is non-empty and contains no whitespace at all
            a, b = e.left, e.comparators[0]
            if isinstance(b, ast.Call):
                a, b = b, a
            if isinstance(a, ast.Call) and isinstance(a.func, ast.Attribute) and a.func.attr == "split" and not a.args and not a.keywords and isinstance(a.func.value, ast.Name) and a.func.value.id in views and isinstance(b, ast.List) and len(b.elts) == 1 and isinstance(b.elts[0], ast.Name) and b.elts[0].id == a.func.value.id:
                r = self.lift(inter(L.star(self.alpha.all - self.WS), L.nonempty()), views[a.func.value.id])
                return r if isinstance(e.ops[0], ast.Eq) else complement(r)
            # "".join(s.split()) == s: gluing the whitespace-separated tokens together gives s back iff s holds no
            # whitespace at all (the empty string included)
            if (
                isinstance(a, ast.Call) and isinstance(a.func, ast.Attribute) and a.func.attr == "join" and isinstance(a.func.value, ast.Constant) and a.func.value.value == "" and len(a.args) == 1
                and isinstance(a.args[0], ast.Call) and isinstance(a.args[0].func, ast.Attribute) and a.args[0].func.attr == "split" and not a.args[0].args and not a.args[0].keywords
                and isinstance(a.args[0].func.value, ast.Name) and a.args[0].func.value.id in views and isinstance(b, ast.Name) and b.id == a.args[0].func.value.id
            ):
                r = self.lift(L.star(self.alpha.all - self.WS), views[b.id])
                return r if isinstance(e.ops[0], ast.Eq) else complement(r)
        raise Unsupported(f"expression `{ast.unparse(e)[:70]}`")
