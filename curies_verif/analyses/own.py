"""OWN: ownership / escape analysis for Record objects reachable from converter parameters.

Because the path summaries copy-propagate locals, aliasing between local names has already
been resolved into terms; ownership is therefore a function of the *term* denoting an object:

* ``B(p)``  borrowed from converter parameter ``p`` (an element of ``p.records``, the result of
  ``p.get_record(..)``, an element of any container built from such elements);
* ``S(p)``  shallow copy of a borrowed record (``model_copy()``, ``copy.copy``): the object is
  fresh but its two list fields are still the input's lists;
* ``F``     fresh deep copy / freshly constructed Record;
* converters: ``CB(p)`` a converter parameter (or element of a sequence-of-converters parameter),
  ``CF(tag)`` a converter constructed in the function from records with element tag ``tag``.

No values are tracked - only which of these four kinds a term denotes.
"""

from __future__ import annotations

import ast

from ..model import FunctionInfo
from ..report import Cx
from ..rules import CANON, LISTS, MUTATORS, Prov
from ..summ import Summary
from ..terms import callee_name, is_const, op, show, subterms

CONV_MUTATORS = {"add_record", "add_prefix", "_index", "_merge"}
RECORD_FIELDS = CANON | LISTS


def converter_params(fn: FunctionInfo) -> list[str]:
    out = []
    for p in fn.params:
        if p.annotation is not None and "Converter" in ast.unparse(p.annotation):
            out.append(p.name)
    return out


def _closure_inputs(cx: Cx, fn: FunctionInfo, ps: list[str]) -> list[str]:
    """Converter parameters of a local (nested, undecorated) function that can receive one of the enclosing
    function's inputs.  A local helper is reachable only through its enclosing function: a parameter that is
    only ever handed a converter the enclosing function constructed itself (``reduce(_add, records, rv)``
    with ``rv = Converter(...)``) is an accumulator, not an input.  Any use that is not understood keeps the
    parameter."""
    parent = fn.parent
    if parent is None or fn.decorators or not ps:
        return ps
    names = [p.name for p in fn.params]
    got: dict[str, list] = {n: [] for n in names}  # parameter -> argument ASTs ('elem' marks an element of an iterable)
    understood = set()
    for n in ast.walk(parent.node):
        if not isinstance(n, ast.Call):
            continue
        f = n.func
        fname = f.id if isinstance(f, ast.Name) else f.attr if isinstance(f, ast.Attribute) else None
        if isinstance(f, ast.Name) and f.id == fn.name and not n.keywords and not any(isinstance(a, ast.Starred) for a in n.args) and len(n.args) <= len(names):
            understood.add(id(f))
            for pn, a in zip(names, n.args):
                got[pn].append(a)
        elif fname == "reduce" and n.args and isinstance(n.args[0], ast.Name) and n.args[0].id == fn.name and len(names) == 2 and not n.keywords:
            understood.add(id(n.args[0]))
            if len(n.args) == 3:
                got[names[0]].append(n.args[2])
            elif len(n.args) == 2:
                got[names[0]].append("elem")
            got[names[1]].append("elem")
        elif fname in ("map", "filter") and n.args and isinstance(n.args[0], ast.Name) and n.args[0].id == fn.name and not n.keywords:
            understood.add(id(n.args[0]))
            for pn in names:
                got[pn].append("elem")
    for n in ast.walk(parent.node):
        if isinstance(n, ast.Name) and n.id == fn.name and isinstance(n.ctx, ast.Load) and id(n) not in understood:
            return ps  # the helper escapes in a way that is not modelled
    pps = converter_params(parent)
    own = Own(cx, parent, pps + ([parent.self_name] if parent.self_name else []))
    out = []
    for pn in ps:
        exposed = False
        for a in got.get(pn, []):
            if isinstance(a, ast.Call) and isinstance(a.func, ast.Name) and a.func.id == "Converter":
                continue  # constructed in the call itself
            if isinstance(a, ast.Name) and a.id not in {p.name for p in parent.params}:
                vals = [ev.b for ev, _ in own.s.walk() if ev.kind == "bind" and ev.a == a.id and isinstance(ev.b, tuple)]
                tags = [own.tag(v) for v in vals]
                if vals and all(tg is not None and tg[0] == "CF" for tg in tags):
                    continue  # constructed by the enclosing function
            exposed = True
        if exposed or not got.get(pn):
            out.append(pn)
    return out


def in_scope(cx: Cx) -> list[tuple[FunctionInfo, list[str]]]:
    """Functions taking a converter (non-self) and Converter methods returning a Converter."""
    out = []
    for fn in cx.model.functions.values():
        ps = converter_params(fn)
        if fn.parent is not None:
            ps = _closure_inputs(cx, fn, ps)
        if fn.cls is not None and fn.cls.name == "Converter" and fn.self_name and not fn.is_classmethod:
            r = fn.node.returns
            if r is not None and "Converter" in ast.unparse(r):
                ps = ps + [fn.self_name]
        if ps:
            out.append((fn, ps))
    return out


class Own:
    def __init__(self, cx: Cx, fn: FunctionInfo, conv_params: list[str]) -> None:
        self.cx = cx
        self.fn = fn
        self.s: Summary = cx.summary(fn, full=True)  # effects hold for every call, new keywords included
        self.prov = Prov(self.s)
        self.conv = set(conv_params)
        self.memo: dict = {}

    # ------------------------------------------------------------------ tags
    def tag(self, t, depth: int = 0):
        """('B',p) | ('S',p) | ('F',) | ('CB',p) | ('CF', elemtag) | ('E', elemtag) container | None"""
        if depth > 10 or not isinstance(t, tuple):
            return None
        key = t
        if key in self.memo:
            return self.memo[key]
        self.memo[key] = None
        r = self._tag(t, depth)
        self.memo[key] = r
        return r

    def _mutation_elems(self, t, worst, depth):
        """Join in what later mutations put into the container denoted by ``t``."""
        for ev, _ in self.s.mutations_of(t):
            if ev.kind == "store" and op(ev.a) == "item":
                worst = _worse(worst, self.tag(ev.b, depth + 1))
            elif ev.kind in ("expr", "bind") and op(ev.a if ev.kind == "expr" else ev.b) == "call":
                c = ev.a if ev.kind == "expr" else ev.b
                m = callee_name(c)
                args = c[2]
                if m in ("append", "add", "insert", "setdefault") and args:
                    worst = _worse(worst, self.tag(args[-1], depth + 1))
                elif m in ("extend", "update") and args:
                    worst = _worse(worst, self._elem(args[0], depth))
        return worst

    def _elem(self, t, depth):
        """Element tag of a container-valued term."""
        x = self.tag(t, depth + 1)
        if x is None:
            return None
        if x[0] == "E":
            return x[1]
        if x[0] == "CBS":
            return ("CB", x[1])
        return None

    def _tag(self, t, depth):
        o = op(t)
        if o == "param":
            if t[1] in self.conv:
                p = self.fn.param(t[1])
                ann = ast.unparse(p.annotation) if p is not None and p.annotation is not None else "Converter"
                if any(k in ann for k in ("Sequence", "Iterable", "list[", "List[", "Collection", "tuple[")):
                    return ("CBS", t[1])
                return ("CB", t[1])
            return None
        if o == "bv":
            b = self.prov.binders.get(t[1])
            if b is None:
                return None
            it, path = b
            # zip(xs, ys): position i iterates the i-th argument; enumerate(xs): position 1 iterates xs
            if op(it) == "call" and it[1] == ("builtin", "zip") and path and isinstance(path[0], int) and path[0] < len(it[2]) and not it[3]:
                it, path = it[2][path[0]], path[1:]
            elif op(it) == "call" and it[1] == ("builtin", "enumerate") and path and path[0] == 1 and it[2]:
                it, path = it[2][0], path[1:]
            e = self._elem(it, depth)
            if e is not None and not path:
                return e
            if e is not None and path:
                # tuple-structured elements (dict.items()): value position carries the element
                return e if path[-1] == 1 else None
            return None
        if o == "phi":
            return None
        if o == "attr":
            base = self.tag(t[1], depth + 1)
            if base is None:
                return None
            if base[0] == "CB" and t[2] == "records":
                return ("E", ("B", base[1]))
            if base[0] == "CF" and t[2] == "records":
                return ("E", base[1]) if base[1] is not None else None
            if base[0] in ("B", "S") and t[2] in LISTS:
                return ("L", base[0], base[1], t[2])
            if base[0] == "F" and t[2] in LISTS:
                return None
            return None
        if o == "item":
            base = self.tag(t[1], depth + 1)
            if base is not None and base[0] == "E":
                return base[1]
            if base is not None and base[0] == "CBS":
                return ("CB", base[1])
            return None
        if o == "slice":
            return self.tag(t[1], depth + 1)
        if o == "ifexp":
            return self.tag(t[2], depth + 1) or self.tag(t[3], depth + 1)
        if o in ("list", "tuple", "set"):
            worst = None
            for e in t[1]:
                x = self._elem(e[1], depth) if op(e) == "star" else self.tag(e, depth + 1)
                worst = _worse(worst, x)
            return ("E", worst) if worst is not None else None
        if o == "dict":
            worst = None
            for k, v in t[1]:
                x = self.tag(v, depth + 1) if k is not None else self._elem(v, depth)
                worst = _worse(worst, x)
            return ("E", worst) if worst is not None else None
        if o == "comp":
            for tgt, it, _ in t[3]:
                self.prov.add_binding(tgt, it)
            elt = t[2][2] if t[1] == "dict" else t[2]
            x = self.tag(elt, depth + 1)
            worst = x if x is not None and x[0] in ("B", "S", "F") else None
            # a comprehension bound to a name and filled further afterwards
            worst = self._mutation_elems(t, worst, depth)
            return ("E", worst) if worst is not None else None
        if o == "new":
            worst = None
            init = t[4] if len(t) > 4 else None
            if op(init) in ("list", "dict", "set"):
                x = self.tag(init, depth + 1)
                if x is not None and x[0] == "E":
                    worst = x[1]
            worst = self._mutation_elems(t, worst, depth)
            return ("E", worst) if worst is not None else None
        if o == "call":
            f = t[1]
            name = callee_name(t)
            kw = dict(t[3])
            if op(f) == "attr" and (op(f[1]) == "cls" and f[1][1].rsplit(".", 1)[-1] == "Converter" or (f[1] == ("param", "cls") and self.fn.is_classmethod)):
                # a loader called on the class: its records are fresh unless the loader hands the elements of an
                # argument through unchanged (from_extended_prefix_map keeps Record instances as they are)
                ci = self.cx.model.classes.get(f[1][1]) if op(f[1]) == "cls" else self.fn.cls
                callee = self.cx.model.find_method(ci, name) if ci is not None else None
                if callee is not None and callee.is_classmethod:
                    from ..rules import bind_args

                    through = _passes_through(self.cx, callee)
                    b = bind_args(callee, t) if through else None
                    if through and b is None:
                        # surplus keywords (**kwargs): bind what can be bound by position / name
                        names = [p.name for p in callee.params if p.name != "cls"]
                        b = dict(zip(names, t[2]))
                        b.update({k: v for k, v in t[3] if k in names})
                    worst = ("F",)
                    for pname in through:
                        a = (b or {}).get(pname)
                        if a is None:
                            continue
                        worst = _worse(worst, self._elem(a, depth))
                    return ("CF", worst)
            if op(f) == "attr" and name == "model_validate" and op(f[1]) == "cls" and f[1][1].endswith(".Record") and t[2]:
                # pydantic hands an INSTANCE of the model back as it is (revalidate_instances='never' is the
                # default): `Record.model_validate(record)` is `record`; validated from a dump it is a fresh object
                a0 = t[2][0]
                if op(a0) == "call" and callee_name(a0) in ("model_dump", "dict"):
                    return ("F",)
                base = self.tag(a0, depth + 1)
                if base is not None and base[0] in ("B", "S"):
                    return base
                return ("F",) if base is not None and base[0] == "F" else None
            if op(f) == "attr":
                recv = f[1]
                if name == "model_copy":
                    base = self.tag(recv, depth + 1)
                    if is_const(kw.get("deep"), True):
                        return ("F",)
                    upd = kw.get("update")
                    upd = upd[4] if op(upd) == "new" and len(upd) > 4 else upd
                    if op(upd) == "dict":
                        # a shallow copy whose two list fields are replaced by lists of their own shares nothing
                        # mutable with the original (the other fields of a Record are strings)
                        fresh = {k[1] for k, v in upd[1] if k is not None and is_const(k) and _fresh_list(v)}
                        if set(LISTS) <= fresh:
                            return ("F",)
                    if base is not None and base[0] in ("B", "S"):
                        return ("S", base[1])
                    return ("F",) if base is not None and base[0] == "F" else None
                base = self.tag(recv, depth + 1)
                if base is None:
                    return None
                if base[0] == "CB" and name == "get_record":
                    return ("B", base[1])
                if base[0] == "CB":
                    ci = self.cx.model.classes.get("curies.api.Converter")
                    m = self.cx.model.find_method(ci, name) if ci is not None else None
                    st = returns_state(self.cx, m) if m is not None else None
                    if st is not None:
                        return ("ST", base[1], st)
                if base[0] == "CF" and name == "get_record":
                    return base[1]
                if base[0] == "E" and name in ("pop", "get", "popitem", "__getitem__"):
                    return base[1]
                if base[0] == "E" and name in ("values", "copy", "items"):
                    return base
                return None
            if op(f) == "ext" and f[1] in ("copy.deepcopy",):
                return ("F",)
            if op(f) == "ext" and f[1] == "functools.reduce" and len(t[2]) == 2 and not t[3]:
                # reduce(f, xs) without an initial value returns xs[0] ITSELF for a one-element xs
                e = self._elem(t[2][1], depth)
                if e is not None:
                    return e
            if op(f) == "ext" and f[1] == "copy.copy" and t[2]:
                base = self.tag(t[2][0], depth + 1)
                if base is not None and base[0] in ("B", "S"):
                    return ("S", base[1])
                return None
            if op(f) == "builtin" and name in ("sorted", "list", "tuple", "set", "reversed", "iter", "frozenset", "dict") and t[2]:
                return self.tag(t[2][0], depth + 1) if (self.tag(t[2][0], depth + 1) or (None,))[0] == "E" else None
            if op(f) == "builtin" and name == "next" and t[2]:
                return self._elem(t[2][0], depth)
            if op(f) == "cls":
                short = f[1].rsplit(".", 1)[-1]
                if short == "Record":
                    return ("F",)
                if short == "Converter":
                    recs = t[2][0] if t[2] else kw.get("records")
                    return ("CF", self._elem(recs, depth) if recs is not None else None)
            if op(f) == "param" and f[1] == "cls" and self.fn.is_classmethod:
                recs = t[2][0] if t[2] else kw.get("records")
                return ("CF", self._elem(recs, depth) if recs is not None else None)
            return None
        return None


_THROUGH: dict = {}
_STATE: dict = {}


def _fresh_list(v) -> bool:
    """An expression that builds a new list (whatever it is built from)."""
    if op(v) == "new" and v[1] == "list":
        return True
    if op(v) in ("list", "comp", "concat"):
        return op(v) != "comp" or v[1] == "list"
    if op(v) == "call" and v[1] in (("builtin", "list"), ("builtin", "sorted")) and len(v[2]) == 1:
        return True
    if op(v) == "call" and op(v[1]) == "attr" and v[1][2] == "copy" and not v[2]:
        return True
    if op(v) == "slice" and all(x is None or is_const(x, None) for x in v[2:]):
        return True
    if op(v) == "bin" and v[1] == "+" and (_fresh_list(v[2]) or _fresh_list(v[3])):
        return True
    return False


def returns_state(cx: Cx, m: FunctionInfo) -> str | None:
    """Does the container-returning Converter method ``m`` hand out an object that the converter keeps - an
    attribute itself, an element of a container attribute that holds containers (a cache), or a container it has
    just stored there?  Returns the attribute's name.  (A caller that then changes the result changes the
    converter.)"""
    _STATE = cx.model.__dict__.setdefault("_memo_state", {})  # per model object: ids are reused after collection
    key = m.qualname
    if key in _STATE:
        return _STATE[key]
    _STATE[key] = None
    r = m.node.returns
    if r is None or not m.self_name or m.is_classmethod:
        return None
    ann = ast.unparse(r)
    if not any(k in ann for k in ("set", "Set", "list", "List", "dict", "Dict", "Mapping", "Sequence", "Collection")):
        return None
    from ..rules import TABLES

    s = cx.summary(m)
    me = ("param", m.self_name)
    stored: dict = {}
    for ev, _ in s.walk():
        if ev.kind == "store" and isinstance(ev.b, tuple):
            root = ev.a
            while op(root) in ("attr", "item") and root[1] != me:
                root = root[1]
            if op(root) in ("attr", "item") and root[1] == me and op(root) == "attr":
                stored.setdefault(ev.b, root[2])
    out = None
    for t, _ in s.returns():
        if op(t) == "attr" and t[1] == me and t[2] not in ("delimiter",):
            out = t[2]
        elif op(t) == "item" and op(t[1]) == "attr" and t[1][1] == me and t[1][2] not in TABLES:
            out = t[1][2]
        elif op(t) == "call" and op(t[1]) == "attr" and t[1][2] in ("get", "setdefault", "pop") and op(t[1][1]) == "attr" and t[1][1][1] == me and t[1][1][2] not in TABLES:
            out = t[1][1][2]
        elif op(t) in ("new", "comp", "phi") and t in stored:
            out = stored[t]
        if out is not None:
            break
    _STATE[key] = out
    return out


def _passes_through(cx: Cx, callee: FunctionInfo) -> set:
    """Parameters of a constructor-like classmethod whose ELEMENTS can end up, as the same objects, among the
    records of the converter it returns (``cls([r if isinstance(r, Record) else Record(**r) for r in data])``)."""
    _THROUGH = cx.model.__dict__.setdefault("_memo_through", {})
    key = callee.qualname
    if key in _THROUGH:
        return _THROUGH[key]
    _THROUGH[key] = set()
    out = set()
    s = cx.summary(callee)
    params = {("param", p.name): p.name for p in callee.params}

    def source_param(src, depth=0):
        if depth > 4:
            return None
        if src in params:
            return params[src]
        if op(src) == "call" and src[2]:
            return source_param(src[2][0], depth + 1)  # _prepare(data), list(data), sorted(data) ...
        return None

    def bare(elt, tgt):
        if elt == tgt:
            return True
        if op(elt) == "ifexp":
            return bare(elt[2], tgt) or bare(elt[3], tgt)
        return False

    for t, ctx in s.returns():
        for x in subterms(t):
            if op(x) == "comp" and x[1] in ("list", "gen") and len(x[3]) == 1:
                tgt, src, _ = x[3][0]
                p = source_param(src)
                if p is not None and bare(x[2], tgt):
                    out.add(p)
            if op(x) == "call" and (op(x[1]) == "cls" or x[1] == ("param", "cls")) and x[2] and source_param(x[2][0]) is not None and op(x[2][0]) != "comp":
                out.add(source_param(x[2][0]))
    _THROUGH[key] = out
    return out


def _worse(a, b):
    """Join of element tags: borrowed beats shallow beats fresh."""
    order = {"B": 3, "S": 2, "F": 1}
    if a is None:
        return b if b is not None and b[0] in order else a
    if b is None or b[0] not in order:
        return a
    return a if order[a[0]] >= order[b[0]] else b


def param_mutations(cx: Cx) -> dict[str, set[str]]:
    """Package functions that mutate a Record passed as parameter: qualname -> parameter names."""
    out: dict[str, set[str]] = {}
    for fn in cx.model.functions.values():
        s = cx.summary(fn)
        for ev, _ in s.walk():
            tgt = None
            if ev.kind == "store" and op(ev.a) == "attr" and ev.a[2] in RECORD_FIELDS and op(ev.a[1]) == "param":
                tgt = ev.a[1][1]
            elif ev.kind == "expr" and op(ev.a) == "call" and op(ev.a[1]) == "attr" and callee_name(ev.a) in MUTATORS:
                r = ev.a[1][1]
                if op(r) == "attr" and r[2] in LISTS and op(r[1]) == "param":
                    tgt = r[1][1]
            if tgt is not None and tgt != fn.self_name:
                out.setdefault(fn.qualname, set()).add(tgt)
    return out
