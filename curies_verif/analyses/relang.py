"""RELANG: regular-language toolkit (DESIGN.md 2.4).

``re._parser`` AST -> epsilon-NFA over a finite partition of all 0x110000 code points induced by
the atoms in play, with ``match`` / ``fullmatch`` / ``search`` semantics and ``^ $ \\A \\Z``
handled on the continuation language; DFA product / complement / equivalence with a shortest
distinguishing witness.  Deciding language equality is a decision procedure on automata built
from the *source text* of the patterns; the patterns are never run against inputs here.
"""

from __future__ import annotations

import re._constants as C
import re._parser as P
from collections import deque

MAXCP = 0x110000


class Unsupported(Exception):
    pass


# ---------------------------------------------------------------------- code point sets as intervals
_CAT_CACHE: dict = {}


def _scan(pred) -> list[tuple[int, int]]:
    out = []
    start = None
    for c in range(MAXCP):
        if pred(chr(c)):
            if start is None:
                start = c
        elif start is not None:
            out.append((start, c - 1))
            start = None
    if start is not None:
        out.append((start, MAXCP - 1))
    return out


ASCII_CATS = {
    "space": [(9, 13), (32, 32)],
    "digit": [(48, 57)],
    "word": [(48, 57), (65, 90), (95, 95), (97, 122)],
}


def category_intervals(cat, ascii_only: bool = False) -> list[tuple[int, int]]:
    """Intervals of the positive category (SPACE / DIGIT / WORD) for str patterns (re.ASCII: the ASCII subsets)."""
    if ascii_only:
        if cat not in ASCII_CATS:
            raise Unsupported(f"category {cat}")
        return ASCII_CATS[cat]
    if cat not in _CAT_CACHE:
        if cat == "space":
            _CAT_CACHE[cat] = _scan(str.isspace)
        elif cat == "digit":
            _CAT_CACHE[cat] = _scan(str.isdecimal)
        elif cat == "word":
            _CAT_CACHE[cat] = _scan(lambda ch: ch.isalnum() or ch == "_")
        else:
            raise Unsupported(f"category {cat}")
    return _CAT_CACHE[cat]


def _cat(av):
    table = {
        C.CATEGORY_SPACE: ("space", False),
        C.CATEGORY_NOT_SPACE: ("space", True),
        C.CATEGORY_DIGIT: ("digit", False),
        C.CATEGORY_NOT_DIGIT: ("digit", True),
        C.CATEGORY_WORD: ("word", False),
        C.CATEGORY_NOT_WORD: ("word", True),
    }
    if av not in table:
        raise Unsupported(f"category {av}")
    return table[av]


def _negate(iv: list[tuple[int, int]]) -> list[tuple[int, int]]:
    out = []
    prev = 0
    for lo, hi in sorted(iv):
        if lo > prev:
            out.append((prev, lo - 1))
        prev = max(prev, hi + 1)
    if prev < MAXCP:
        out.append((prev, MAXCP - 1))
    return out


def _union(a, b):
    iv = sorted(a + b)
    out: list[tuple[int, int]] = []
    for lo, hi in iv:
        if out and lo <= out[-1][1] + 1:
            out[-1] = (out[-1][0], max(out[-1][1], hi))
        else:
            out.append((lo, hi))
    return out


def set_intervals(items, ascii_only: bool = False) -> list[tuple[int, int]]:
    """Intervals matched by the items of an IN node."""
    neg = False
    iv: list[tuple[int, int]] = []
    for o, av in items:
        if o == C.NEGATE:
            neg = True
        elif o == C.LITERAL:
            iv = _union(iv, [(av, av)])
        elif o == C.RANGE:
            iv = _union(iv, [(av[0], av[1])])
        elif o == C.CATEGORY:
            name, n = _cat(av)
            civ = category_intervals(name, ascii_only)
            iv = _union(iv, _negate(civ) if n else list(civ))
        else:
            raise Unsupported(f"set item {o}")
    return _negate(iv) if neg else iv


def collect_atoms(tree, out: list) -> None:
    """Interval lists of every character test occurring in a parsed pattern."""
    for o, av in tree:
        if o in (C.LITERAL, C.NOT_LITERAL):
            out.append([(av, av)])
        elif o == C.IN:
            for o2, a2 in av:
                if o2 == C.LITERAL:
                    out.append([(a2, a2)])
                elif o2 == C.RANGE:
                    out.append([(a2[0], a2[1])])
                elif o2 == C.CATEGORY:
                    out.append(list(category_intervals(_cat(a2)[0])))
                    out.append(list(category_intervals(_cat(a2)[0], True)))
        elif o == C.ANY:
            out.append([(10, 10)])
        elif o in (C.MAX_REPEAT, C.MIN_REPEAT, C.POSSESSIVE_REPEAT):
            collect_atoms(av[2], out)
        elif o == C.SUBPATTERN:
            collect_atoms(av[3], out)
        elif o == C.ATOMIC_GROUP:
            collect_atoms(av, out)
        elif o == C.BRANCH:
            for b in av[1]:
                collect_atoms(b, out)
        elif o == C.AT:
            out.append([(10, 10)])
        elif o == C.CATEGORY:
            out.append(list(category_intervals(_cat(av)[0])))
            out.append(list(category_intervals(_cat(av)[0], True)))


class Alphabet:
    """Partition of all code points into classes on which every atom is constant."""

    def __init__(self, atoms: list[list[tuple[int, int]]]) -> None:
        cuts = {0, MAXCP}
        for iv in atoms:
            for lo, hi in iv:
                cuts.add(lo)
                cuts.add(hi + 1)
        pts = sorted(c for c in cuts if 0 <= c <= MAXCP)
        import bisect

        self.atoms = [sorted(iv) for iv in atoms]
        starts = [[lo for lo, _ in iv] for iv in self.atoms]

        def member(k: int, c: int) -> bool:
            iv = self.atoms[k]
            i = bisect.bisect_right(starts[k], c) - 1
            return i >= 0 and iv[i][0] <= c <= iv[i][1]

        sig_to_cls: dict = {}
        self.members: list[list[tuple[int, int]]] = []
        for a, b in zip(pts, pts[1:]):
            if a >= MAXCP:
                break
            sig = tuple(member(k, a) for k in range(len(self.atoms)))
            i = sig_to_cls.get(sig)
            if i is None:
                i = len(self.members)
                sig_to_cls[sig] = i
                self.members.append([])
            self.members[i].append((a, b - 1))
        self.n = len(self.members)
        self.reps = [self._rep(iv) for iv in self.members]

    @staticmethod
    def _rep(iv) -> int:
        # prefer a printable ASCII representative, then any non-surrogate code point
        for lo, hi in iv:
            for cand in range(max(lo, 0x21), min(hi, 0x7E) + 1):
                return cand
        for lo, hi in iv:
            if not (0xD800 <= lo <= 0xDFFF):
                return lo
        return iv[0][0]

    def classes_of_intervals(self, iv) -> frozenset:
        """The classes that make up the given set of code points.  The set must be a union of classes (the
        alphabet is built from every character set the analysed code mentions); a class that straddles the
        set's border means the alphabet is too coarse for the question and is reported, not approximated."""
        iv = sorted(iv)
        out = set()
        for i, mem in enumerate(self.members):
            states = set()
            for a, b in mem:
                if any(p <= a and b <= q for p, q in iv):
                    states.add(True)
                elif all(q < a or p > b for p, q in iv):
                    states.add(False)
                else:
                    states.add(None)
            if states == {True}:
                out.add(i)
            elif states != {False}:
                raise Unsupported(f"character set {iv[:4]}.. is not a union of alphabet classes (class of U+{mem[0][0]:04X} straddles it)")
        return frozenset(out)

    def classes_of_chars(self, chars: str) -> frozenset:
        return self.classes_of_intervals([(ord(c), ord(c)) for c in chars])

    def cls_of(self, ch: str) -> int:
        c = ord(ch)
        for i, mem in enumerate(self.members):
            for a, b in mem:
                if a <= c <= b:
                    return i
        raise KeyError(ch)

    def word(self, w) -> str:
        return "".join(chr(self.reps[c]) for c in w)

    @property
    def all(self) -> frozenset:
        return frozenset(range(self.n))


# ---------------------------------------------------------------------- DFA
class DFA:
    def __init__(self, k: int, start: int, acc: set, trans: dict, n: int) -> None:
        self.k, self.start, self.acc, self.t, self.n = k, start, set(acc), trans, n

    def accepts(self, word) -> bool:
        q = self.start
        for c in word:
            q = self.t[(q, c)]
        return q in self.acc


def nfa_to_dfa(k, start_set, eps, delta, accepting) -> DFA:
    def closure(S):
        st = list(S)
        S = set(S)
        while st:
            q = st.pop()
            for r in eps.get(q, ()):
                if r not in S:
                    S.add(r)
                    st.append(r)
        return frozenset(S)

    s0 = closure(start_set)
    ids = {s0: 0}
    todo = [s0]
    trans = {}
    acc = set()
    while todo:
        S = todo.pop()
        i = ids[S]
        if S & accepting:
            acc.add(i)
        for c in range(k):
            T = set()
            for q in S:
                for cls, r in delta.get(q, ()):
                    if c in cls:
                        T.add(r)
            T = closure(T)
            if T not in ids:
                ids[T] = len(ids)
                todo.append(T)
            trans[(i, c)] = ids[T]
    return DFA(k, 0, acc, trans, len(ids))


def product(a: DFA, b: DFA, op) -> DFA:
    ids = {(a.start, b.start): 0}
    todo = [(a.start, b.start)]
    trans = {}
    acc = set()
    while todo:
        p = todo.pop()
        i = ids[p]
        if op(p[0] in a.acc, p[1] in b.acc):
            acc.add(i)
        for c in range(a.k):
            q = (a.t[(p[0], c)], b.t[(p[1], c)])
            if q not in ids:
                ids[q] = len(ids)
                todo.append(q)
            trans[(i, c)] = ids[q]
    return DFA(a.k, 0, acc, trans, len(ids))


def complement(d: DFA) -> DFA:
    return DFA(d.k, d.start, set(range(d.n)) - d.acc, d.t, d.n)


def inter(a, b):
    return product(a, b, lambda x, y: x and y)


def union(a, b):
    return product(a, b, lambda x, y: x or y)


def minus(a, b):
    return product(a, b, lambda x, y: x and not y)


def witness(d: DFA):
    """Shortest accepted word (list of class ids) or None when the language is empty."""
    prev = {d.start: None}
    dq = deque([d.start])
    while dq:
        q = dq.popleft()
        if q in d.acc:
            w = []
            while prev[q] is not None:
                q0, c = prev[q]
                w.append(c)
                q = q0
            return w[::-1]
        for c in range(d.k):
            r = d.t[(q, c)]
            if r not in prev:
                prev[r] = (q, c)
                dq.append(r)
    return None


def minimise(d: DFA) -> DFA:
    """Moore partition refinement (keeps automata small across repeated products)."""
    reach = {d.start}
    st = [d.start]
    while st:
        q = st.pop()
        for c in range(d.k):
            r = d.t[(q, c)]
            if r not in reach:
                reach.add(r)
                st.append(r)
    states = sorted(reach)
    block = {q: (1 if q in d.acc else 0) for q in states}
    while True:
        sig = {q: (block[q], tuple(block[d.t[(q, c)]] for c in range(d.k))) for q in states}
        ids: dict = {}
        new = {}
        for q in states:
            new[q] = ids.setdefault(sig[q], len(ids))
        if len(ids) == len(set(block.values())):
            block = new
            break
        block = new
    n = len(set(block.values()))
    trans = {}
    for q in states:
        for c in range(d.k):
            trans[(block[q], c)] = block[d.t[(q, c)]]
    return DFA(d.k, block[d.start], {block[q] for q in states if q in d.acc}, trans, n)


# ---------------------------------------------------------------------- regex -> NFA (continuation passing)
class Builder:
    def __init__(self, alpha: Alphabet) -> None:
        self.alpha = alpha
        self.eps: dict = {}
        self.delta: dict = {}
        self.n = 0

    def new(self) -> int:
        self.n += 1
        return self.n - 1

    def e(self, a, b) -> None:
        self.eps.setdefault(a, []).append(b)

    def d(self, a, cls, b) -> None:
        self.delta.setdefault(a, []).append((cls, b))

    def lang_dfa(self, start, accepting) -> DFA:
        return nfa_to_dfa(self.alpha.n, {start}, self.eps, self.delta, accepting)

    def embed(self, dfa: DFA):
        base = [self.new() for _ in range(dfa.n)]
        for (q, c), r in dfa.t.items():
            self.d(base[q], frozenset([c]), base[r])
        return base[dfa.start], {base[q] for q in dfa.acc}


def _compile_seq(B: Builder, seq, k, ACC: set, at_start: bool, flags: int):
    cur = k
    seq = list(seq)
    for idx in range(len(seq) - 1, -1, -1):
        o, av = seq[idx]
        # "at start" holds for the first item and for items preceded only by zero-width anchors
        first = at_start and all(seq[j][0] == C.AT for j in range(idx))
        cur = _compile_item(B, o, av, cur, ACC, first, flags)
    return cur


def _compile_item(B: Builder, o, av, k, ACC: set, at_start: bool, flags: int):
    import re

    A = B.alpha
    # re.VERBOSE is resolved by the parser (blanks and comments are gone from the parse tree)
    if flags & (re.IGNORECASE | re.MULTILINE | re.LOCALE):
        raise Unsupported("regex flags IGNORECASE/MULTILINE/LOCALE are not modelled")
    ascii_only = bool(flags & re.ASCII)
    dotall = bool(flags & re.DOTALL)
    if o == C.LITERAL:
        s = B.new()
        B.d(s, A.classes_of_intervals([(av, av)]), k)
        return s
    if o == C.NOT_LITERAL:
        s = B.new()
        B.d(s, A.classes_of_intervals(_negate([(av, av)])), k)
        return s
    if o == C.ANY:
        s = B.new()
        B.d(s, A.all if dotall else A.classes_of_intervals(_negate([(10, 10)])), k)
        return s
    if o == C.IN:
        s = B.new()
        B.d(s, A.classes_of_intervals(set_intervals(av, ascii_only)), k)
        return s
    if o == C.CATEGORY:
        name, n = _cat(av)
        iv = category_intervals(name, ascii_only)
        s = B.new()
        B.d(s, A.classes_of_intervals(_negate(iv) if n else iv), k)
        return s
    if o == C.SUBPATTERN:
        if av[1] or av[2]:
            raise Unsupported("inline flags in group")
        return _compile_seq(B, av[3], k, ACC, at_start, flags)
    if o == C.BRANCH:
        s = B.new()
        for br in av[1]:
            B.e(s, _compile_seq(B, br, k, ACC, at_start, flags))
        return s
    if o in (C.MAX_REPEAT, C.MIN_REPEAT):
        lo, hi, body = av
        cur = k
        if hi == C.MAXREPEAT:
            loop = B.new()
            B.e(loop, k)
            B.e(loop, _compile_seq(B, body, loop, ACC, False, flags))
            cur = loop
        else:
            if hi - lo > 64:
                raise Unsupported("large bounded repeat")
            for _ in range(hi - lo):
                opt = B.new()
                B.e(opt, k)
                B.e(opt, _compile_seq(B, body, cur, ACC, False, flags))
                cur = opt
        if lo > 64:
            raise Unsupported("large bounded repeat")
        for i in range(lo):
            cur = _compile_seq(B, body, cur, ACC, at_start and i == lo - 1 and False, flags)
        return cur
    if o == C.AT:
        if av in (C.AT_BEGINNING, C.AT_BEGINNING_STRING):
            if not at_start:
                # '^' after consumed input can never match (no MULTILINE): dead state
                return B.new()
            return k
        if av in (C.AT_END, C.AT_END_STRING):
            kd = B.lang_dfa(k, ACC)
            nl = A.classes_of_intervals([(10, 10)])
            t = {}
            for c in range(A.n):
                t[(0, c)] = 1 if (c in nl and av == C.AT_END) else 2
                t[(1, c)] = 2
                t[(2, c)] = 2
            la = DFA(A.n, 0, {0, 1} if av == C.AT_END else {0}, t, 3)
            s, acc = B.embed(inter(kd, la))
            ACC |= acc
            return s
        raise Unsupported(f"anchor {av}")
    raise Unsupported(f"regex construct {o}")


def regex_language(pattern: str, method: str, alpha: Alphabet, flags: int = 0) -> DFA:
    """Language of strings s for which ``re.<method>(pattern, s)`` succeeds."""
    B = Builder(alpha)
    ACC: set = set()
    k = B.new()
    ACC.add(k)
    if method in ("match", "search"):
        B.d(k, alpha.all, k)  # anything may follow the match
    elif method != "fullmatch":
        raise Unsupported(f"method {method}")
    tree = P.parse(pattern, flags)
    pflags = tree.state.flags & ~__import__("re").UNICODE
    s = _compile_seq(B, tree, k, ACC, True, pflags)
    if method == "search":
        # a match may start anywhere; '^' inside is only satisfiable at position 0, which the
        # at_start bookkeeping above assumed - so build search as union(match, Sigma+ . match-without-^)
        pre = B.new()
        B.d(pre, alpha.all, pre)
        s2 = _compile_seq(B, tree, k, ACC, False, pflags)
        B.e(pre, s2)
        mid = B.new()
        B.d(mid, alpha.all, pre)
        top = B.new()
        B.e(top, s)
        B.e(top, mid)
        s = top
    return minimise(B.lang_dfa(s, ACC))


# ---------------------------------------------------------------------- language combinators
class Lang:
    """Small algebra of regular languages over one alphabet."""

    def __init__(self, alpha: Alphabet) -> None:
        self.a = alpha
        K = alpha.n
        self.EMPTY = DFA(K, 0, set(), {(0, c): 0 for c in range(K)}, 1)
        self.SIGMA_STAR = DFA(K, 0, {0}, {(0, c): 0 for c in range(K)}, 1)
        self.EPS = DFA(K, 0, {0}, {**{(0, c): 1 for c in range(K)}, **{(1, c): 1 for c in range(K)}}, 2)

    def regex(self, pattern: str, method: str = "fullmatch", flags: int = 0) -> DFA:
        return regex_language(pattern, method, self.a, flags)

    def sym(self, classes) -> DFA:
        K = self.a.n
        t = {}
        for c in range(K):
            t[(0, c)] = 1 if c in classes else 2
            t[(1, c)] = 2
            t[(2, c)] = 2
        return DFA(K, 0, {1}, t, 3)

    def star(self, classes) -> DFA:
        K = self.a.n
        t = {}
        for c in range(K):
            t[(0, c)] = 0 if c in classes else 1
            t[(1, c)] = 1
        return DFA(K, 0, {0}, t, 2)

    def concat(self, *ds) -> DFA:
        B = Builder(self.a)
        end = B.new()
        acc = {end}
        start = end
        for d in reversed(ds):
            s, a = B.embed(d)
            for q in a:
                B.e(q, start)
            start = s
        return minimise(B.lang_dfa(start, acc))

    def literal(self, text: str) -> DFA:
        return self.concat(*[self.sym(self.a.classes_of_chars(ch)) for ch in text]) if text else self.EPS

    def contains(self, text: str) -> DFA:
        return self.concat(self.SIGMA_STAR, self.literal(text), self.SIGMA_STAR)

    def free_of(self, text: str) -> DFA:
        return complement(self.contains(text))

    def startswith(self, text: str) -> DFA:
        return self.concat(self.literal(text), self.SIGMA_STAR)

    def endswith(self, text: str) -> DFA:
        return self.concat(self.SIGMA_STAR, self.literal(text))

    def nonempty(self) -> DFA:
        return complement(self.EPS)


def equivalent(a: DFA, b: DFA):
    """(True, None, None) or (False, word only in a, word only in b)."""
    wa = witness(minus(a, b))
    wb = witness(minus(b, a))
    return (wa is None and wb is None), wa, wb
