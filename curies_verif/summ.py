"""Structured path summaries of functions (DESIGN.md 2.3).

A function body is turned into a list of *paths*; a path is a list of events over
normalised terms with locals copy-propagated.  Loops are single events that carry the
paths of their body, so the summary is finite and acyclic.  No values are computed and
no constraint is ever solved: this is a syntactic normal form of the code.
"""

from __future__ import annotations

import ast
from dataclasses import dataclass, field
from typing import Iterator

from .model import AnalysisError, FunctionInfo, Model
from .terms import NONE, Lowering, contains, is_const, op, show, subterms

MAX_PATHS = 1024


@dataclass
class Ev:
    kind: str  # guard store expr bind loop while with endwith except yield import
    line: int
    a: object = None
    b: object = None
    c: object = None
    body: list["Path"] | None = None
    cov: tuple = ()

    def __repr__(self) -> str:  # pragma: no cover - debugging aid
        return f"Ev({self.kind}@{self.line} {show(self.a) if isinstance(self.a, tuple) else self.a})"


@dataclass
class Path:
    events: list[Ev] = field(default_factory=list)
    env: dict = field(default_factory=dict)
    out: tuple | None = None  # ('return', term, line) | ('raise', term, line) | ('break',) | ('continue',)

    def fork(self) -> "Path":
        return Path(list(self.events), dict(self.env), self.out)


@dataclass
class Ctx:
    """Where an event sits: enclosing loops and the guards passed on the way."""

    guards: tuple  # of Ev(kind=guard|except)
    loops: tuple  # of Ev(kind=loop|while)
    withs: tuple  # of Ev(kind=with)
    path: Path
    index: int
    trail: tuple = ()  # every event that precedes on this path (including enclosing prefixes)


class Summary:
    def __init__(self, fn: FunctionInfo, paths: list[Path], low: Lowering, truncated: bool) -> None:
        self.fn = fn
        self.paths = paths
        self.low = low
        self.truncated = truncated
        self.syn: dict[int, tuple] = {}

    # ------------------------------------------------------------------ traversal
    def walk(self) -> Iterator[tuple[Ev, Ctx]]:
        yield from _walk(self.paths, (), (), (), ())

    def outcomes(self) -> Iterator[tuple[tuple, Ctx]]:
        """All (outcome, ctx) pairs, including returns/raises nested in loop bodies."""
        yield from _outcomes(self.paths, (), (), (), ())

    def returns(self) -> list[tuple[tuple, Ctx]]:
        out = []
        for o, ctx in self.outcomes():
            if o is None:
                if not ctx.loops:
                    out.append((NONE, ctx))
            elif o[0] == "return":
                out.append((o[1], ctx))
        return out

    def raises(self) -> list[tuple[tuple, Ctx]]:
        return [(o[1], ctx) for o, ctx in self.outcomes() if o is not None and o[0] == "raise"]

    def events(self, kind: str | None = None) -> list[tuple[Ev, Ctx]]:
        seen = set()
        out = []
        for ev, ctx in self.walk():
            if kind is not None and ev.kind != kind:
                continue
            out.append((ev, ctx))
        return out

    def distinct_events(self, kind: str) -> list[tuple[Ev, Ctx]]:
        seen = set()
        out = []
        for ev, ctx in self.walk():
            if ev.kind != kind:
                continue
            key = (ev.line, ev.kind, ev.a if isinstance(ev.a, tuple) else None, ev.b if isinstance(ev.b, tuple) else None)
            if key in seen:
                continue
            seen.add(key)
            out.append((ev, ctx))
        return out

    def must_guards(self, ev: Ev) -> tuple:
        """Guards (term, polarity) that hold on *every* path reaching the statement of ``ev``."""
        common = None
        for e2, ctx in self.walk():
            if e2.line != ev.line or e2.kind != ev.kind:
                continue
            if e2.kind == "store" and e2.a != ev.a and not _same_shape(e2.a, ev.a):
                continue
            # the same statement reached with the loop variable bound under another number (the loop header is
            # duplicated on the two arms of an earlier test): compare the guards with that variable renamed
            ren = {}
            if e2.a != ev.a and isinstance(e2.a, tuple) and isinstance(ev.a, tuple):
                xs, ys = [x for x in subterms(e2.a) if op(x) == "bv"], [y for y in subterms(ev.a) if op(y) == "bv"]
                if len(xs) == len(ys):
                    ren = {x: y for x, y in zip(xs, ys) if x != y}
            if ren:
                from .terms import substitute

                gs = {(substitute(g.a, ren) if isinstance(g.a, tuple) else g.a, g.b) for g in ctx.guards if g.kind == "guard"}
            else:
                gs = {(g.a, g.b) for g in ctx.guards if g.kind == "guard"}
            common = gs if common is None else (common & gs)
        return tuple(sorted(common or (), key=repr))

    def all_terms(self) -> Iterator[tuple[tuple, Ev, Ctx]]:
        for ev, ctx in self.walk():
            for t in (ev.a, ev.b, ev.c):
                if isinstance(t, tuple) and t and isinstance(t[0], str):
                    yield t, ev, ctx
        for o, ctx in self.outcomes():
            if o is not None and len(o) > 1 and isinstance(o[1], tuple):
                yield o[1], Ev(o[0], o[2], o[1]), ctx

    def calls(self, name: str | None = None) -> list[tuple[tuple, Ev, Ctx]]:
        from .terms import callee_name

        out = []
        seen = set()
        for t, ev, ctx in self.all_terms():
            for s in subterms(t):
                if op(s) in ("call", "bound") and (name is None or callee_name(s) == name):
                    key = (ev.line, s)
                    if key in seen:
                        continue
                    seen.add(key)
                    out.append((s, ev, ctx))
        return out

    def mutations_of(self, obj: tuple) -> list[tuple[Ev, Ctx]]:
        """Events that mutate the object denoted by ``obj`` (method call or item/attr store)."""
        out = []
        for ev, ctx in self.walk():
            if ev.kind == "store" and op(ev.a) in ("item", "attr") and _root_is(ev.a[1], obj):
                out.append((ev, ctx))
            elif ev.kind in ("expr", "bind") and op(ev.a if ev.kind == "expr" else ev.b) == "call":
                t = ev.a if ev.kind == "expr" else ev.b
                f = t[1]
                if op(f) == "attr" and _root_is(f[1], obj):
                    out.append((ev, ctx))
        return out


def _same_shape(a, b) -> bool:
    return isinstance(a, tuple) and isinstance(b, tuple) and a[:1] == b[:1]


def _root_is(t, obj) -> bool:
    """``t`` is ``obj`` or ``obj[k]`` (defaultdict element)."""
    if t == obj:
        return True
    if op(t) == "item" and t[1] == obj:
        return True
    return False


def _walk(paths, guards, loops, withs, trail):
    for p in paths:
        g, w, tr = guards, withs, trail
        for i, ev in enumerate(p.events):
            yield ev, Ctx(g, loops, w, p, i, tr)
            tr = tr + (ev,)
            if ev.kind in ("guard", "except"):
                g = g + (ev,)
            elif ev.kind == "with":
                w = w + (ev,)
            elif ev.kind == "endwith":
                w = w[:-1]
            elif ev.kind in ("loop", "while") and ev.body is not None:
                yield from _walk(ev.body, g, loops + (ev,), w, tr)


def _outcomes(paths, guards, loops, withs, trail):
    for p in paths:
        g, w, tr = guards, withs, trail
        for i, ev in enumerate(p.events):
            tr = tr + (ev,)
            if ev.kind in ("guard", "except"):
                g = g + (ev,)
            elif ev.kind == "with":
                w = w + (ev,)
            elif ev.kind == "endwith":
                w = w[:-1]
            elif ev.kind in ("loop", "while") and ev.body is not None:
                yield from _outcomes(ev.body, g, loops + (ev,), w, tr[:-1] + (ev,))
        if p.out is None or p.out[0] in ("return", "raise"):
            yield p.out, Ctx(g, loops, w, p, len(p.events), tr)


def _known_functions() -> frozenset:
    import json
    import pathlib

    p = pathlib.Path(__file__).with_name("known_functions.json")
    try:
        return frozenset(json.loads(p.read_text()))
    except Exception:  # noqa: BLE001
        return frozenset()


KNOWN_FUNCTIONS = _known_functions()


def _known_signatures() -> dict:
    import json
    import pathlib

    p = pathlib.Path(__file__).with_name("known_signatures.json")
    try:
        return json.loads(p.read_text())
    except Exception:  # noqa: BLE001
        return {}


KNOWN_SIGNATURES = _known_signatures()


def _param_always(model: Model, g: FunctionInfo, pname: str, value) -> bool:
    """Every call of the (new) helper ``g`` in the package binds its parameter ``pname`` to the literal ``value`` or
    to a new optional keyword of the caller whose default is ``value`` (and that nobody switches away from it)."""
    idx = [p.name for p in g.params].index(pname)
    n = 0
    for h in model.functions.values():
        if h is g:
            continue
        for c in ast.walk(h.node):
            if isinstance(c, ast.Call) and ((isinstance(c.func, ast.Name) and c.func.id == g.name) or (isinstance(c.func, ast.Attribute) and c.func.attr == g.name)):
                n += 1
                a = c.args[idx] if idx < len(c.args) else next((k.value for k in c.keywords if k.arg == pname), None)
                if a is None:
                    prm = g.param(pname)
                    if prm.default is not None and isinstance(prm.default, ast.Constant) and prm.default.value == value:
                        continue
                    return False
                if isinstance(a, ast.Constant) and a.value == value and type(a.value) is type(value):
                    continue
                if isinstance(a, ast.Name):
                    theirs = new_defaulted_params(model, h)
                    if a.id in theirs and theirs[a.id] == value:
                        continue
                return False
    return n > 0


def new_defaulted_params(model: Model, fn: FunctionInfo) -> dict:
    """Parameters of ``fn`` that the pinned tree did not have, that carry a constant default and that no call in
    the package passes: {name: default value}.  The property speaks about the API as pinned - the function is read
    with these defaults in place (the other values of a new optional keyword are new surface outside it)."""
    sig = KNOWN_SIGNATURES.get(fn.qualname)
    brand_new = sig is None
    if brand_new:
        # a function the pinned tree does not have (a helper introduced by the change): all of it is new surface;
        # a defaulted parameter that every call site leaves at its default is read with that default, too
        if fn.parent is not None or fn.name.startswith("__"):
            return {}
        sig = []
    memo = model.__dict__.setdefault("_memo_newparams", {})
    if fn.qualname in memo:
        return memo[fn.qualname]
    out = {}
    cands = [p for p in fn.params if p.name not in sig and isinstance(p.default, ast.Constant)]
    n_calls = 0
    if cands:
        memo[fn.qualname] = {}  # recursion guard
        passed = set()
        for g in model.functions.values():
            for n in ast.walk(g.node):
                if isinstance(n, ast.Call):
                    f = n.func
                    cname = f.id if isinstance(f, ast.Name) else f.attr if isinstance(f, ast.Attribute) else None
                    hit = cname == fn.name or (cname in ("partial",) and n.args and ast.unparse(n.args[0]).endswith(fn.name))
                    if fn.name == "__init__" and fn.cls is not None:
                        # a constructor is called through its class (or `cls` inside the class), not by name;
                        # `super().__init__(..)` of unrelated classes is not a call of it
                        hit = cname == fn.cls.name or (cname == "cls" and g.cls is fn.cls)
                    if hit and g is not fn and _dead_under_callers_defaults(model, g, n):
                        continue  # a call the caller makes only when ITS new keyword is switched away from the default
                    if hit:
                        n_calls += 1
                        # positional arguments that land on a candidate parameter
                        pos_params = [p for p in fn.params if p.kind == "pos"]
                        if fn.cls is not None and not fn.is_staticmethod and pos_params and isinstance(f, ast.Attribute) or (fn.name == "__init__" and pos_params):
                            pos_params = pos_params[1:]
                        elif fn.cls is not None and not fn.is_staticmethod and pos_params and isinstance(f, ast.Name):
                            pos_params = pos_params[1:] if fn.name == "__init__" else pos_params
                        if any(isinstance(a, ast.Starred) for a in n.args):
                            passed.add("**")
                        for p_, a_ in zip(pos_params, n.args):
                            if any(c_.name == p_.name for c_ in cands):
                                dflt_ = p_.default.value
                                if not (isinstance(a_, ast.Constant) and a_.value == dflt_ and type(a_.value) is type(dflt_)):
                                    passed.add(p_.name)
                        for k in n.keywords:
                            if k.arg is None:
                                # f(**kwargs) with kwargs the caller's own catch-all parameter hands on what ITS
                                # callers name explicitly - nothing by itself
                                va = g.node.args.kwarg
                                if isinstance(k.value, ast.Name) and va is not None and k.value.id == va.arg:
                                    continue
                                # **{...} written out names its keys; any other mapping (a caller-supplied dict of
                                # extra options) carries what the caller of g chose to put there, by name
                                if isinstance(k.value, ast.Dict):
                                    for kk in k.value.keys:
                                        if isinstance(kk, ast.Constant) and isinstance(kk.value, str):
                                            passed.add(kk.value)
                                        else:
                                            passed.add("**")
                                continue
                            # handing on the caller's OWN new keyword of the same default keeps the default in place
                            dflt = next((p.default.value for p in cands if p.name == k.arg), None)
                            if isinstance(k.value, ast.Name) and g is fn and k.value.id == k.arg:
                                continue  # a recursive call handing its own value on
                            if isinstance(k.value, ast.Name) and g is not fn:
                                theirs = new_defaulted_params(model, g)
                                if k.value.id in theirs and theirs[k.value.id] == dflt:
                                    continue
                                # a brand-new helper that hands ITS parameter on: what do the helper's callers give it?
                                if KNOWN_SIGNATURES.get(g.qualname) is None and g.param(k.value.id) is not None and _param_always(model, g, k.value.id, dflt):
                                    continue
                            if isinstance(k.value, ast.Constant) and k.value.value == dflt and type(k.value.value) is type(dflt):
                                continue
                            passed.add(k.arg)
        for p in cands:
            if p.name not in passed and "**" not in passed and (n_calls or not brand_new):
                out[p.name] = p.default.value
    # a NEW catch-all `*args` (a shim that keeps deprecated positional flags working) that no call in the package
    # fills is the empty tuple: the documented calls bind every value to a named parameter
    va = next((p for p in fn.params if p.kind == "vararg" and p.name not in sig), None)
    if va is not None and not brand_new:
        n_named = len([p for p in fn.params if p.kind == "pos"]) - (1 if fn.cls is not None and not fn.is_staticmethod else 0)
        filled = False
        for g in model.functions.values():
            for n in ast.walk(g.node):
                if isinstance(n, ast.Call):
                    f = n.func
                    cname = f.id if isinstance(f, ast.Name) else f.attr if isinstance(f, ast.Attribute) else None
                    if cname == fn.name and (len(n.args) > n_named or any(isinstance(a, ast.Starred) for a in n.args)):
                        filled = True
        if not filled:
            out[va.name] = _EMPTY_VARARGS
            memo[fn.qualname] = out
    memo[fn.qualname] = out
    return out


class _EmptyVarargs:
    def __repr__(self) -> str:
        return "()"


_EMPTY_VARARGS = _EmptyVarargs()


def _dead_under_callers_defaults(model: Model, g: FunctionInfo, call: ast.Call) -> bool:
    """``call`` sits in a branch of ``g`` that is not taken when g's own NEW optional keywords have their defaults
    (``if not case_sensitive: ... f(x, case_sensitive=False)`` with ``case_sensitive`` a new keyword of g, default
    True): for the documented calls of g that call of f does not happen."""
    sig = KNOWN_SIGNATURES.get(g.qualname)
    if sig is None:
        return False
    mine = {p.name: p.default.value for p in g.params if p.name not in sig and isinstance(p.default, ast.Constant)}
    if not mine:
        return False

    def truth(test):
        if isinstance(test, ast.Name) and test.id in mine:
            return bool(mine[test.id])
        if isinstance(test, ast.UnaryOp) and isinstance(test.op, ast.Not):
            t_ = truth(test.operand)
            return None if t_ is None else not t_
        if isinstance(test, ast.Compare) and len(test.ops) == 1 and isinstance(test.left, ast.Name) and test.left.id in mine and isinstance(test.comparators[0], ast.Constant):
            v_, c_ = mine[test.left.id], test.comparators[0].value
            if isinstance(test.ops[0], (ast.Is, ast.Eq)):
                return v_ is c_ if isinstance(test.ops[0], ast.Is) else v_ == c_
            if isinstance(test.ops[0], (ast.IsNot, ast.NotEq)):
                return v_ is not c_ if isinstance(test.ops[0], ast.IsNot) else v_ != c_
        return None

    def contains(nodes):
        return any(x is call for n_ in nodes for x in ast.walk(n_))

    # the parameter must not be rebound in g
    if any(isinstance(x, ast.Name) and x.id in mine and isinstance(x.ctx, ast.Store) for x in ast.walk(g.node)):
        return False
    for n_ in ast.walk(g.node):
        if isinstance(n_, ast.If):
            t_ = truth(n_.test)
            if t_ is False and contains(n_.body):
                return True
            if t_ is True and contains(n_.orelse):
                return True
        if isinstance(n_, ast.IfExp):
            t_ = truth(n_.test)
            if (t_ is False and any(x is call for x in ast.walk(n_.body))) or (t_ is True and any(x is call for x in ast.walk(n_.orelse))):
                return True
    return False


class Summariser:
    """Builds and caches path summaries.

    Helper functions that the rule set does not know by name (anything not in
    ``known_functions.json``, i.e. helpers introduced by a refactoring) are *transparent*: calls to
    them are inlined into the caller's summary, so that "extract helper" leaves the normal form of
    the caller unchanged.
    """

    def __init__(self, model: Model) -> None:
        self.model = model
        self.cache: dict[str, Summary] = {}

    def summary(self, fn: FunctionInfo | str, full: bool = False, bind: dict | None = None) -> Summary:
        """``full``: every parameter stays symbolic - for the EFFECT analyses (who mutates / captures / writes
        what), which hold for every call.  Default: new optional keywords read with their defaults (what the
        function COMPUTES for the calls the property speaks about)."""
        if isinstance(fn, str):
            fn = self.model.function(fn)
        key = fn.qualname + ("#full" if full else "") + ("#" + repr(sorted(bind.items())) if bind else "")
        s = self.cache.get(key)
        if s is None:
            if bind:
                # the function as ONE call site runs it: the literal keywords that call passes are bound
                building = self.__dict__.setdefault("_building", [])
                building.append(fn.qualname)
                try:
                    s = _Builder(self.model, fn, self, specialise=not full, bind=bind).run()
                finally:
                    building.pop()
            elif full and not new_defaulted_params(self.model, fn):
                s = self.summary(fn)
            else:
                building = self.__dict__.setdefault("_building", [])
                building.append(fn.qualname)
                try:
                    s = _Builder(self.model, fn, self, specialise=not full).run()
                finally:
                    building.pop()
            self.cache[key] = s
        return s

    def inlinable(self, fn: FunctionInfo | None, tail: bool = False, allow_yield: bool = False) -> bool:
        if fn is None or fn.qualname in KNOWN_FUNCTIONS:
            return False
        if fn.qualname in self.__dict__.get("_building", ()):
            # a (directly or mutually) recursive helper: its summary is the one being built
            return False
        if fn.is_property:
            return False
        if fn.cls is not None and fn.cls.name == "Converter" and {"record", "into"} <= {p.name for p in fn.params}:
            # the merger under another name (``_merge`` renamed / fused with the indexing): the rules address it
            # as a function of its own (who may change owned records, frame and cover of the merge)
            return False
        # a decorator changes what calling the function means (memoisation, context managers, ...)
        # (memoisation of a pure function does not: its hazards - I/O, shared mutable results, stale
        # derived values - are judged by dedicated rules that look at the decorator itself)
        if any(d not in ("staticmethod", "classmethod") and not _is_cache_decorator(d) for d in fn.decorators):
            return False
        for n in ast.walk(fn.node):
            if isinstance(n, (ast.Yield, ast.YieldFrom)) and allow_yield:
                continue
            if isinstance(n, (ast.Yield, ast.YieldFrom, ast.Await)):
                return False
            # a `return` inside a loop cannot be spliced into the caller's path structure
            # (in tail position - `return helper(..)` - it can: the caller returns whatever the helper returns)
            if isinstance(n, (ast.For, ast.While, ast.AsyncFor)) and not tail:
                for sub in ast.walk(n):
                    if isinstance(sub, ast.Return):
                        return False
            if isinstance(n, (ast.FunctionDef, ast.AsyncFunctionDef, ast.Lambda)) and n is not fn.node:
                pass
        return True


def _is_cache_decorator(d: str) -> bool:
    head = d.split("(")[0].rsplit(".", 1)[-1]
    return head in ("lru_cache", "cache")


_CONTAINERISH = ("list", "dict", "set", "tuple", "List", "Dict", "Set", "Tuple", "Iterable", "Iterator", "Sequence", "Mapping", "Collection", "Container", "Any", "object", "Converter", "Record", "Graph", "DataFrame")


def _scalar_param(fn, name) -> bool:
    """A parameter annotated with an immutable scalar type (bool / str / int / float / None unions of those)."""
    prm = fn.param(name) if fn is not None else None
    if prm is None or prm.annotation is None:
        return False
    ann = ast.unparse(prm.annotation)
    if any(w in ann for w in _CONTAINERISH):
        return False
    return all(part.strip() in ("bool", "str", "int", "float", "None", "bytes") or part.strip().startswith("Literal[") for part in ann.replace("Optional[", "").replace("]", "").split("|")) or ann.startswith("Literal[")


def _pure_test(t, fn=None) -> bool:
    """A test whose value cannot change along a path: identity comparisons and isinstance of parameters,
    constants and bound values; equality / order / truthiness only of immutable scalars (constants and
    parameters annotated bool / str / int / float) - a container may be mutated between two tests of it.
    No attribute or item reads (objects are mutated in place), no membership in containers, no calls."""
    o = op(t)

    def atom(x):
        return op(x) in ("param", "const", "bv", "lv", "cls", "builtin", "ext", "func", "gconst") or (op(x) == "tuple" and all(atom(y) for y in x[1]))

    def scalar(x):
        return op(x) == "const" or (op(x) == "param" and _scalar_param(fn, x[1]))

    if o == "const":
        return True
    if o == "param":
        return _scalar_param(fn, t[1])
    if o == "cmp":
        if t[1] == "is":
            return atom(t[2]) and atom(t[3])
        return t[1] in ("==", "<", "<=", ">", ">=") and scalar(t[2]) and scalar(t[3])
    if o == "call" and t[1] == ("builtin", "isinstance") and len(t[2]) == 2 and not t[3]:
        return atom(t[2][0]) and atom(t[2][1])
    return False


_MUTATORS = frozenset("pop popitem append add remove discard update setdefault extend insert clear sort reverse send read readline readlines write writerow writerows seek close next __next__ __setitem__ __delitem__".split())


_IMPURE_CACHE: dict = {}


def _impure_names(model) -> frozenset:
    """Names of package functions / methods whose body stores into an attribute or item, deletes, declares
    globals or calls a mutator method: calling one of them twice need not give the same answer."""
    key = id(model)
    if key not in _IMPURE_CACHE:
        out = set()

        def root(x):
            while isinstance(x, (ast.Attribute, ast.Subscript, ast.Call)):
                x = x.func if isinstance(x, ast.Call) else x.value
            return x.id if isinstance(x, ast.Name) else None

        for fn in model.functions.values():
            a = fn.node.args
            outside = {q.arg for q in a.posonlyargs + a.args + a.kwonlyargs} | {q.arg for q in (a.vararg, a.kwarg) if q is not None}
            local = {n.id for n in ast.walk(fn.node) if isinstance(n, ast.Name) and isinstance(n.ctx, ast.Store)} - outside
            for n in ast.walk(fn.node):
                hit = False
                if isinstance(n, (ast.Assign, ast.AugAssign, ast.AnnAssign)):
                    tg = n.targets if isinstance(n, ast.Assign) else [n.target]
                    for t_ in tg:
                        for x in ast.walk(t_):
                            if isinstance(x, (ast.Attribute, ast.Subscript)) and isinstance(getattr(x, "ctx", None), ast.Store) and root(x) not in local:
                                hit = True
                elif isinstance(n, ast.Delete):
                    hit = any(isinstance(x, (ast.Attribute, ast.Subscript)) and root(x) not in local for x in n.targets)
                elif isinstance(n, (ast.Global, ast.Nonlocal, ast.Yield, ast.YieldFrom)):
                    hit = True
                elif isinstance(n, ast.Call) and isinstance(n.func, ast.Attribute) and n.func.attr in _MUTATORS and root(n.func.value) not in local:
                    hit = True
                if hit:
                    out.add(fn.name)
                    break
        # callers of an impure function are impure (by name, to a fixed point)
        calls = {}
        for fn in model.functions.values():
            names = set()
            for n in ast.walk(fn.node):
                if isinstance(n, ast.Call):
                    f = n.func
                    names.add(f.id if isinstance(f, ast.Name) else f.attr if isinstance(f, ast.Attribute) else None)
            calls.setdefault(fn.name, set()).update(names - {None, "__init__"})
        changed = True
        while changed:
            changed = False
            for name, cs in calls.items():
                if name not in out and cs & (out - {"__init__"}):
                    out.add(name)
                    changed = True
        _IMPURE_CACHE.clear()
        _IMPURE_CACHE[key] = frozenset(out)
    return _IMPURE_CACHE[key]


def _effectful(t, model=None) -> bool:
    """May evaluating the test change what a repetition of it sees (consumes an iterator, mutates a container,
    calls a package function that writes state)?"""
    from .terms import callee_name

    impure = _impure_names(model) if model is not None else frozenset()

    def bad(x):
        if op(x) in ("yield", "await", "yieldfrom"):
            return True
        if op(x) == "call":
            if x[1] == ("builtin", "next"):
                return True
            name = callee_name(x)
            return name in _MUTATORS or name in impure
        return False

    return contains(t, bad)


def _multi_path(fn) -> bool:
    """Does the function body branch (if / try / loop)?  Straight-line helpers are inlined at term level."""
    return any(isinstance(n, (ast.If, ast.Try, ast.For, ast.While, ast.IfExp, ast.Match)) for n in ast.walk(fn.node))


def _or_form(e: ast.IfExp) -> bool:
    """``x if x else d`` / ``d if not x else x``: the value of ``x or d`` (kept as one term)."""
    t = e.test
    if isinstance(t, ast.UnaryOp) and isinstance(t.op, ast.Not):
        return ast.dump(t.operand) == ast.dump(e.orelse)
    return ast.dump(t) == ast.dump(e.body)


def _has_break(nodes) -> bool:
    """A ``break`` that belongs to the loop whose body ``nodes`` is."""
    for n in nodes:
        if isinstance(n, ast.Break):
            return True
        if isinstance(n, (ast.For, ast.AsyncFor, ast.While, ast.FunctionDef, ast.AsyncFunctionDef, ast.Lambda, ast.ClassDef)):
            if isinstance(n, (ast.For, ast.AsyncFor, ast.While)) and _has_break(n.orelse):
                return True
            continue
        if _has_break(list(ast.iter_child_nodes(n))):
            return True
    return False


def _len_truth(test, pol):
    """``len(x) > 0`` / ``len(x) != 0`` / ``len(x) >= 1`` test the truth of x (``== 0`` / ``< 1`` its negation)."""
    if op(test) != "cmp":
        return test, pol
    o, l, r = test[1], test[2], test[3]

    def is_len(t):
        return op(t) == "call" and t[1] == ("builtin", "len") and len(t[2]) == 1 and not t[3]

    if is_len(l) and is_const(r) and isinstance(r[1], int) and not isinstance(r[1], bool):
        x, n = l[2][0], r[1]
        if (o, n) in ((">", 0), (">=", 1)):
            return x, pol
        if (o, n) in (("==", 0), ("<", 1), ("<=", 0)):
            return x, not pol
    if is_len(r) and is_const(l) and isinstance(l[1], int) and not isinstance(l[1], bool):
        x, n = r[2][0], l[1]
        if (o, n) in (("<", 0), ("<=", 1)):
            return x, pol
        if (o, n) in (("==", 0), (">", 0), (">=", 1)):
            return x, not pol if (o, n) != ("==", 0) else not pol
    return test, pol


def _is_generator(fn: FunctionInfo) -> bool:
    stack = list(fn.node.body)
    while stack:
        n = stack.pop()
        if isinstance(n, (ast.FunctionDef, ast.AsyncFunctionDef, ast.Lambda, ast.ClassDef)):
            continue
        if isinstance(n, (ast.Yield, ast.YieldFrom)):
            return True
        stack.extend(ast.iter_child_nodes(n))
    return False


class _Eager(ast.NodeTransformer):
    """yield E -> acc.append(E); yield from X -> acc.extend(X); return -> return acc.  Values SENT into the generator
    (``x = yield``) have no eager reading."""

    ACC = "__yielded"

    def __init__(self) -> None:
        self.ok = True

    def visit_FunctionDef(self, node):
        return node

    visit_AsyncFunctionDef = visit_Lambda = visit_ClassDef = visit_FunctionDef

    def visit_Expr(self, node):
        v = node.value
        if isinstance(v, ast.Yield):
            call = ast.Call(func=ast.Attribute(value=ast.Name(id=self.ACC, ctx=ast.Load()), attr="append", ctx=ast.Load()), args=[v.value or ast.Constant(value=None)], keywords=[])
            return ast.copy_location(ast.Expr(value=call), node)
        if isinstance(v, ast.YieldFrom):
            call = ast.Call(func=ast.Attribute(value=ast.Name(id=self.ACC, ctx=ast.Load()), attr="extend", ctx=ast.Load()), args=[v.value], keywords=[])
            return ast.copy_location(ast.Expr(value=call), node)
        return self.generic_visit(node)

    def visit_Yield(self, node):
        self.ok = False
        return node

    visit_YieldFrom = visit_Yield

    def visit_Return(self, node):
        return ast.copy_location(ast.Return(value=ast.Name(id=self.ACC, ctx=ast.Load())), node)


def generator_as_genexp(fn: FunctionInfo, call: ast.Call) -> ast.GeneratorExp | None:
    """A generator function whose body is one chain ``for .. [if ..] [for ..] .. yield E`` IS a generator expression;
    a call of it with plain arguments (names, attribute chains, literals) is that expression with the arguments in
    place of the parameters - laziness, order and multiplicity included."""
    import copy

    body = list(fn.node.body)
    if body and isinstance(body[0], ast.Expr) and isinstance(body[0].value, ast.Constant) and isinstance(body[0].value.value, str):
        body = body[1:]
    if len(body) != 1 or not isinstance(body[0], ast.For):
        return None
    gens: list = []
    node = body[0]
    elt = None
    while True:
        if isinstance(node, ast.For) and not node.orelse and len(node.body) == 1:
            gens.append(ast.comprehension(target=node.target, iter=node.iter, ifs=[], is_async=0))
            node = node.body[0]
        elif isinstance(node, ast.If) and not node.orelse and len(node.body) == 1 and gens:
            gens[-1].ifs.append(node.test)
            node = node.body[0]
        elif isinstance(node, ast.Expr) and isinstance(node.value, ast.Yield) and node.value.value is not None and gens:
            elt = node.value.value
            break
        else:
            return None
    # arguments: plain expressions only, bound by position / keyword to the parameters
    def plain(e):
        return isinstance(e, (ast.Name, ast.Constant)) or (isinstance(e, ast.Attribute) and plain(e.value))

    params = list(fn.params)
    mapping: dict = {}
    if fn.cls is not None and not fn.is_staticmethod:
        if not (isinstance(call.func, ast.Attribute) and plain(call.func.value)) or not params:
            return None
        mapping[params[0].name] = call.func.value
        params = params[1:]
    pos = [p_ for p_ in params if p_.kind == "pos"]
    if any(isinstance(a, ast.Starred) for a in call.args) or any(k.arg is None for k in call.keywords) or len(call.args) > len(pos):
        return None
    for p_, a in zip(pos, call.args):
        mapping[p_.name] = a
    for k in call.keywords:
        if fn.param(k.arg) is None:
            return None
        mapping[k.arg] = k.value
    for p_ in params:
        if p_.name not in mapping:
            if p_.default is None or not plain(p_.default) or p_.kind in ("vararg", "kwarg"):
                return None
            mapping[p_.name] = p_.default
    if not all(plain(v) for v in mapping.values()):
        return None
    ge = ast.GeneratorExp(elt=copy.deepcopy(elt), generators=copy.deepcopy(gens))
    bound = {n.id for g in ge.generators for n in ast.walk(g.target) if isinstance(n, ast.Name)}
    if bound & set(mapping):
        return None

    class Sub(ast.NodeTransformer):
        def visit_Name(self, n):
            if isinstance(n.ctx, ast.Load) and n.id in mapping:
                return ast.copy_location(copy.deepcopy(mapping[n.id]), n)
            return n

    ge = Sub().visit(ge)
    # the arguments must not be captured by the comprehension's own variables
    if any(isinstance(n, ast.Name) and n.id in bound for v in mapping.values() for n in ast.walk(v)):
        return None
    ast.copy_location(ge, call)
    return ast.fix_missing_locations(ge)


class _AsDict(ast.NodeTransformer):
    """yield K, V -> acc[K] = V  (what ``dict(gen(..))`` builds)."""

    ACC = "__yielded"

    def __init__(self) -> None:
        self.ok = True

    def visit_FunctionDef(self, node):
        return node

    visit_AsyncFunctionDef = visit_Lambda = visit_ClassDef = visit_FunctionDef

    def visit_Expr(self, node):
        v = node.value
        if isinstance(v, ast.Yield) and isinstance(v.value, ast.Tuple) and len(v.value.elts) == 2 and not any(isinstance(e, ast.Starred) for e in v.value.elts):
            tgt = ast.Subscript(value=ast.Name(id=self.ACC, ctx=ast.Load()), slice=v.value.elts[0], ctx=ast.Store())
            return ast.copy_location(ast.Assign(targets=[tgt], value=v.value.elts[1]), node)
        if isinstance(v, (ast.Yield, ast.YieldFrom)):
            self.ok = False
            return node
        return self.generic_visit(node)

    def visit_Yield(self, node):
        self.ok = False
        return node

    visit_YieldFrom = visit_Yield

    def visit_Return(self, node):
        return ast.copy_location(ast.Return(value=ast.Name(id=self.ACC, ctx=ast.Load())), node)


def dict_twin(model: Model, fn: FunctionInfo) -> FunctionInfo | None:
    if eager_twin(model, fn) is None:
        return None
    memo = model.__dict__.setdefault("_dict_twins", {})
    if fn.qualname in memo:
        return memo[fn.qualname]
    import copy

    node = copy.deepcopy(fn.node)
    tr = _AsDict()
    body = [tr.visit(st_) for st_ in node.body]
    twin = None
    if tr.ok:
        doc = [body[0]] if body and isinstance(body[0], ast.Expr) and isinstance(body[0].value, ast.Constant) and isinstance(body[0].value.value, str) else []
        init = ast.Assign(targets=[ast.Name(id=_AsDict.ACC, ctx=ast.Store())], value=ast.Dict(keys=[], values=[]))
        fin = ast.Return(value=ast.Name(id=_AsDict.ACC, ctx=ast.Load()))
        last = fn.node.body[-1]
        ast.copy_location(init, fn.node.body[len(doc)] if len(fn.node.body) > len(doc) else fn.node)
        ast.copy_location(fin, last)
        fin.lineno = getattr(last, "end_lineno", last.lineno)
        node.body = doc + [init] + body[len(doc) :] + [fin]
        ast.fix_missing_locations(node)
        twin = FunctionInfo(fn.qualname + "#dict", fn.name, fn.module, node, fn.cls, fn.parent, list(fn.decorators), list(fn.params))
    memo[fn.qualname] = twin
    return twin


class _First(ast.NodeTransformer):
    """yield E -> return (E,); yield from X -> for y in X: return (y,).  What `next(gen, d)` / `for x in gen: return x`
    take from a generator: the first thing it yields, or nothing."""

    def __init__(self) -> None:
        self.ok = True
        self.k = 0

    def visit_FunctionDef(self, node):
        return node

    visit_AsyncFunctionDef = visit_Lambda = visit_ClassDef = visit_FunctionDef

    def visit_Expr(self, node):
        v = node.value
        if isinstance(v, ast.Yield):
            return ast.copy_location(ast.Return(value=ast.Tuple(elts=[v.value or ast.Constant(value=None)], ctx=ast.Load())), node)
        if isinstance(v, ast.YieldFrom):
            self.k += 1
            y = f"__first_{self.k}"
            loop = ast.For(target=ast.Name(id=y, ctx=ast.Store()), iter=v.value, body=[ast.Return(value=ast.Tuple(elts=[ast.Name(id=y, ctx=ast.Load())], ctx=ast.Load()))], orelse=[])
            return ast.copy_location(loop, node)
        return self.generic_visit(node)

    def visit_Yield(self, node):
        self.ok = False
        return node

    visit_YieldFrom = visit_Yield

    def visit_Return(self, node):
        return ast.copy_location(ast.Return(value=ast.Tuple(elts=[], ctx=ast.Load())), node)


def first_twin(model: Model, fn: FunctionInfo) -> FunctionInfo | None:
    """The function that returns ``(first yielded value,)`` or ``()``: see _First."""
    if eager_twin(model, fn) is None:
        return None
    memo = model.__dict__.setdefault("_first_twins", {})
    if fn.qualname in memo:
        return memo[fn.qualname]
    import copy

    node = copy.deepcopy(fn.node)
    tr = _First()
    body = [tr.visit(st_) for st_ in node.body]
    twin = None
    if tr.ok:
        fin = ast.Return(value=ast.Tuple(elts=[], ctx=ast.Load()))
        last = fn.node.body[-1]
        ast.copy_location(fin, last)
        fin.lineno = getattr(last, "end_lineno", last.lineno)
        node.body = body + [fin]
        ast.fix_missing_locations(node)
        twin = FunctionInfo(fn.qualname + "#first", fn.name, fn.module, node, fn.cls, fn.parent, list(fn.decorators), list(fn.params))
    memo[fn.qualname] = twin
    return twin


def eager_twin(model: Model, fn: FunctionInfo) -> FunctionInfo | None:
    """For a generator function that is not an anchor of the rule set: the function that returns the list of what
    it yields (same parameters).  None for anything else."""
    if fn.qualname in KNOWN_FUNCTIONS or fn.qualname.endswith(("#eager", "#first", "#dict")) or isinstance(fn.node, ast.AsyncFunctionDef):
        return None
    memo = model.__dict__.setdefault("_eager_twins", {})
    if fn.qualname in memo:
        return memo[fn.qualname]
    twin = None
    if _is_generator(fn) and not any(d not in ("staticmethod", "classmethod") for d in fn.decorators):
        import copy

        node = copy.deepcopy(fn.node)
        tr = _Eager()
        body = [tr.visit(st_) for st_ in node.body]
        if tr.ok:
            init = ast.Assign(targets=[ast.Name(id=_Eager.ACC, ctx=ast.Store())], value=ast.List(elts=[], ctx=ast.Load()))
            fin = ast.Return(value=ast.Name(id=_Eager.ACC, ctx=ast.Load()))
            doc = [body[0]] if body and isinstance(body[0], ast.Expr) and isinstance(body[0].value, ast.Constant) and isinstance(body[0].value.value, str) else []
            node.body = doc + [init] + body[len(doc) :] + [fin]
            last = fn.node.body[-1]
            ast.copy_location(init, fn.node.body[len(doc)] if len(fn.node.body) > len(doc) else fn.node)
            ast.copy_location(fin, last)
            fin.lineno = getattr(last, "end_lineno", last.lineno)
            ast.fix_missing_locations(node)
            twin = FunctionInfo(fn.qualname + "#eager", fn.name, fn.module, node, fn.cls, fn.parent, list(fn.decorators), list(fn.params))
    memo[fn.qualname] = twin
    return twin


class _Builder:
    def __init__(self, model: Model, fn: FunctionInfo, owner: "Summariser | None" = None, specialise: bool = True, bind: dict | None = None) -> None:
        self.model = model
        self.fn = fn
        self.root_fn = fn
        self.owner = owner
        self.specialise = specialise
        self.bind = bind or {}
        self.low = Lowering(model, fn, fn.module)
        self.truncated = False
        self.inline_stack: list[str] = []
        self.extra_syn: dict[int, list] = {}
        self.cov: tuple = ()  # stack of handler-class tuples of the enclosing try bodies

    def E(self, *a, **k) -> Ev:
        ev = Ev(*a, **k)
        ev.cov = self.cov
        return ev

    def run(self) -> Summary:
        env: dict = {}
        for p in self.fn.params:
            env[p.name] = ("param", p.name)
        if self.specialise:
            # ... and a nested function reads the new keywords of the functions around it the same way
            outer = self.fn.parent
            own = {p.name for p in self.fn.params}
            while outer is not None:
                for name, val in new_defaulted_params(self.model, outer).items():
                    if name not in own and name not in env and not any(isinstance(n_, ast.Name) and n_.id == name and isinstance(n_.ctx, ast.Store) for n_ in ast.walk(outer.node)):
                        env[name] = ("tuple", ()) if val is _EMPTY_VARARGS else ("const", val)
                outer = outer.parent
            for name, val in new_defaulted_params(self.model, self.fn).items():
                env[name] = ("tuple", ()) if val is _EMPTY_VARARGS else ("const", val)
        for name, val in self.bind.items():
            if name in env:
                # a literal value, or (for analyses that run a function on symbolic arguments) a ready-made term
                env[name] = val if (isinstance(val, tuple) and val and isinstance(val[0], str) and val[0] in ("tuple", "sym", "param", "const")) else ("const", val)
        start = Path([], env, None)
        body = list(self.fn.node.body)
        if body and isinstance(body[0], ast.Expr) and isinstance(body[0].value, ast.Constant) and isinstance(body[0].value.value, str):
            body = body[1:]
        paths = self.block(body, [start])
        summ = Summary(self.fn, paths, self.low, self.truncated)
        summ.syn = self.syntactic_terms(body)
        for line, terms in self.extra_syn.items():
            summ.syn[line] = tuple(summ.syn.get(line, ())) + tuple(terms)
        return summ

    # ------------------------------------------------------------------ helper inlining
    def resolve_callee(self, t, generators_as_written: bool = False) -> FunctionInfo | None:
        """The package function a call term invokes, if it can be resolved.  A generator function the rule set does
        not know by name is answered with its EAGER TWIN (the list of what it yields): a loop moved into a small
        generator that its caller consumes at once reads like the loop it was."""
        callee = self._resolve_callee(t)
        if callee is not None and not generators_as_written:
            if getattr(self, "_want_first", False):
                twin = first_twin(self.model, callee)
                if twin is not None:
                    return twin
            if getattr(self, "_want_dict", False):
                twin = dict_twin(self.model, callee)
                if twin is not None:
                    return twin
            twin = eager_twin(self.model, callee)
            if twin is not None:
                return twin
        return callee

    def _resolve_callee(self, t) -> FunctionInfo | None:
        if op(t) != "call":
            return None
        f = t[1]
        m = self.model
        if op(f) in ("func", "closure"):
            return m.functions.get(f[1])
        if op(f) == "attr":
            base, name = f[1], f[2]
            fn = self.fn
            if fn.cls is not None and fn.self_name and base == ("param", fn.self_name):
                return m.find_method(fn.cls, name)
            if fn.cls is not None and fn.is_classmethod and base == ("param", "cls"):
                return m.find_method(fn.cls, name)
            if op(base) == "cls" and base[1] in m.classes:
                return m.find_method(m.classes[base[1]], name)
        return None

    def _bind(self, callee: FunctionInfo, t) -> dict | None:
        params = list(callee.params)
        out: dict = {}
        if callee.cls is not None and not callee.is_staticmethod and params:
            out[params[0].name] = t[1][1] if op(t[1]) == "attr" else ("unk", "recv")
            params = params[1:]
        pos = [q for q in params if q.kind == "pos"]
        args = list(t[2])
        if any(op(a) == "star" for a in args) or any(k is None for k, _ in t[3]):
            return None
        if len(args) > len(pos):
            return None
        for q, a in zip(pos, args):
            out[q.name] = a
        kwparam = next((q for q in params if q.kind == "kwarg"), None)
        extra = []
        for k, v in t[3]:
            prm = callee.param(k)
            if prm is None or prm.kind in ("vararg", "kwarg"):
                if kwparam is None:
                    return None
                extra.append((("const", k), v))
                continue
            out[k] = v
        if kwparam is not None:
            # surplus keyword arguments arrive as the **kwargs dictionary (in call order)
            order = {k: i for i, (k, _) in enumerate(t[3])}
            out[kwparam.name] = ("dict", tuple(extra))
        for q in params:
            if q.name in out:
                continue
            if q.kind in ("vararg", "kwarg"):
                return None
            if q.default is None:
                return None
            out[q.name] = self.low.expr(q.default, {})
        return out

    def inline_call(self, t, p: Path, line: int, tail: bool = False, as_generator: bool = False):
        """Execute an inlinable helper in place.  Returns list of (path, value term) or None."""
        if self.owner is None or len(self.inline_stack) >= 3:
            return None
        callee = self.resolve_callee(t, generators_as_written=as_generator)
        if as_generator and (callee is None or not _is_generator(callee) or eager_twin(self.model, callee) is None):
            return None
        if callee is None or not self.owner.inlinable(callee, tail=tail, allow_yield=as_generator) or callee.qualname in self.inline_stack:
            return None
        bound = self._bind(callee, t)
        if bound is None:
            return None
        if any(isinstance(v_, tuple) and any(op(y_) == "call" for y_ in subterms(v_)) for v_ in bound.values()):
            # arguments computed by calls are evaluated HERE, at the call site (under the handlers that cover it):
            # keep the place visible to analyses that go by line (which exceptions can escape from where)
            p.events.append(self.E("eval", line, t))
        if callee.qualname.endswith("#eager"):
            # what the generator yields now arrives through an intermediate list: rules that follow a value from
            # its source to where it is used (under which tests it was produced) do not see through that list
            self.model.__dict__.setdefault("_reads_through_list", {}).setdefault(self.root_fn.qualname, callee.name)
        body = list(callee.node.body)
        if body and isinstance(body[0], ast.Expr) and isinstance(body[0].value, ast.Constant) and isinstance(body[0].value.value, str):
            body = body[1:]
        saved_env = p.env
        saved = (self.fn, self.low.fn, self.low.mod, self.low.local_imports)
        env = dict(saved_env) if callee.parent is not None else {}
        env.update(bound)
        p.env = env
        self.inline_stack.append(callee.qualname)
        self.fn = callee
        self.low.fn, self.low.mod = callee, callee.module
        self.low.local_imports = dict(self.low.local_imports) if callee.module is saved[2] else {}
        try:
            out_paths = self.block(body, [p])
            # syntactic terms of the helper body, with its parameters replaced by the arguments
            sub = _Builder(self.model, callee, self.owner)
            for ln, terms in sub.syntactic_terms(body).items():
                from .terms import substitute

                # an argument that is itself computed by a call was evaluated ONCE, at the call site: inside the
                # helper it is a value (an opaque local), not another call of that function
                mp = {("param", k): (v if not any(op(y) == "call" for y in subterms(v)) else ("lv", k)) for k, v in bound.items()}
                self.extra_syn.setdefault(ln, []).extend(substitute(x, mp) for x in terms)
        finally:
            self.inline_stack.pop()
            self.fn, self.low.fn, self.low.mod, self.low.local_imports = saved
        res = []
        for q in out_paths:
            val = NONE
            if q.out is not None and q.out[0] == "return":
                val = q.out[1]
                q.out = None
            elif q.out is not None and q.out[0] == "raise":
                q.env = dict(saved_env)
                res.append((q, None))
                continue
            elif q.out is not None:
                q.out = None
            q.env = dict(saved_env)
            res.append((q, val))
        return res

    def inline_terms(self, t, depth: int = 0):
        """Term-level inlining of straight-line unknown helpers inside larger expressions."""
        if self.owner is None or not isinstance(t, tuple) or depth > 3:
            return t
        t = tuple(self.inline_terms(x, depth) if isinstance(x, tuple) else x for x in t)
        if op(t) == "call" and (op(t[1]) == "gconst" or (op(t[1]) == "call" and op(t[1][1]) == "ext" and t[1][1][1] in ("operator.attrgetter", "operator.itemgetter"))):
            # a callable handed to a helper as an argument (an attrgetter constant, ..) and called there: after the
            # helper is read through, the call is the call of that constant
            t2 = self.low.norm_call(t)
            if t2 != t:
                return self.inline_terms(t2, depth + 1)
        if op(t) == "call" and op(t[1]) == "lambda" and len(t[1][1]) == len(t[2]) and not t[3] and not any(op(a) == "star" for a in t[2]):
            from .terms import substitute

            return self.inline_terms(substitute(t[1][2], {("lv", n): a for n, a in zip(t[1][1], t[2])}), depth + 1)
        if op(t) == "call" and op(t[1]) == "bound" and not any(op(a) == "star" for a in t[2]):
            kw = dict(t[1][3])
            kw.update(dict(t[3]))
            return self.inline_terms(("call", t[1][1], tuple(t[1][2]) + tuple(t[2]), tuple(sorted(kw.items(), key=lambda kv: (kv[0] is None, kv[0] or "")))), depth + 1)
        if op(t) == "call":
            callee = self.resolve_callee(t)
            if callee is not None and self.owner.inlinable(callee) and callee.qualname not in self.inline_stack:
                bound = self._bind(callee, t)
                if bound is not None:
                    self.inline_stack.append(callee.qualname)
                    try:
                        cs = self.owner.summary(callee)
                    finally:
                        self.inline_stack.pop()
                    if len(cs.paths) == 1 and cs.paths[0].out is not None and cs.paths[0].out[0] == "return" and all(ev.kind == "bind" for ev in cs.paths[0].events):
                        from .terms import substitute

                        body = self._freshen(cs.paths[0].out[1])
                        return self.inline_terms(substitute(body, {("param", k): v for k, v in bound.items()}), depth + 1)
                    if len(cs.paths) > 1 and all(p_.out is not None and p_.out[0] == "return" and all(ev.kind in ("bind", "guard") for ev in p_.events) for p_ in cs.paths):
                        # several paths told apart by tests that the LITERAL arguments of this call decide
                        # (`_normalize(s, True)`): the one path those arguments select
                        from .terms import substitute

                        mp = {("param", k): v for k, v in bound.items()}
                        live = []
                        for p_ in cs.paths:
                            ok = True
                            for ev in p_.events:
                                if ev.kind != "guard":
                                    continue
                                g_ = substitute(ev.a, mp) if isinstance(ev.a, tuple) else ev.a
                                while op(g_) in ("truth",):
                                    g_ = g_[1]
                                neg = False
                                while op(g_) == "not":
                                    g_, neg = g_[1], not neg
                                if op(g_) == "cmp" and g_[1] in ("is", "is not", "==", "!=") and op(g_[2]) == "const" and op(g_[3]) == "const":
                                    same_ = (g_[2][1] is g_[3][1]) if (g_[2][1] is None or g_[3][1] is None or isinstance(g_[2][1], bool) or isinstance(g_[3][1], bool)) else (type(g_[2][1]) is type(g_[3][1]) and g_[2][1] == g_[3][1])
                                    g_ = ("const", same_ if g_[1] in ("is", "==") else not same_)
                                if op(g_) != "const":
                                    ok = None
                                    break
                                if (bool(g_[1]) != neg) != ev.b:
                                    ok = False
                                    break
                            if ok is None:
                                live = None
                                break
                            if ok:
                                live.append(p_)
                        if live is not None and len(live) == 1:
                            body = self._freshen(live[0].out[1])
                            return self.inline_terms(substitute(body, mp), depth + 1)
        return t

    def _freshen(self, t):
        """Alpha-rename the variables bound inside an inlined helper's term: two instances of the
        same helper must not share bound variables (their binders differ after substitution)."""
        from .terms import subterms, substitute

        bound = set()
        for x in subterms(t):
            if op(x) == "comp":
                for tgt, _, _ in x[3]:
                    for y in subterms(tgt):
                        if op(y) == "bv":
                            bound.add(y)
            elif op(x) == "lambda":
                pass
        if not bound:
            return t
        return substitute(t, {b: ("bv", self.low.fresh(), b[2]) for b in bound})

    def syntactic_terms(self, body: list[ast.stmt]) -> dict[int, tuple]:
        """line -> terms evaluated *by that statement itself* (locals opaque, no copy propagation).

        Effect analyses (MODE, ORDER) use these so that a call is attributed to the statement
        that syntactically contains it and not to later uses of its copy-propagated value.
        """
        shadow: dict = {}
        for n in ast.walk(self.fn.node):
            if isinstance(n, ast.Name) and isinstance(n.ctx, ast.Store):
                shadow[n.id] = ("lv", n.id)
            elif isinstance(n, (ast.FunctionDef, ast.AsyncFunctionDef)) and n is not self.fn.node:
                shadow[n.name] = ("lv", n.name)
        for p in self.fn.params:
            shadow[p.name] = ("param", p.name)
        low = Lowering(self.model, self.fn, self.fn.module)
        low.local_imports = self.low.local_imports
        out: dict[int, list] = {}

        def exprs_of(st: ast.stmt) -> list[ast.expr]:
            if isinstance(st, (ast.If, ast.While)):
                return [st.test]
            if isinstance(st, (ast.For, ast.AsyncFor)):
                return [st.iter]
            if isinstance(st, (ast.With, ast.AsyncWith)):
                return [i.context_expr for i in st.items]
            if isinstance(st, (ast.Try, ast.FunctionDef, ast.AsyncFunctionDef, ast.ClassDef)):
                return []
            if isinstance(st, (ast.Assign, ast.AnnAssign)):
                # a store target is not a read: `d[k] = v` evaluates d and k, not d[k]
                out_: list[ast.expr] = [st.value] if st.value is not None else []
                for tg in st.targets if isinstance(st, ast.Assign) else [st.target]:
                    for n in [tg] if not isinstance(tg, (ast.Tuple, ast.List)) else list(tg.elts):
                        if isinstance(n, ast.Subscript):
                            out_ += [n.value, n.slice]
                        elif isinstance(n, ast.Attribute):
                            out_.append(n.value)
                        elif isinstance(n, ast.Starred):
                            pass
                return out_
            if isinstance(st, ast.Delete):
                return [c for tg in st.targets for c in ([tg.value, tg.slice] if isinstance(tg, ast.Subscript) else [])]
            return [c for c in ast.iter_child_nodes(st) if isinstance(c, ast.expr)]

        def visit(stmts: list[ast.stmt]) -> None:
            for st in stmts:
                for e in exprs_of(st):
                    if isinstance(e, ast.Name):
                        continue
                    try:
                        t = low.expr(e, dict(shadow))
                    except Exception:  # noqa: BLE001
                        continue
                    out.setdefault(st.lineno, []).append(t)
                for fld in ("body", "orelse", "finalbody"):
                    sub = getattr(st, fld, None)
                    if isinstance(sub, list) and sub and isinstance(sub[0], ast.stmt) and not isinstance(st, (ast.FunctionDef, ast.AsyncFunctionDef, ast.ClassDef)):
                        visit(sub)
                for h in getattr(st, "handlers", []) or []:
                    visit(h.body)

        visit(body)
        return {k: tuple(v) for k, v in out.items()}

    # ------------------------------------------------------------------ blocks
    def _hoist_generator_calls(self, st: ast.stmt) -> list[ast.stmt] | None:
        """``list(_iter(x))`` / ``dict(_pairs(c))`` / ``for r in _iter(..)`` / ``next(self._iter(p), None)`` with
        ``_iter`` a generator helper the rules do not know: the call is lifted into a statement of its own
        (``__gen = _iter(x)``) in front, where the helper is read through as its eager twin.  Not out of
        comprehensions, lambdas, conditional operands (evaluated later, repeatedly or not at all) - and not the
        operand of ``yield from``, which is read through as written."""
        if self.owner is None:
            return None
        if isinstance(st, (ast.Assign, ast.AnnAssign, ast.AugAssign, ast.Return, ast.Expr)):
            roots = [("value", st.value)] if getattr(st, "value", None) is not None else []
        elif isinstance(st, ast.For):
            roots = [("iter", st.iter)]
        elif isinstance(st, ast.If):
            roots = [("test", st.test)]
        elif isinstance(st, ast.Raise) and st.exc is not None:
            roots = [("exc", st.exc)]
        else:
            return None
        if not roots:
            return None
        field_, root = roots[0]
        if isinstance(root, (ast.YieldFrom, ast.Yield)) and isinstance(getattr(root, "value", None), ast.Call):
            if isinstance(root, ast.YieldFrom):
                return None
        mod, fn = self.low.mod, self.fn
        found: list = []
        firsts: list = []  # (node to replace, generator call, default expression or None)
        dicts: list = []  # (dict(..) node to replace, generator call)
        targets_of: dict = {}

        def is_gen_helper(call: ast.Call):
            f = call.func
            target = None
            if isinstance(f, ast.Name):
                r = self.model.resolve_global(mod, f.id) if f.id not in {p_.name for p_ in fn.params} else None
                if fn.parent is not None or True:
                    cur = fn
                    while cur is not None and target is None:
                        if f.id in cur.nested:
                            target = cur.nested[f.id]
                        cur = cur.parent
                if target is None and r and r[0] == "func":
                    target = r[1]
            elif isinstance(f, ast.Attribute) and isinstance(f.value, ast.Name) and fn.cls is not None and f.value.id in (fn.self_name, "cls"):
                target = self.model.find_method(fn.cls, f.attr)
            if target is None or target.is_property:
                return False
            if eager_twin(self.model, target) is None:
                return False
            targets_of[id(call)] = target
            return True

        def walk(n, top: bool):
            if isinstance(n, (ast.Lambda, ast.ListComp, ast.SetComp, ast.DictComp, ast.GeneratorExp, ast.IfExp, ast.NamedExpr, ast.Await)):
                return
            if isinstance(n, ast.BoolOp):
                walk(n.values[0], False)
                return
            if isinstance(n, ast.Call) and isinstance(n.func, ast.Name) and n.func.id == "dict" and len(n.args) == 1 and not n.keywords and isinstance(n.args[0], ast.Call) and is_gen_helper(n.args[0]) and dict_twin(self.model, targets_of[id(n.args[0])]) is not None:
                dicts.append((n, n.args[0]))
                return
            if isinstance(n, ast.Call) and not top and is_gen_helper(n):
                found.append(n)
                return
            for c in ast.iter_child_nodes(n):
                walk(c, False)

        # a generator helper of this module that IS a generator expression: written out in place
        import copy as _copy

        swaps = {}
        for n_ in ast.walk(root):
            if isinstance(n_, ast.Call) and is_gen_helper(n_):
                tg = targets_of.get(id(n_))
                if tg is not None and tg.module is mod:
                    ge = generator_as_genexp(tg, n_)
                    if ge is not None:
                        swaps[id(n_)] = ge
        if swaps:

            class Swap(ast.NodeTransformer):
                def visit_Call(self, node):
                    if id(node) in swaps:
                        return swaps[id(node)]
                    return self.generic_visit(node)

            st2 = _copy.copy(st)
            setattr(st2, field_, Swap().visit(root))
            again = self._hoist_generator_calls(st2)
            return again if again is not None else [st2]
        # `for x in gen(..): return x` takes the first thing the generator yields
        if isinstance(st, ast.For) and isinstance(st.iter, ast.Call) and is_gen_helper(st.iter) and isinstance(st.target, ast.Name) and not st.orelse and len(st.body) == 1 and isinstance(st.body[0], ast.Return) and isinstance(st.body[0].value, ast.Name) and st.body[0].value.id == st.target.id:
            name = f"__first_gen_{st.lineno}"
            asg = ast.Assign(targets=[ast.Name(id=name, ctx=ast.Store())], value=st.iter)
            ret = ast.Return(value=ast.Subscript(value=ast.Name(id=name, ctx=ast.Load()), slice=ast.Constant(value=0), ctx=ast.Load()))
            cond = ast.If(test=ast.Name(id=name, ctx=ast.Load()), body=[ret], orelse=[])
            for n_ in (asg, cond):
                ast.copy_location(n_, st)
                for sub in ast.walk(n_):
                    if not hasattr(sub, "lineno"):
                        ast.copy_location(sub, st)
                ast.fix_missing_locations(n_)
            ast.copy_location(ret, st.body[0])
            return [asg, cond]

        def walk_first(n):
            """next(gen(..), default) anywhere outside lazily evaluated positions"""
            if isinstance(n, (ast.Lambda, ast.ListComp, ast.SetComp, ast.DictComp, ast.GeneratorExp, ast.IfExp, ast.NamedExpr, ast.Await)):
                return
            if isinstance(n, ast.BoolOp):
                walk_first(n.values[0])
                return
            if isinstance(n, ast.Call) and isinstance(n.func, ast.Name) and n.func.id == "next" and len(n.args) == 2 and not n.keywords and isinstance(n.args[0], ast.Call) and is_gen_helper(n.args[0]):
                firsts.append((n, n.args[0], n.args[1]))
                return
            for c in ast.iter_child_nodes(n):
                walk_first(c)

        walk_first(root)
        skip = {id(c) for _, c, _ in firsts}
        # the value of an assignment / return / expression statement is read through where it stands
        walk(root, isinstance(st, (ast.Assign, ast.AnnAssign, ast.AugAssign, ast.Return, ast.Expr)))
        found[:] = [c for c in found if id(c) not in skip]
        if not found and not firsts and not dicts:
            return None
        import copy

        pre = []
        mapping = {}
        first_map = {}
        for k, (node_, call) in enumerate(dicts):
            name = f"__dict_gen_{st.lineno}_{k}"
            asg = ast.Assign(targets=[ast.Name(id=name, ctx=ast.Store())], value=call)
            ast.copy_location(asg, st)
            ast.fix_missing_locations(asg)
            pre.append(asg)
            mapping[id(node_)] = name
        for k, (node_, call, dflt) in enumerate(firsts):
            name = f"__first_gen_{st.lineno}_{k}"
            asg = ast.Assign(targets=[ast.Name(id=name, ctx=ast.Store())], value=call)
            ast.copy_location(asg, st)
            ast.fix_missing_locations(asg)
            pre.append(asg)
            first_map[id(node_)] = (name, dflt)
        for k, call in enumerate(found):
            name = f"__gen_{st.lineno}_{k}"
            asg = ast.Assign(targets=[ast.Name(id=name, ctx=ast.Store())], value=call)
            ast.copy_location(asg, st)
            ast.fix_missing_locations(asg)
            pre.append(asg)
            mapping[id(call)] = name

        class Repl(ast.NodeTransformer):
            def visit_Call(self, node):
                if id(node) in mapping:
                    return ast.copy_location(ast.Name(id=mapping[id(node)], ctx=ast.Load()), node)
                if id(node) in first_map:
                    nm, dflt = first_map[id(node)]
                    e = ast.IfExp(test=ast.Name(id=nm, ctx=ast.Load()), body=ast.Subscript(value=ast.Name(id=nm, ctx=ast.Load()), slice=ast.Constant(value=0), ctx=ast.Load()), orelse=dflt)
                    return ast.fix_missing_locations(ast.copy_location(e, node))
                return self.generic_visit(node)

        st2 = copy.copy(st)
        setattr(st2, field_, Repl().visit(root))
        return pre + [st2]

    def block(self, stmts: list[ast.stmt], paths: list[Path], loop_body: bool = False) -> list[Path]:
        if any(isinstance(st, (ast.Assign, ast.AnnAssign, ast.AugAssign, ast.Return, ast.Expr, ast.For, ast.If, ast.Raise)) for st in stmts) and not getattr(self, "_hoisting", False):
            out_stmts: list[ast.stmt] = []
            changed = False
            for st in stmts:
                self._hoisting = True
                try:
                    h = self._hoist_generator_calls(st)
                finally:
                    self._hoisting = False
                if h is None:
                    out_stmts.append(st)
                else:
                    out_stmts.extend(h)
                    changed = True
            if changed:
                stmts = out_stmts
        for i, st in enumerate(stmts):
            if isinstance(st, ast.Assign) and isinstance(st.value, ast.Call) and any(p.out is None for p in paths):
                fm = self._first_match_inline(st, stmts[i + 1 :], loop_body, next(p for p in paths if p.out is None))
                if fm is not None:
                    return self.block(fm, paths, loop_body)
            nxt: list[Path] = []
            for p in paths:
                if p.out is not None:
                    nxt.append(p)
                else:
                    nxt.extend(self.stmt(st, p))
            paths = nxt
            if len(paths) > MAX_PATHS:
                self.truncated = True
                paths = paths[:MAX_PATHS]
        return paths

    # ------------------------------------------------------------------ first-match helpers
    def _first_match_inline(self, st: ast.Assign, rest: list[ast.stmt], loop_body: bool, p: Path):
        """``x = helper(args); REST`` where the helper is a search loop -

            def helper(..):            # same module, undecorated (or memoised), not an anchor of a rule
                <prelude without return>
                for ...:               # no else clause
                    ... return V ...   # the returns sit directly in this loop
                return D               # a constant (or nothing: None)

        and REST does nothing when ``x`` is D - is the loop written out in place, REST moved to where the
        helper returns:  ``for ...: ... x = V; REST; break``.  The helper's local names are renamed apart."""
        import copy

        if self.owner is None or self.inline_stack or len(st.targets) != 1 or not isinstance(st.targets[0], ast.Name):
            return None
        call = st.value
        if any(isinstance(a, ast.Starred) for a in call.args) or any(k.arg is None for k in call.keywords):
            return None
        try:
            ft = self.low.expr(call.func, p.env)
        except Exception:  # noqa: BLE001
            return None
        if op(ft) != "func":
            return None
        callee = self.model.functions.get(ft[1])
        if callee is None or callee.qualname in KNOWN_FUNCTIONS or callee.cls is not None or callee.parent is not None or callee.module is not self.low.mod or callee is self.fn:
            return None
        if any(not _is_cache_decorator(d) for d in callee.decorators):
            return None
        body = list(callee.node.body)
        if body and isinstance(body[0], ast.Expr) and isinstance(body[0].value, ast.Constant) and isinstance(body[0].value.value, str):
            body = body[1:]
        loops = [k for k, b in enumerate(body) if isinstance(b, ast.For)]
        if len(loops) != 1:
            return None
        k = loops[0]
        prelude, loop, tail = body[:k], body[k], body[k + 1 :]
        if loop.orelse or len(tail) > 1:
            return None
        default: ast.expr = ast.Constant(value=None)
        if tail:
            if not (isinstance(tail[0], ast.Return) and (tail[0].value is None or isinstance(tail[0].value, ast.Constant))):
                return None
            default = tail[0].value or default

        def scan(nodes, in_loop):
            """(number of returns directly in the loop, ok?)"""
            n = 0
            for node in nodes:
                if isinstance(node, (ast.FunctionDef, ast.AsyncFunctionDef, ast.Lambda, ast.ClassDef)):
                    continue
                if isinstance(node, (ast.Yield, ast.YieldFrom, ast.Await, ast.Global, ast.Nonlocal)):
                    return -1
                if isinstance(node, ast.Return):
                    if not in_loop:
                        return -1
                    n += 1
                    continue
                if isinstance(node, (ast.For, ast.While, ast.AsyncFor)) and in_loop:
                    # a return in a nested loop would need a two-level break
                    if any(isinstance(x, ast.Return) for x in ast.walk(node)):
                        return -1
                    continue
                sub = scan(list(ast.iter_child_nodes(node)), in_loop)
                if sub < 0:
                    return -1
                n += sub
            return n

        if scan(prelude, False) != 0 or scan([loop.iter], False) != 0:
            return None
        n_ret = scan(loop.body, True)
        if n_ret < 1:
            return None
        x = st.targets[0].id
        # REST owns every later use of x
        inside = {id(n) for r in rest for n in ast.walk(r)}
        for n in ast.walk(self.fn.node):
            if isinstance(n, ast.Name) and n.id == x and id(n) not in inside and n is not st.targets[0]:
                return None
        # scoping of REST's own break / continue once it sits inside the helper's loop
        def outer_jumps(nodes):
            out = []
            for node in nodes:
                if isinstance(node, (ast.Break, ast.Continue)):
                    out.append(node)
                elif isinstance(node, (ast.For, ast.While, ast.AsyncFor)):
                    out.extend(outer_jumps(node.orelse))
                elif not isinstance(node, (ast.FunctionDef, ast.AsyncFunctionDef, ast.Lambda, ast.ClassDef)):
                    out.extend(outer_jumps(list(ast.iter_child_nodes(node))))
            return out

        jumps = outer_jumps(rest)
        if any(isinstance(j, ast.Break) for j in jumps) or (jumps and not loop_body):
            return None
        # REST must do nothing when the helper found nothing
        probe = p.fork()
        probe.env = dict(p.env)
        probe.env[x] = self.low.expr(default, {})
        n0 = len(probe.events)
        saved_trunc = self.truncated
        try:
            outs = self.block(rest, [probe], loop_body)
        except AnalysisError:
            return None
        finally:
            self.truncated = saved_trunc
        for q in outs:
            if q.out is not None and not (q.out == ("continue",) and loop_body):
                return None
            if any(ev.kind not in ("guard", "bind") for ev in q.events[n0:]):
                return None
        # rename the helper's locals apart
        tag = f"__{callee.name}{self.low.fresh()}"
        a = callee.node.args
        params = [q.arg for q in a.posonlyargs + a.args + a.kwonlyargs]
        if a.vararg or a.kwarg:
            return None
        local = set(params)
        for node in ast.walk(callee.node):
            if isinstance(node, ast.Name) and isinstance(node.ctx, ast.Store):
                local.add(node.id)

        class Ren(ast.NodeTransformer):
            def visit_Name(self, node):
                return ast.copy_location(ast.Name(id=node.id + tag, ctx=node.ctx), node) if node.id in local else node

        ren = Ren()
        prelude2 = [ren.visit(copy.deepcopy(b)) for b in prelude]
        loop2 = ren.visit(copy.deepcopy(loop))
        # bind the parameters
        binds = []
        pos = [q.arg for q in a.posonlyargs + a.args]
        if len(call.args) > len(pos):
            return None
        given = dict(zip(pos, call.args))
        for kw in call.keywords:
            if kw.arg not in params or kw.arg in given:
                return None
            given[kw.arg] = kw.value
        defaults = dict(zip(reversed(pos), reversed(a.defaults)))
        defaults.update({q.arg: d for q, d in zip(a.kwonlyargs, a.kw_defaults) if d is not None})
        for name in params:
            v = given.get(name, defaults.get(name))
            if v is None:
                return None
            binds.append(ast.copy_location(ast.Assign(targets=[ast.Name(id=name + tag, ctx=ast.Store())], value=v), st))

        # continue of the enclosing loop == leave the helper's loop (nothing follows it in this iteration)
        class Jump(ast.NodeTransformer):
            def visit_Continue(self, node):
                return ast.copy_location(ast.Break(), node)

            def visit_For(self, node):
                return node

            visit_While = visit_AsyncFor = visit_FunctionDef = visit_AsyncFunctionDef = visit_Lambda = visit_For

        rest2 = [Jump().visit(copy.deepcopy(r)) for r in rest] if jumps else list(rest)

        class Ret(ast.NodeTransformer):
            def visit_Return(self, node):
                val = node.value or ast.Constant(value=None)
                first = ast.copy_location(ast.Assign(targets=[ast.Name(id=x, ctx=ast.Store())], value=val), node)
                return [first, *rest2, ast.copy_location(ast.Break(), node)]

            def visit_For(self, node):
                return node

            visit_While = visit_AsyncFor = visit_FunctionDef = visit_AsyncFunctionDef = visit_Lambda = visit_For

        loop2.body = [y for b in loop2.body for y in (lambda r: r if isinstance(r, list) else [r])(Ret().visit(b))]
        out = [*binds, *prelude2, loop2]
        for node in out:
            ast.fix_missing_locations(node)
        return out

    def stmt(self, st: ast.stmt, p: Path) -> list[Path]:
        if isinstance(st, ast.Assign) and len(st.targets) == 1 and isinstance(st.targets[0], ast.Name) and st.targets[0].id.startswith("__first_gen_"):
            self._want_first = True
            try:
                return self.s_Assign(st, p)
            finally:
                self._want_first = False
        if isinstance(st, ast.Assign) and len(st.targets) == 1 and isinstance(st.targets[0], ast.Name) and st.targets[0].id.startswith("__dict_gen_"):
            self._want_dict = True
            try:
                return self.s_Assign(st, p)
            finally:
                self._want_dict = False
        m = getattr(self, "s_" + type(st).__name__, None)
        if m is None:
            p.events.append(self.E("unknown", st.lineno, ("unk", type(st).__name__)))
            return [p]
        return m(st, p)

    def ex(self, e, p: Path) -> tuple:
        return self.inline_terms(self.low.expr(e, p.env))

    # ------------------------------------------------------------------ match statements
    def s_Match(self, st, p):
        """``match subject: case P: ..`` for the pattern kinds that are tests of one value - class patterns without
        sub-patterns (isinstance), literals and None / True / False, `|` of those, a bare capture / wildcard, each with
        an optional guard - is the if / elif chain it abbreviates.  Anything that takes the subject apart (sequence,
        mapping, attribute sub-patterns) is not modelled."""
        subj = st.subject
        if not isinstance(subj, ast.Name):
            # evaluate once, into a synthetic local
            tmp = ast.Name(id=f"__match_{st.lineno}", ctx=ast.Store())
            asg = ast.Assign(targets=[tmp], value=subj)
            ast.copy_location(asg, st)
            ast.fix_missing_locations(asg)
            subj = ast.Name(id=tmp.id, ctx=ast.Load())
            pre = [asg]
        else:
            pre = []

        def test_of(pat):
            """(test expression or None for 'always', bindings [(name, value expr)]) or raise ValueError"""
            if isinstance(pat, ast.MatchClass) and not pat.patterns and not pat.kwd_patterns:
                return ast.Call(func=ast.Name(id="isinstance", ctx=ast.Load()), args=[subj, pat.cls], keywords=[]), []
            if isinstance(pat, ast.MatchValue):
                return ast.Compare(left=subj, ops=[ast.Eq()], comparators=[pat.value]), []
            if isinstance(pat, ast.MatchSingleton):
                return ast.Compare(left=subj, ops=[ast.Is()], comparators=[ast.Constant(value=pat.value)]), []
            if isinstance(pat, ast.MatchAs):
                if pat.pattern is None:
                    return None, ([(pat.name, subj)] if pat.name else [])
                t_, b_ = test_of(pat.pattern)
                return t_, b_ + ([(pat.name, subj)] if pat.name else [])
            if isinstance(pat, ast.MatchOr):
                parts = [test_of(x) for x in pat.patterns]
                if any(b_ for _, b_ in parts):
                    raise ValueError("bindings inside an or-pattern")
                if any(t_ is None for t_, _ in parts):
                    return None, []
                return ast.BoolOp(op=ast.Or(), values=[t_ for t_, _ in parts]), []
            raise ValueError(type(pat).__name__)

        chain = None
        tail = None
        try:
            for case in st.cases:
                t_, binds = test_of(case.pattern)
                body = [ast.Assign(targets=[ast.Name(id=n_, ctx=ast.Store())], value=v_) for n_, v_ in binds] + list(case.body)
                if case.guard is not None:
                    if binds:
                        raise ValueError("guard over a capture")
                    t_ = case.guard if t_ is None else ast.BoolOp(op=ast.And(), values=[t_, case.guard])
                if t_ is None:
                    node = body
                else:
                    node = ast.If(test=t_, body=body, orelse=[])
                if chain is None:
                    chain = node if isinstance(node, list) else [node]
                    tail = node if isinstance(node, ast.If) else None
                elif tail is not None:
                    tail.orelse = node if isinstance(node, list) else [node]
                    tail = node if isinstance(node, ast.If) else None
                if tail is None:
                    break  # an irrefutable case ends the chain
        except ValueError as e:
            p.events.append(self.E("unknown", st.lineno, ("unk", f"match pattern {e}")))
            return [p]
        stmts = pre + (chain or [])
        for n_ in stmts:
            ast.copy_location(n_, st)
            for sub in ast.walk(n_):
                if not hasattr(sub, "lineno"):
                    ast.copy_location(sub, st)
            ast.fix_missing_locations(n_)
        return self.block(stmts, [p])

    # ------------------------------------------------------------------ simple statements
    def s_Pass(self, st, p):
        return [p]

    s_Global = s_Nonlocal = s_Pass

    def s_Assert(self, st, p):
        p.events.append(self.E("assert", st.lineno, self.ex(st.test, p)))
        return [p]

    def s_Delete(self, st, p):
        for t in st.targets:
            p.events.append(self.E("delete", st.lineno, self.ex(t, p)))
        return [p]

    def s_Import(self, st, p):
        for a in st.names:
            self.low.local_imports[a.asname or a.name.split(".")[0]] = a.name if a.asname else a.name.split(".")[0]
        return [p]

    def s_ImportFrom(self, st, p):
        base = st.module or ""
        if st.level:
            parts = self.fn.module.name.split(".")
            if not self.fn.module.relpath.endswith("__init__.py"):
                parts = parts[:-1]
            anchor = parts[: len(parts) - (st.level - 1)]
            base = ".".join([*anchor, base]) if base else ".".join(anchor)
        for a in st.names:
            self.low.local_imports[a.asname or a.name] = f"{base}.{a.name}"
            p.env.pop(a.asname or a.name, None)
        return [p]

    def s_Expr(self, st, p):
        v = st.value
        if isinstance(v, ast.Constant):
            return [p]
        t = self.ex(v, p)
        if op(t) == "yieldfrom" and op(t[1]) == "call":
            # `yield from self._iter_x(..)` with a generator helper: its yields are this function's yields
            inl = self.inline_call(t[1], p, st.lineno, as_generator=True)
            if inl is not None:
                return [q for q, _ in inl]
        if op(t) in ("yield", "yieldfrom"):
            p.events.append(self.E("yield", st.lineno, t[1]))
            return [p]
        inl = self.inline_call(t, p, st.lineno) if op(t) == "call" else None
        if inl is not None:
            return [q for q, _ in inl]
        if op(t) == "call" and t[1] == ("builtin", "setattr") and len(t[2]) == 3 and not t[3] and is_const(t[2][1]) and isinstance(t[2][1][1], str):
            # setattr(x, "name", v)  is  x.name = v
            p.events.append(self.E("store", st.lineno, ("attr", t[2][0], t[2][1][1]), t[2][2]))
            return [p]
        p.events.append(self.E("expr", st.lineno, t))
        if isinstance(v, ast.Call) and isinstance(v.func, ast.Attribute) and v.func.attr == "sort" and isinstance(v.func.value, ast.Name) and not v.args and v.func.value.id in p.env and op(t) == "call":
            # xs.sort(key=..)  leaves the name bound to what sorted(xs, key=..) would be
            p.env[v.func.value.id] = ("call", ("builtin", "sorted"), (t[1][1],), t[3])
        return [p]

    def _empty_so_far(self, t, p) -> bool:
        """``t`` is a container allocated empty on this path and not mutated (or handed to anything) since."""
        if not (op(t) == "new" and len(t) > 4):
            return False
        init = t[4]
        if not ((op(init) in ("dict", "list", "set", "tuple") and not init[1]) or (isinstance(init, tuple) and len(init) == 2 and init[1] == ())):
            return False
        def touched(events) -> bool:
            for ev in events:
                for x in (ev.a, ev.b):
                    if not isinstance(x, tuple):
                        continue
                    if ev.kind == "bind" and x is ev.b and x == t:
                        continue  # the allocation itself / an alias
                    if ev.kind == "guard":
                        continue
                    if contains(x, lambda y: y == t):
                        return True
                if ev.body and any(touched(q.events) or (q.out is not None and len(q.out) > 1 and isinstance(q.out[1], tuple) and contains(q.out[1], lambda y: y == t)) for q in ev.body):
                    return True
            return False

        return not touched(p.events)

    def _fold_empty_len(self, test, p):
        if not contains(test, lambda y: op(y) == "call" and y[1] == ("builtin", "len") and len(y[2]) == 1 and op(y[2][0]) == "new"):
            return test
        from .terms import substitute as _sub

        m = {}
        for y in subterms(test):
            if op(y) == "call" and y[1] == ("builtin", "len") and len(y[2]) == 1 and op(y[2][0]) == "new" and self._empty_so_far(y[2][0], p):
                m[y] = ("const", 0)
        return _sub(test, m) if m else test

    def _is_callable_object(self, t) -> bool:
        if op(t) in ("bound", "lambda", "func", "cls"):
            return True
        fn = self.fn
        if op(t) == "attr" and fn is not None and fn.cls is not None and fn.self_name and t[1] == ("param", fn.self_name):
            m = self.model.find_method(fn.cls, t[2])
            return m is not None and not m.is_property and not getattr(m, "is_cached_property", False)
        return False

    def _never_none_call(self, t) -> bool:
        """A constructor call, or a call of an alternative constructor (a classmethod all of whose returns are
        ``cls(...)`` and whose body ends in return / raise): the result is an object, never None."""
        if op(t) != "call":
            return False
        f = t[1]
        if op(f) == "cls":
            return True
        if op(f) == "builtin" and f[1] in ("str", "list", "dict", "set", "tuple", "sorted", "len", "frozenset", "repr", "int", "float", "bool", "bytes"):
            return True  # these builtins hand back an object of their type, never None
        if op(f) == "func" and f[1] in self.model.functions:
            # a package function every `return` of which hands back a display / f-string / non-None literal and
            # whose body cannot fall off the end (`_split`: `return prefix, identifier` or a raise)
            g = self.model.functions[f[1]]
            cache = self.model.__dict__.setdefault("_never_none", {})
            if g.qualname not in cache:
                ok = not any(isinstance(n_, (ast.Yield, ast.YieldFrom)) for n_ in ast.walk(g.node)) and not g.decorators
                stack = list(g.node.body)
                n_ret = 0
                while stack and ok:
                    n_ = stack.pop()
                    if isinstance(n_, (ast.FunctionDef, ast.AsyncFunctionDef, ast.Lambda, ast.ClassDef)):
                        continue
                    if isinstance(n_, ast.Return):
                        v_ = n_.value
                        n_ret += 1
                        ok = isinstance(v_, (ast.Tuple, ast.List, ast.Dict, ast.Set, ast.JoinedStr, ast.ListComp, ast.DictComp, ast.SetComp)) or (isinstance(v_, ast.Constant) and v_.value is not None)
                        continue
                    stack.extend(ast.iter_child_nodes(n_))
                last = g.node.body[-1] if g.node.body else None
                cache[g.qualname] = ok and n_ret > 0 and isinstance(last, (ast.Return, ast.Raise))
            return cache[g.qualname]
        if op(f) == "attr" and op(f[1]) == "cls":
            ci = self.model.classes.get(f[1][1])
            m = self.model.find_method(ci, f[2]) if ci is not None else None
            if m is None or not getattr(m, "is_classmethod", False) or not m.params:
                return False
            cache = self.model.__dict__.setdefault("_never_none", {})
            if m.qualname in cache:
                return cache[m.qualname]
            clsname = m.params[0].name
            short = f[1][1].rsplit(".", 1)[-1]
            ok = True
            stack = list(m.node.body)
            while stack and ok:
                n = stack.pop()
                if isinstance(n, (ast.FunctionDef, ast.AsyncFunctionDef, ast.Lambda, ast.ClassDef)):
                    continue
                if isinstance(n, ast.Return):
                    v = n.value
                    ok = isinstance(v, ast.Call) and isinstance(v.func, ast.Name) and v.func.id in (clsname, short)
                    continue
                stack.extend(ast.iter_child_nodes(n))
            last = m.node.body[-1] if m.node.body else None
            ok = ok and isinstance(last, (ast.Return, ast.Raise))
            cache[m.qualname] = ok
            return ok
        return False

    def _lift_ifexp(self, value):
        """A conditional expression nested in displays / call arguments / operators of ``value`` is lifted to
        the top:  f({a if c else b})  ==  f({a}) if c else f({b}).  Not through lambdas, comprehensions,
        short-circuit operators or other conditionals (those evaluate it conditionally or repeatedly)."""
        if value is None or isinstance(value, ast.IfExp):
            return value
        found = []

        def find(n):
            if found:
                return
            if isinstance(n, ast.IfExp):
                found.append(n)
                return
            if isinstance(n, (ast.Lambda, ast.ListComp, ast.SetComp, ast.DictComp, ast.GeneratorExp, ast.BoolOp, ast.NamedExpr, ast.Await, ast.Yield, ast.YieldFrom)):
                return
            for c in ast.iter_child_nodes(n):
                find(c)

        find(value)
        if not found:
            return value
        target = found[0]

        class R(ast.NodeTransformer):
            def __init__(self, repl):
                self.repl = repl

            def visit_IfExp(self, n):
                return self.repl if n is target else self.generic_visit(n)

        import copy

        def with_(repl):
            # NodeTransformer mutates in place: work on a shallow-rebuilt copy of the spine
            marker = {}

            def rebuild(n):
                if n is target:
                    return repl
                if not isinstance(n, ast.AST):
                    return n
                new = copy.copy(n)
                for f, v in ast.iter_fields(n):
                    if isinstance(v, list):
                        setattr(new, f, [rebuild(x) for x in v])
                    elif isinstance(v, ast.AST):
                        setattr(new, f, rebuild(v))
                return new

            return rebuild(value)

        out = ast.IfExp(test=target.test, body=with_(target.body), orelse=with_(target.orelse))
        ast.copy_location(out, value)
        return out

    def _desugar_reduce(self, value):
        """functools.reduce(f, xs, init) with a named ``f``  ->  (statements of the explicit fold, name of the accumulator)."""
        if not (isinstance(value, ast.Call) and len(value.args) == 3 and not value.keywords and isinstance(value.args[0], ast.Name)):
            return None
        f = value.func
        try:
            ft = self.low.expr(f, {})
        except Exception:  # noqa: BLE001
            return None
        if ft != ("ext", "functools.reduce"):
            return None
        n = self.low.fresh()
        acc, x = f"__acc{n}", f"__x{n}"
        init = ast.Assign(targets=[ast.Name(id=acc, ctx=ast.Store())], value=value.args[2])
        step = ast.Assign(targets=[ast.Name(id=acc, ctx=ast.Store())], value=ast.Call(func=value.args[0], args=[ast.Name(id=acc, ctx=ast.Load()), ast.Name(id=x, ctx=ast.Load())], keywords=[]))
        loop = ast.For(target=ast.Name(id=x, ctx=ast.Store()), iter=value.args[1], body=[step], orelse=[])
        for node in (init, loop):
            ast.copy_location(node, value)
            ast.fix_missing_locations(node)
        return [init, loop], acc

    def s_Return(self, st, p):
        red = self._desugar_reduce(st.value)
        if red is not None:
            stmts, acc = red
            ret = ast.copy_location(ast.Return(value=ast.copy_location(ast.Name(id=acc, ctx=ast.Load()), st)), st)
            return self.block([*stmts, ret], [p])
        lifted = self._lift_ifexp(st.value)
        if lifted is not st.value:
            st = ast.copy_location(ast.Return(value=lifted), st)
        if isinstance(st.value, ast.IfExp):
            # `return a if c else b`  ==  `if c: return a` / `else: return b`
            synth = ast.If(test=st.value.test, body=[ast.Return(value=st.value.body)], orelse=[ast.Return(value=st.value.orelse)])
            ast.copy_location(synth, st)
            for sub in (synth.body[0], synth.orelse[0]):
                ast.copy_location(sub, st)
            return self.s_If(synth, p)
        t = self.ex(st.value, p) if st.value is not None else NONE
        inl = self.inline_call(t, p, st.lineno, tail=not self.inline_stack and not self.cov) if op(t) == "call" else None
        if inl is not None:
            out = []
            for q, val in inl:
                if val is not None and q.out is None:
                    q.out = ("return", val, st.lineno, self.cov)
                out.append(q)
            return out
        p.out = ("return", t, st.lineno, self.cov)
        return [p]

    def s_Raise(self, st, p):
        t = self.ex(st.exc, p) if st.exc is not None else ("reraise",)
        p.out = ("raise", t, st.lineno, self.cov)
        return [p]

    def s_Break(self, st, p):
        p.out = ("break",)
        return [p]

    def s_Continue(self, st, p):
        p.out = ("continue",)
        return [p]

    def _new_or(self, value_ast, t: tuple, line: int) -> tuple:
        """Give fresh identity to container allocations so mutations can be attributed.

        ('new', kind, id, line, init): ``init`` is the display the container starts from
        (or the factory of a defaultdict).
        """
        if op(t) in ("list", "dict", "set"):
            return ("new", op(t), self.low.fresh(), line, t)
        if op(t) == "display0":
            return ("new", t[1], self.low.fresh(), line, (t[1], ()))
        if op(t) == "call" and op(t[1]) in ("ext", "builtin") and t[1][1] in ("collections.defaultdict", "defaultdict"):
            factory = t[2][0] if t[2] else NONE
            return ("new", "defaultdict", self.low.fresh(), line, factory)
        if op(t) == "call" and t[1] in (("builtin", "set"), ("builtin", "list")) and len(t[2]) == 1 and not t[3] and getattr(self, "_assign_target", None) in self._mutated_locals():
            # rv = set(xs) ... rv.add(..) / rv.discard(..): a container of its own, starting from the elements of xs
            return ("new", t[1][1], self.low.fresh(), line, t)
        return t

    def _mutated_locals(self) -> set:
        """Local names of the current function on which a mutating container method is called."""
        cache = self.__dict__.setdefault("_mut_cache", {})
        key = id(self.fn.node)
        if key not in cache:
            names = set()
            for n in ast.walk(self.fn.node):
                if isinstance(n, ast.Call) and isinstance(n.func, ast.Attribute) and isinstance(n.func.value, ast.Name) and n.func.attr in ("add", "discard", "remove", "update", "difference_update", "append", "extend", "insert", "pop", "clear", "intersection_update", "symmetric_difference_update"):
                    names.add(n.func.value.id)
            cache[key] = names
        return cache[key]

    def assign(self, target: ast.expr, value: tuple, p: Path, line: int) -> None:
        if isinstance(target, ast.Name):
            p.env[target.id] = value
            p.events.append(self.E("bind", line, target.id, value))
        elif isinstance(target, (ast.Tuple, ast.List)):
            before = dict(p.env)
            self.low.bind_target(target, p.env, value)
            for n in ast.walk(target):
                if isinstance(n, ast.Name):
                    p.events.append(self.E("bind", line, n.id, p.env.get(n.id)))
                elif isinstance(n, (ast.Attribute, ast.Subscript)):
                    p.events.append(self.E("store", line, self.low.expr(n, before), ("unk", "destructured")))
        elif isinstance(target, (ast.Attribute, ast.Subscript)):
            p.events.append(self.E("store", line, self.ex(target, p), value))
        elif isinstance(target, ast.Starred):
            self.assign(target.value, value, p, line)

    def s_Assign(self, st, p):
        red = self._desugar_reduce(st.value)
        if red is not None:
            stmts, acc = red
            fin = ast.copy_location(ast.Assign(targets=st.targets, value=ast.copy_location(ast.Name(id=acc, ctx=ast.Load()), st)), st)
            return self.block([*stmts, fin], [p])
        if len(st.targets) == 1 and isinstance(st.targets[0], ast.Name):
            lifted = self._lift_ifexp(st.value)
            if lifted is not st.value:
                st = ast.copy_location(ast.Assign(targets=st.targets, value=lifted), st)
        if isinstance(st.value, ast.IfExp) and len(st.targets) == 1 and (isinstance(st.targets[0], ast.Name) or (isinstance(st.targets[0], ast.Attribute) and isinstance(st.targets[0].value, ast.Name))) and not _or_form(st.value):
            # `x = a if c else b`  ==  `if c: x = a` / `else: x = b`  (keeps terms free of conditionals)
            mk = lambda v: ast.copy_location(ast.Assign(targets=st.targets, value=v), st)  # noqa: E731
            synth = ast.copy_location(ast.If(test=st.value.test, body=[mk(st.value.body)], orelse=[mk(st.value.orelse)]), st)
            return self.s_If(synth, p)
        fdes = self._desugar_filtered_comp(st, p)
        if fdes is not None:
            return fdes
        raw = self.ex(st.value, p)
        inl = self.inline_call(raw, p, st.lineno) if op(raw) == "call" else None
        if inl is not None:
            out = []
            for q, val in inl:
                if val is not None and q.out is None:
                    v = self._new_or(st.value, val, st.lineno)
                    for t in st.targets:
                        self.assign(t, v, q, st.lineno)
                out.append(q)
            return out
        des = self._desugar_comp(st, raw, p)
        if des is not None:
            return des
        self._assign_target = st.targets[0].id if len(st.targets) == 1 and isinstance(st.targets[0], ast.Name) else None
        try:
            v = self._new_or(st.value, raw, st.lineno)
        finally:
            self._assign_target = None
        for t in st.targets:
            self.assign(t, v, p, st.lineno)
        return [p]

    def _desugar_filtered_comp(self, st, p):
        """``d = {k: v for .. in .. if <tests with := or calls of multi-path helpers>}`` (also list / set
        comprehensions): the explicit loop with the tests as ``if`` statements, so that the helper runs in place
        and the walrus target is an ordinary local."""
        v = st.value
        if not isinstance(v, (ast.DictComp, ast.ListComp, ast.SetComp)) or len(st.targets) != 1 or not isinstance(st.targets[0], ast.Name) or self.owner is None:
            return None
        tests = [c for g in v.generators for c in g.ifs]
        parts = tests + ([v.key, v.value] if isinstance(v, ast.DictComp) else [v.elt])
        has_walrus = any(isinstance(n, ast.NamedExpr) for t in parts for n in ast.walk(t))
        helper = False
        for t in tests:
            for n in ast.walk(t):
                if isinstance(n, ast.Call) and isinstance(n.func, ast.Name):
                    r = self.model.resolve_global(self.low.mod, n.func.id)
                    if r and r[0] == "func" and self.owner.inlinable(r[1]) and r[1].qualname not in KNOWN_FUNCTIONS:
                        helper = True
        if not (has_walrus or helper):
            return None
        name = st.targets[0].id
        empty = ast.Dict(keys=[], values=[]) if isinstance(v, ast.DictComp) else ast.List(elts=[], ctx=ast.Load()) if isinstance(v, ast.ListComp) else ast.Call(func=ast.Name(id="set", ctx=ast.Load()), args=[], keywords=[])
        init = ast.Assign(targets=[ast.Name(id=name, ctx=ast.Store())], value=empty)
        if isinstance(v, ast.DictComp):
            put: ast.stmt = ast.Assign(targets=[ast.Subscript(value=ast.Name(id=name, ctx=ast.Load()), slice=v.key, ctx=ast.Store())], value=v.value)
        else:
            put = ast.Expr(value=ast.Call(func=ast.Attribute(value=ast.Name(id=name, ctx=ast.Load()), attr="append" if isinstance(v, ast.ListComp) else "add", ctx=ast.Load()), args=[v.elt], keywords=[]))
        inner: ast.stmt = put
        for g in reversed(v.generators):
            body: list = [inner]
            for c in reversed(g.ifs):
                body = [ast.If(test=c, body=body, orelse=[])]
            inner = ast.For(target=g.target, iter=g.iter, body=body, orelse=[])
        for n in (init, inner):
            ast.copy_location(n, st)
            for m in ast.walk(n):
                if not hasattr(m, "lineno"):
                    ast.copy_location(m, st)
            ast.fix_missing_locations(n)
        return self.block([init, inner], [p])

    def _desugar_comp(self, st, raw, p):
        """`xs = [helper(x) for x in it]` with a multi-path unknown helper -> explicit loop + append."""
        v = st.value
        if not (isinstance(v, ast.ListComp) and len(v.generators) == 1 and not v.generators[0].ifs and isinstance(v.elt, ast.Call)):
            return None
        if len(st.targets) != 1 or not isinstance(st.targets[0], ast.Name):
            return None
        if op(raw) != "comp" or op(raw[2]) != "call":
            return None
        callee = self.resolve_callee(raw[2])
        if callee is None or self.owner is None or not self.owner.inlinable(callee):
            return None
        name = st.targets[0].id
        init = ast.Assign(targets=[ast.Name(id=name, ctx=ast.Store())], value=ast.List(elts=[], ctx=ast.Load()))
        app = ast.Expr(value=ast.Call(func=ast.Attribute(value=ast.Name(id=name, ctx=ast.Load()), attr="append", ctx=ast.Load()), args=[ast.Name(id="__elt", ctx=ast.Load())], keywords=[]))
        tmp = ast.Assign(targets=[ast.Name(id="__elt", ctx=ast.Store())], value=v.elt)
        loop = ast.For(target=v.generators[0].target, iter=v.generators[0].iter, body=[tmp, app], orelse=[])
        for n in (init, loop, tmp, app):
            ast.copy_location(n, st)
            ast.fix_missing_locations(n)
        return self.block([init, loop], [p])

    def s_AnnAssign(self, st, p):
        if st.value is None:
            return [p]
        # `x: T = v` is `x = v`: the same normal forms (conditional split, helper inlining, fold desugaring) apply
        return self.s_Assign(ast.copy_location(ast.Assign(targets=[st.target], value=st.value), st), p)

    def s_AugAssign(self, st, p):
        from .terms import BINOPS

        cur = self.ex(st.target, p)
        if isinstance(st.op, ast.Add) and isinstance(st.target, ast.Name) and op(cur) == "attr" and cur[2].endswith("_synonyms"):
            # `xs += ys` on a name that denotes a record's synonym list extends THAT list in place
            p.events.append(self.E("expr", st.lineno, ("call", ("attr", cur, "extend"), (self.ex(st.value, p),), ())))
            return [p]
        if isinstance(st.op, ast.Add) and isinstance(st.target, ast.Name) and op(cur) == "new" and cur[1] == "list":
            # in-place concatenation of a list the function allocated: xs.extend(ys)
            p.events.append(self.E("expr", st.lineno, ("call", ("attr", cur, "extend"), (self.ex(st.value, p),), ())))
            return [p]
        raw = self.ex(st.value, p)
        inl = self.inline_call(raw, p, st.lineno) if op(raw) == "call" else None
        if inl is not None:
            # x op= helper(..): the helper runs in place, its value is combined afterwards
            out = []
            for q, val in inl:
                if val is not None and q.out is None:
                    self.assign(st.target, ("bin", BINOPS.get(type(st.op), "?"), cur, val), q, st.lineno)
                out.append(q)
            return out
        v = ("bin", BINOPS.get(type(st.op), "?"), cur, raw)
        self.assign(st.target, v, p, st.lineno)
        return [p]

    def s_FunctionDef(self, st, p):
        nested = self.fn.nested.get(st.name)
        q = nested.qualname if nested is not None else f"{self.fn.qualname}.{st.name}"
        p.env[st.name] = ("closure", q)
        body = [x for x in st.body if not (isinstance(x, ast.Expr) and isinstance(x.value, ast.Constant))]
        if q not in KNOWN_FUNCTIONS and not st.decorator_list and len(body) == 1 and isinstance(body[0], ast.Return) and body[0].value is not None and not st.args.vararg and not st.args.kwarg and not st.args.defaults:
            # a local one-expression function is the same value as the equivalent lambda
            lam = ast.Lambda(args=st.args, body=body[0].value)
            ast.copy_location(lam, st)
            p.env[st.name] = self.low.expr(lam, p.env)
        decos = [self.ex(d, p) for d in st.decorator_list]
        p.events.append(self.E("def", st.lineno, ("closure", q), tuple(decos)))
        return [p]

    s_AsyncFunctionDef = s_FunctionDef

    def s_ClassDef(self, st, p):
        p.env[st.name] = ("localcls", st.name)
        return [p]

    # ------------------------------------------------------------------ control flow
    def s_If(self, st, p):
        test = self.ex(st.test, p)
        if is_const(test) and isinstance(test[1], bool):
            return self.block(st.body if test[1] else st.orelse, [p])
        pol = True
        while op(test) in ("not", "truth"):
            if op(test) == "not":
                pol = not pol
            test = test[1]
        # a test that is a call of a multi-path helper unknown to the rules: run the helper in place
        inl = self.inline_call(test, p, st.lineno) if op(test) == "call" else None
        if inl is not None:
            out: list[Path] = []
            for q, val in inl:
                if val is None:  # the helper raised
                    out.append(q)
                    continue
                out.extend(self._branch(st, q, val, pol))
            return out
        return self._branch(st, p, test, pol)

    def _branch(self, st, p, test, pol):
        return self._branch2(p, test, pol, st.lineno, lambda qs: self.block(st.body, qs), lambda qs: self.block(st.orelse, qs))

    def _branch2(self, p, test, pol, lineno, then_fn, else_fn):
        while op(test) in ("not", "truth"):
            if op(test) == "not":
                pol = not pol
            test = test[1]
        if is_const(test) and isinstance(test[1], bool):
            return then_fn([p]) if (test[1] == pol) else else_fn([p])
        if op(test) in ("and", "or") and len(test[1]) >= 2:
            # short-circuit evaluation is control flow:  ``if a and b: S else: T``  is
            # ``if a: (if b: S else: T) else: T``;  ``or`` is its dual; a negated test swaps the branches
            if not pol:
                then_fn, else_fn = else_fn, then_fn
            first = test[1][0]
            rest = test[1][1] if len(test[1]) == 2 else (op(test), tuple(test[1][1:]))
            if op(test) == "and":
                return self._branch2(p, first, True, lineno, lambda qs: [r for q in qs for r in self._branch2(q, rest, True, lineno, then_fn, else_fn)], else_fn)
            return self._branch2(p, first, True, lineno, then_fn, lambda qs: [r for q in qs for r in self._branch2(q, rest, True, lineno, then_fn, else_fn)])
        # canonical guards: comparisons carry a positive operator, the polarity carries the negation
        neg = {"is not": "is", "!=": "==", "not in": "in"}
        if op(test) == "cmp" and test[1] in neg:
            test = ("cmp", neg[test[1]], test[2], test[3])
            pol = not pol
        test, pol = _len_truth(test, pol)
        # a test on the value of a multi-path helper (`if helper(x):`, `if helper(x) is not None:`): run the helper
        # in place and test what each of its paths returns
        hc = test if op(test) == "call" else next((x for x in (test[2], test[3]) if op(x) == "call"), None) if op(test) == "cmp" else None
        if hc is not None and self.owner is not None:
            callee = self.resolve_callee(hc)
            if callee is not None and callee.qualname not in KNOWN_FUNCTIONS and self.owner.inlinable(callee) and callee.qualname not in self.inline_stack and len(self.inline_stack) < 3 and _multi_path(callee):
                inl = self.inline_call(hc, p, lineno)
                if inl is not None:
                    from .terms import substitute

                    out: list[Path] = []
                    for q, val in inl:
                        if val is None:
                            out.append(q)  # the helper raised
                            continue
                        # names bound to the call (walrus) now hold what this path returned
                        for k_, v_ in list(q.env.items()):
                            if v_ == hc:
                                q.env[k_] = val
                        out.extend(self._branch2(q, substitute(test, {hc: val}), pol, lineno, then_fn, else_fn))
                    return out
        test = self._fold_empty_len(test, p)
        if op(test) == "cmp" and test[1] in ("<", "<=", ">", ">=", "!=", "==") and is_const(test[2]) and is_const(test[3]) and type(test[2][1]) is int and type(test[3][1]) is int:
            import operator as _o

            val = {"<": _o.lt, "<=": _o.le, ">": _o.gt, ">=": _o.ge, "!=": _o.ne, "==": _o.eq}[test[1]](test[2][1], test[3][1])
            return then_fn([p]) if (val == pol) else else_fn([p])
        if op(test) == "new" and test[1] in ("dict", "list", "set") and self._empty_so_far(test, p):
            # the truth value of a container this path has just created empty and not touched since
            return then_fn([p]) if (False == pol) else else_fn([p])  # noqa: E712
        if op(test) in ("tuple", "list") and not any(op(e_) == "star" for e_ in test[1]):
            # the truth value of a display is whether it has elements
            return then_fn([p]) if (bool(test[1]) == pol) else else_fn([p])
        if is_const(test) and (test[1] is None or isinstance(test[1], (bool, int, str, float, bytes))):
            # the truth value of a literal (after copy propagation: `x = None` ... `if x:`) is decided
            return then_fn([p]) if (bool(test[1]) == pol) else else_fn([p])
        if op(test) == "cmp" and is_const(test[2]) and is_const(test[3]) and test[1] in ("is", "=="):
            # a comparison of two literals (after copy propagation) is decided
            a_, b_ = test[2][1], test[3][1]
            same = (a_ is b_) if (test[1] == "is" and (a_ is None or b_ is None or isinstance(a_, bool) or isinstance(b_, bool))) else (type(a_) is type(b_) and a_ == b_) if test[1] == "==" else None
            if same is not None:
                return then_fn([p]) if (same == pol) else else_fn([p])
        if op(test) == "cmp" and test[1] in ("is", "==") and any(is_const(x, None) for x in (test[2], test[3])) and any(op(x) in ("tuple", "list", "dict", "set", "concat", "new", "comp") for x in (test[2], test[3])):
            # a freshly built display / string / container is not None
            return then_fn([p]) if not pol else else_fn([p])
        if op(test) == "cmp" and test[1] in ("is", "==") and any(is_const(x, None) for x in (test[2], test[3])) and any(self._is_callable_object(x) for x in (test[2], test[3])):
            # nor is a function, a class, a lambda, a partial application or a bound method of self
            return then_fn([p]) if not pol else else_fn([p])
        if op(test) == "cmp" and test[1] in ("is", "==") and any(is_const(x, None) for x in (test[2], test[3])) and any(self._never_none_call(x) for x in (test[2], test[3])):
            # nor is what a constructor / alternative constructor returns
            return then_fn([p]) if not pol else else_fn([p])
        if _pure_test(test, self.fn):
            # the same value-level test was already decided on this path: only the consistent arm is feasible
            for ev in p.events:
                if ev.kind == "guard" and ev.a == test:
                    return then_fn([p]) if ev.b == pol else else_fn([p])
        elif not _effectful(test, self.model):
            # the same test repeated with nothing but tests (and call-free bindings) in between
            for ev in reversed(p.events):
                if ev.kind == "guard":
                    if ev.a == test:
                        return then_fn([p]) if ev.b == pol else else_fn([p])
                    if _effectful(ev.a, self.model):
                        break
                elif ev.kind == "bind" and isinstance(ev.b, tuple) and not contains(ev.b, lambda x: op(x) in ("call", "bound", "yield", "await")):
                    continue
                else:
                    break
        a, b = p, p.fork()
        a.events.append(self.E("guard", lineno, test, pol))
        b.events.append(self.E("guard", lineno, test, not pol))
        return then_fn([a]) + else_fn([b])

    def _assigned_names(self, stmts: list[ast.stmt], env: dict | None = None) -> set[str]:
        out = set()
        aug_only: dict[str, bool] = {}
        for s in stmts:
            for n in ast.walk(s):
                if isinstance(n, ast.AugAssign) and isinstance(n.op, ast.Add) and isinstance(n.target, ast.Name):
                    aug_only.setdefault(n.target.id, True)
            for n in ast.walk(s):
                if isinstance(n, ast.Name) and isinstance(n.ctx, ast.Store):
                    out.add(n.id)
        if env:
            plain = set()
            for s in stmts:
                for n in ast.walk(s):
                    if isinstance(n, ast.AugAssign) and isinstance(n.op, ast.Add) and isinstance(n.target, ast.Name):
                        continue
                    for c in ast.iter_child_nodes(n):
                        if isinstance(c, ast.Name) and isinstance(c.ctx, ast.Store) and not (isinstance(n, ast.AugAssign) and isinstance(n.op, ast.Add)):
                            plain.add(c.id)
            for name in list(aug_only):
                # xs += ys on a list the function allocated is xs.extend(ys): the name keeps denoting the same list
                v = env.get(name)
                if name not in plain and op(v) == "new" and v[1] == "list":
                    out.discard(name)
        return out

    def _gconst_display(self, t, loop=None):
        """A module-level constant that is a short literal tuple/list display (a dispatch table): its elements."""
        mod = self.model.modules.get(t[1])
        node = mod.constants.get(t[2]) if mod is not None else None
        # a table of attribute NAMES is code too when the loop reflects on them: getattr(x, name) / setattr(x, name, v)
        if loop is not None and isinstance(loop.target, ast.Name) and isinstance(node, (ast.Tuple, ast.List)) and 0 < len(node.elts) <= 8 and all(isinstance(x, ast.Constant) and isinstance(x.value, str) and x.value.isidentifier() for x in node.elts):
            var = loop.target.id
            reflects = any(
                isinstance(n, ast.Call) and isinstance(n.func, ast.Name) and n.func.id in ("getattr", "setattr", "hasattr", "delattr") and len(n.args) >= 2 and isinstance(n.args[1], ast.Name) and n.args[1].id == var
                for b in loop.body
                for n in ast.walk(b)
            )
            if reflects:
                return ("tuple", tuple(("const", x.value) for x in node.elts))
        # only tables of code (functions / classes, possibly in tuples): plain data such as a
        # tuple of strings stays a loop
        def codeish(x) -> bool:
            if isinstance(x, (ast.Tuple, ast.List)):
                return any(codeish(y) for y in x.elts)
            return isinstance(x, (ast.Name, ast.Attribute, ast.Lambda))

        if isinstance(node, (ast.Tuple, ast.List)) and 0 < len(node.elts) <= 8 and not any(isinstance(x, ast.Starred) for x in node.elts) and all(codeish(x) for x in node.elts):
            try:
                low = Lowering(self.model, None, mod)
                return low.expr(node, {})
            except Exception:  # noqa: BLE001
                return None
        return None

    def _loop_body(self, p, assigned, loop_id, run):
        """Summarise a loop body with the names it assigns abstracted to loop-carried values - except the names
        every assignment of which stores the carried value itself (``acc = f(acc, x)`` with f returning its
        first argument): those keep their value from before the loop."""
        def mk_env(skip=frozenset()):
            env = dict(p.env)
            for n in assigned:
                if n in env and n not in skip:
                    env[n] = ("phi", n, loop_id)
            return env

        body_paths = run(mk_env())
        binds: dict[str, list] = {}

        def collect(paths):
            for q in paths:
                for ev in q.events:
                    if ev.kind == "bind" and isinstance(ev.a, str):
                        binds.setdefault(ev.a, []).append(ev.b)
                    if ev.body:
                        collect(ev.body)

        collect(body_paths)
        inv = {n for n in assigned if n in p.env and binds.get(n) and all(b == ("phi", n, loop_id) for b in binds[n])}
        if inv:
            body_paths = run(mk_env(frozenset(inv)))
        return body_paths, inv

    def s_For(self, st, p, it=None):
        it = self.ex(st.iter, p) if it is None else it
        if op(it) == "call" and it[1] == ("ext", "itertools.chain.from_iterable") and len(it[2]) == 1 and not it[3] and op(it[2][0]) == "comp" and it[2][0][1] in ("gen", "list") and len(it[2][0][3]) == 1 and not st.orelse and not _has_break(st.body):
            # for x in chain.from_iterable(E(c) for c in cs if f(c)): body   ==   for c in cs: if f(c): for x in E(c): body
            comp = it[2][0]
            ctgt, csrc, cifs = comp[3][0]
            oid = self.low.fresh()
            assigned = self._assigned_names(st.body, p.env) | {x.id for x in ast.walk(st.target) if isinstance(x, ast.Name)}

            def run(env):
                paths = [Path([], env, None)]
                for c in cifs:
                    def skip(qs):
                        for q in qs:
                            q.out = ("continue",)
                        return qs

                    paths = [r for q in paths for r in (self._branch2(q, c, True, st.lineno, lambda qs: qs, skip) if q.out is None else [q])]
                return [r for q in paths for r in (self.s_For(st, q, it=comp[2]) if q.out is None else [q])]

            body_paths, inv = self._loop_body(p, assigned, oid, run)
            p.events.append(self.E("loop", st.lineno, ctgt, csrc, oid, body_paths))
            for n in assigned - inv:
                p.env[n] = ("phi", n, oid)
            return [p]
        if op(it) == "comp" and it[1] == "gen" and len(it[3]) == 1 and not st.orelse:
            # for x in (E(c) for c in cs if f(c)): body   ==   for c in cs: if f(c): x = E(c); body
            # (a generator only: the elements of a LIST comprehension live on in the list, and what the loop does
            # to them shows there)
            ctgt, csrc, cifs = it[3][0]
            oid = self.low.fresh()
            assigned = self._assigned_names(st.body, p.env) | {x.id for x in ast.walk(st.target) if isinstance(x, ast.Name)}

            def run(env):
                paths = [Path([], env, None)]
                for c in cifs:
                    def skip(qs):
                        for q in qs:
                            q.out = ("continue",)
                        return qs

                    paths = [r for q in paths for r in (self._branch2(q, c, True, st.lineno, lambda qs: qs, skip) if q.out is None else [q])]
                out = []
                for q in paths:
                    if q.out is not None:
                        out.append(q)
                        continue
                    self.low.bind_target(st.target, q.env, it[2])
                    out += self.block(st.body, [q], True)
                return out

            body_paths, inv = self._loop_body(p, assigned, oid, run)
            p.events.append(self.E("loop", st.lineno, ctgt, csrc, oid, body_paths))
            for n in assigned - inv:
                p.env[n] = ("phi", n, oid)
            return [p]
        if op(it) == "gconst":
            lit = self._gconst_display(it, st)
            if lit is not None:
                it = lit
        if op(it) in ("tuple", "list") and 0 < len(it[1]) <= 8 and not any(op(x) == "star" for x in it[1]) and not st.orelse:
            # a loop over a literal display is unrolled: one copy of the body per element
            paths = [p]
            for elt in it[1]:
                nxt: list[Path] = []
                for q in paths:
                    if q.out is not None:
                        nxt.append(q)
                        continue
                    self.low.bind_target(st.target, q.env, elt)
                    for r in self.block(st.body, [q], True):
                        if r.out == ("continue",):
                            r.out = None
                        nxt.append(r)
                paths = nxt
            for q in paths:
                if q.out == ("break",):
                    q.out = None
            return paths
        loop_id = self.low.fresh()
        assigned = self._assigned_names(st.body, p.env)
        box = {}
        # for i, x in enumerate(xs[, start]):  is the loop over xs with a running counter on the side
        counted = None
        if op(it) == "call" and it[1] == ("builtin", "enumerate") and it[2] and isinstance(st.target, (ast.Tuple, ast.List)) and len(st.target.elts) == 2 and isinstance(st.target.elts[0], ast.Name):
            counted = st.target.elts[0].id
            it = it[2][0]

        def run(env):
            if counted is not None:
                env[counted] = ("count", loop_id)
                box["tgt"] = self.low.bind_target(st.target.elts[1], env, None)
            else:
                box["tgt"] = self.low.bind_target(st.target, env, None)
            return self.block(st.body, [Path([], env, None)], True)

        body_paths, inv = self._loop_body(p, assigned, loop_id, run)
        tgt = box["tgt"]
        ev = self.E("loop", st.lineno, tgt, it, loop_id, body_paths)
        p.events.append(ev)
        for n in (assigned - inv) | {x.id for x in ast.walk(st.target) if isinstance(x, ast.Name)}:
            p.env[n] = ("phi", n, loop_id)
        # a ``return`` inside the body stays inside ev.body; the loop may also finish normally
        if st.orelse:
            return self.block(st.orelse, [p])
        return [p]

    s_AsyncFor = s_For

    def s_While(self, st, p):
        loop_id = self.low.fresh()
        assigned = self._assigned_names(st.body, p.env)
        env = dict(p.env)
        for n in assigned:
            if n in env:
                env[n] = ("phi", n, loop_id)
        test = self.low.expr(st.test, env)
        body_paths = self.block(st.body, [Path([], env, None)], True)
        p.events.append(self.E("while", st.lineno, test, None, loop_id, body_paths))
        for n in assigned:
            p.env[n] = ("phi", n, loop_id)
        if st.orelse:
            return self.block(st.orelse, [p])
        return [p]

    def s_With(self, st, p):
        n = 0
        for item in st.items:
            ctx = self.ex(item.context_expr, p)
            bv = None
            if item.optional_vars is not None:
                bv = ("ctx", self.low.fresh(), ctx)
                if isinstance(item.optional_vars, ast.Name):
                    p.env[item.optional_vars.id] = bv
            p.events.append(self.E("with", st.lineno, ctx, bv))
            n += 1
        out = self.block(st.body, [p])
        for q in out:
            for _ in range(n):
                q.events.append(self.E("endwith", getattr(st, "end_lineno", st.lineno)))
        return out

    s_AsyncWith = s_With

    def s_Try(self, st, p):
        entry = p.fork()
        names_all = []
        for h in st.handlers:
            if h.type is None:
                names_all.append("BaseException")
            elif isinstance(h.type, ast.Tuple):
                names_all.extend(ast.unparse(x) for x in h.type.elts)
            else:
                names_all.append(ast.unparse(h.type))
        saved_cov = self.cov
        if st.handlers:
            self.cov = saved_cov + (tuple(names_all),)
        normal = self.block(st.body, [p])
        self.cov = saved_cov
        assigned = self._assigned_names(st.body)
        out: list[Path] = []
        fall = [q for q in normal if q.out is None]
        done = [q for q in normal if q.out is not None]
        if st.orelse:
            fall = self.block(st.orelse, fall)
        out.extend(done)
        out.extend(fall)
        for h in st.handlers:
            q = entry.fork()
            for n in assigned:
                if n in q.env:
                    q.env[n] = ("phi", n, ("try", st.lineno))
            if h.type is None:
                names: tuple = ("BaseException",)
            elif isinstance(h.type, ast.Tuple):
                names = tuple(ast.unparse(x) for x in h.type.elts)
            else:
                names = (ast.unparse(h.type),)
            bv = None
            if h.name:
                bv = ("bv", self.low.fresh(), h.name)
                q.env[h.name] = bv
            q.events.append(self.E("except", h.lineno, names, bv, st.lineno))
            out.extend(self.block(h.body, [q]))
        if st.finalbody:
            res = []
            for q in out:
                saved = q.out
                q.out = None
                for r in self.block(st.finalbody, [q]):
                    if r.out is None:
                        r.out = saved
                    res.append(r)
            out = res
        return out

    s_TryStar = s_Try


def describe_path(ctx: Ctx) -> str:
    """Readable witness: guards passed on the way to an event."""
    parts = []
    for g in ctx.guards:
        if g.kind == "guard":
            parts.append(("" if g.b else "not ") + show(g.a) + f" @{g.line}")
        else:
            parts.append("except " + "/".join(g.a) + f" @{g.line}")
    return " -> ".join(parts) if parts else "(unconditional)"


__all__ = ["Ctx", "Ev", "Path", "Summariser", "Summary", "describe_path"]
