"""Source model of the package under analysis (DESIGN.md 2.1/2.2).

Everything here reads *source text*; ``curies`` is never imported.
"""

from __future__ import annotations

import ast
import os
import pathlib
from dataclasses import dataclass, field

DEFAULT_SRC = "/repo/src/curies"
PKG = "curies"


class AnalysisError(Exception):
    """The analyser cannot decide (anchor vanished, unrecognised construct)."""

    def __init__(self, reason: str, obligation: str = "-") -> None:
        super().__init__(reason)
        self.reason = reason
        self.obligation = obligation


def src_root() -> pathlib.Path:
    return pathlib.Path(os.environ.get("CURIES_SRC", DEFAULT_SRC))


def read_tree(root: pathlib.Path | None = None) -> dict[str, str]:
    root = root or src_root()
    if not root.is_dir():
        raise AnalysisError(f"source root {root} does not exist")
    files = {}
    for p in sorted(root.rglob("*.py")):
        if "__pycache__" in p.parts:
            continue
        files[p.relative_to(root).as_posix()] = p.read_text(encoding="utf-8")
    return files


@dataclass
class Param:
    name: str
    annotation: ast.expr | None
    default: ast.expr | None
    kind: str  # pos | kwonly | vararg | kwarg


@dataclass
class FunctionInfo:
    qualname: str
    name: str
    module: "ModuleInfo"
    node: ast.FunctionDef
    cls: "ClassInfo | None" = None
    parent: "FunctionInfo | None" = None
    decorators: list[str] = field(default_factory=list)
    params: list[Param] = field(default_factory=list)
    nested: dict[str, "FunctionInfo"] = field(default_factory=dict)

    @property
    def is_property(self) -> bool:
        return any(d in ("property", "cached_property", "functools.cached_property") for d in self.decorators)

    @property
    def is_cached_property(self) -> bool:
        return any(d in ("cached_property", "functools.cached_property") or d.endswith("lru_cache") or d.endswith(".cache") or d == "cache" for d in self.decorators)

    @property
    def is_classmethod(self) -> bool:
        return "classmethod" in self.decorators

    @property
    def is_staticmethod(self) -> bool:
        return "staticmethod" in self.decorators

    @property
    def where(self) -> str:
        return f"src/curies/{self.module.relpath}:{self.node.lineno}"

    def param(self, name: str) -> Param | None:
        for p in self.params:
            if p.name == name:
                return p
        return None

    @property
    def param_names(self) -> list[str]:
        return [p.name for p in self.params]

    @property
    def self_name(self) -> str | None:
        if self.cls is not None and not self.is_staticmethod and self.params:
            return self.params[0].name
        return None


@dataclass
class ClassInfo:
    qualname: str
    name: str
    module: "ModuleInfo"
    node: ast.ClassDef
    base_exprs: list[str] = field(default_factory=list)
    methods: dict[str, FunctionInfo] = field(default_factory=dict)
    fields: dict[str, tuple[ast.expr | None, ast.expr | None]] = field(default_factory=dict)
    assigns: dict[str, ast.expr] = field(default_factory=dict)


@dataclass
class ModuleInfo:
    relpath: str
    name: str  # dotted module name
    tree: ast.Module
    source: str
    functions: dict[str, FunctionInfo] = field(default_factory=dict)
    classes: dict[str, ClassInfo] = field(default_factory=dict)
    constants: dict[str, ast.expr] = field(default_factory=dict)
    imports: dict[str, str] = field(default_factory=dict)  # local name -> dotted target

    def line(self, lineno: int) -> str:
        lines = self.source.splitlines()
        return lines[lineno - 1].strip() if 0 < lineno <= len(lines) else ""


BUILTIN_EXC_BASES = {
    "BaseException": [],
    "Exception": ["BaseException"],
    "LookupError": ["Exception"],
    "KeyError": ["LookupError"],
    "IndexError": ["LookupError"],
    "ValueError": ["Exception"],
    "UnicodeError": ["ValueError"],
    "TypeError": ["Exception"],
    "AttributeError": ["Exception"],
    "RuntimeError": ["Exception"],
    "NotImplementedError": ["RuntimeError"],
    "StopIteration": ["Exception"],
    "OSError": ["Exception"],
    "AssertionError": ["Exception"],
    "ArithmeticError": ["Exception"],
    "ZeroDivisionError": ["ArithmeticError"],
}


def _decorator_name(d: ast.expr) -> str:
    if isinstance(d, ast.Call):
        d = d.func
    try:
        return ast.unparse(d)
    except Exception:  # pragma: no cover
        return "?"


def _params(node: ast.FunctionDef) -> list[Param]:
    a = node.args
    out: list[Param] = []
    pos = list(a.posonlyargs) + list(a.args)
    defaults = [None] * (len(pos) - len(a.defaults)) + list(a.defaults)
    for arg, d in zip(pos, defaults):
        out.append(Param(arg.arg, arg.annotation, d, "pos"))
    if a.vararg:
        out.append(Param(a.vararg.arg, a.vararg.annotation, None, "vararg"))
    for arg, d in zip(a.kwonlyargs, a.kw_defaults):
        out.append(Param(arg.arg, arg.annotation, d, "kwonly"))
    if a.kwarg:
        out.append(Param(a.kwarg.arg, a.kwarg.annotation, None, "kwarg"))
    return out


class Model:
    """All modules of the package, with symbol tables and light resolution."""

    def __init__(self, files: dict[str, str] | None = None) -> None:
        self.files = files if files is not None else read_tree()
        self.modules: dict[str, ModuleInfo] = {}
        self.functions: dict[str, FunctionInfo] = {}
        self.classes: dict[str, ClassInfo] = {}
        for relpath, text in self.files.items():
            try:
                tree = ast.parse(text, filename=relpath)
            except SyntaxError as e:
                raise AnalysisError(f"syntax error in {relpath}: {e}") from None
            modname = self._modname(relpath)
            mod = ModuleInfo(relpath, modname, tree, text)
            self.modules[modname] = mod
            self._index_module(mod)
        self._const_cache: dict[tuple[str, str], object] = {}
        self._rehome_moved_definitions()

    def _rehome_moved_definitions(self) -> None:
        """A function, class or constant that a module of the PINNED tree now imports from a module the pinned tree
        does not have (``from ._helpers import _split`` after the helper was moved out of api.py) is addressed under
        the name it had: rules, known-function tables and terms keep speaking of ``curies.api._split``.  The
        definition itself - and the module whose globals its body sees - stay where the source has them."""
        import json as _json
        from pathlib import Path as _P

        here = _P(__file__).parent
        try:
            known = set(_json.loads((here / "known_signatures.json").read_text())) | set(_json.loads((here / "known_functions.json").read_text()))
            consts_ = _json.loads((here / "known_constants.json").read_text())
            pinned_mods = set(consts_)
            known |= {f"{m_}.{n_}" for m_, ns_ in consts_.items() for n_ in ns_}
        except Exception:  # noqa: BLE001
            return
        new_mods = {m for m in self.modules if m not in pinned_mods}
        if not new_mods:
            return
        # prefer the importer under whose name the pinned tree knows the definition; otherwise the first importer
        cands: dict = {}
        for M in sorted(self.modules.values(), key=lambda m_: m_.name):
            if M.name in new_mods:
                continue
            for name, target in M.imports.items():
                head, _, last = target.rpartition(".")
                if head in new_mods:
                    cands.setdefault((head, last), []).append((M, name))
        self.rehomed: dict = {}
        for (head, last), users in cands.items():
            N = self.modules[head]
            pick = next(((M, n) for M, n in users if f"{M.name}.{n}" in known or any(k.startswith(f"{M.name}.{n}.") for k in known)), None)
            if pick is None:
                pick = next(((M, n) for M, n in users if M.name.endswith(".api")), users[0])
            M, name = pick
            q_new = f"{M.name}.{name}"
            if last in N.functions and q_new not in self.functions:
                fi = N.functions[last]
                old_q = fi.qualname
                self._rekey_function(fi, q_new)
                M.functions[name] = fi
                self.rehomed[old_q] = q_new
            elif last in N.classes and q_new not in self.classes:
                ci = N.classes[last]
                old_q = ci.qualname
                self.classes.pop(old_q, None)
                ci.qualname = q_new
                self.classes[q_new] = ci
                M.classes[name] = ci
                for m_ in list(ci.methods.values()):
                    self._rekey_function(m_, f"{q_new}.{m_.name}")
                self.rehomed[old_q] = q_new
            elif last in N.constants and (name not in M.constants or M.constants[name] is N.constants[last]):
                # the constant is looked up in the pinned module; what its expression refers to comes along
                for k_, v_ in N.constants.items():
                    M.constants.setdefault(k_, v_)
                for k_, v_ in N.imports.items():
                    M.imports.setdefault(k_, v_)
                self.rehomed[f"{head}.{last}"] = q_new
        # importers other than the chosen home (and the new module itself) resolve to the same objects; constants
        # imported straight from the new module are redirected to the pinned home
        self._const_home = {tuple(k.rsplit(".", 1)): tuple(v.rsplit(".", 1)) for k, v in self.rehomed.items()}

    def _rekey_function(self, fi: "FunctionInfo", q_new: str) -> None:
        old_q = fi.qualname
        self.functions.pop(old_q, None)
        fi.qualname = q_new
        self.functions[q_new] = fi
        for sub in list(getattr(fi, "nested", {}).values()):
            self._rekey_function(sub, f"{q_new}.{sub.name}")

    # ------------------------------------------------------------------ indexing
    @staticmethod
    def _modname(relpath: str) -> str:
        parts = relpath[:-3].split("/")
        if parts[-1] == "__init__":
            parts = parts[:-1]
        return ".".join([PKG, *parts])

    def _index_module(self, mod: ModuleInfo) -> None:
        self._collect_imports(mod, mod.tree.body, mod.imports)
        for node in mod.tree.body:
            if isinstance(node, ast.If):
                # if TYPE_CHECKING: imports
                self._collect_imports(mod, node.body, mod.imports)
            if isinstance(node, (ast.FunctionDef, ast.AsyncFunctionDef)):
                self._index_function(mod, node, None, None, mod.name)
            elif isinstance(node, ast.ClassDef):
                self._index_class(mod, node)
            elif isinstance(node, ast.Assign):
                for t in node.targets:
                    if isinstance(t, ast.Name):
                        mod.constants[t.id] = node.value
                    elif isinstance(t, (ast.Tuple, ast.List)) and all(isinstance(x, ast.Name) for x in t.elts):
                        # A, B = <sequence>: each name is the element at its position
                        for i, x in enumerate(t.elts):
                            sub = ast.Subscript(value=node.value, slice=ast.Constant(value=i), ctx=ast.Load())
                            mod.constants[x.id] = ast.fix_missing_locations(ast.copy_location(sub, node))
            elif isinstance(node, ast.AnnAssign) and isinstance(node.target, ast.Name):
                if node.value is not None:
                    mod.constants[node.target.id] = node.value
        # a module-level table that later module-level statements fill further (T.update(..), T[k] = v, T.append(..)):
        # its value is not the literal it was bound to
        for node in mod.tree.body:
            tgt = None
            if isinstance(node, ast.Expr) and isinstance(node.value, ast.Call) and isinstance(node.value.func, ast.Attribute) and isinstance(node.value.func.value, ast.Name) and node.value.func.attr in ("update", "append", "extend", "add", "setdefault", "pop", "clear", "insert", "remove", "discard"):
                tgt = node.value.func.value.id
            elif isinstance(node, (ast.Assign, ast.AugAssign)):
                for t in (node.targets if isinstance(node, ast.Assign) else [node.target]):
                    if isinstance(t, ast.Subscript) and isinstance(t.value, ast.Name):
                        tgt = t.value.id
            elif isinstance(node, ast.For):
                for sub in ast.walk(node):
                    if isinstance(sub, ast.Subscript) and isinstance(sub.ctx, ast.Store) and isinstance(sub.value, ast.Name):
                        tgt = sub.value.id
                    if isinstance(sub, ast.Call) and isinstance(sub.func, ast.Attribute) and isinstance(sub.func.value, ast.Name) and sub.func.attr in ("update", "append", "extend", "add", "setdefault"):
                        tgt = sub.func.value.id
            if tgt is not None and tgt in mod.constants:
                self.__dict__.setdefault("import_time_mutated", set()).add((mod.name, tgt))
        self._partials_as_functions(mod)
        # `OldName = NewName` with NewName a class of the module: the very same class under a second name
        for name, node in list(mod.constants.items()):
            if isinstance(node, ast.Name) and node.id in mod.classes and name not in mod.classes:
                ci = mod.classes[node.id]
                mod.classes[name] = ci
                self.classes.setdefault(f"{mod.name}.{name}", ci)
                self.__dict__.setdefault("class_aliases", {}).setdefault(ci.qualname, []).append(name)
                del mod.constants[name]

    def _partials_as_functions(self, mod: ModuleInfo) -> None:
        """``name = partial(f, a, k=v)`` at module level with ``f`` a function of the module is the function
        ``def name(<the remaining parameters of f>): return f(a, <them>, k=v)`` - indexed as such, so that it can be
        summarised, resolved as a callee and read through like any other small helper."""
        import copy

        for name, node in list(mod.constants.items()):
            if not (isinstance(node, ast.Call) and (getattr(node.func, "id", None) or getattr(node.func, "attr", None)) == "partial" and node.args and isinstance(node.args[0], ast.Name)):
                continue
            f = mod.functions.get(node.args[0].id)
            if f is None or name in mod.functions or any(isinstance(a, ast.Starred) for a in node.args) or any(k.arg is None for k in node.keywords):
                continue
            a = copy.deepcopy(f.node.args)
            npos = len(node.args) - 1
            allpos = a.posonlyargs + a.args
            if npos > len(allpos):
                continue
            bound_kw = {k.arg for k in node.keywords}
            # defaults belong to the LAST len(defaults) positional parameters
            dflt = dict(zip([p.arg for p in allpos][len(allpos) - len(a.defaults) :], a.defaults))
            rest = [p for p in allpos[npos:] if p.arg not in bound_kw]
            kwonly = [(p, d) for p, d in zip(a.kwonlyargs, a.kw_defaults) if p.arg not in bound_kw]
            # a parameter without default after one with default is not expressible: make the rest keyword-only then
            new_args = ast.arguments(posonlyargs=[], args=[], vararg=None, kwonlyargs=[], kw_defaults=[], kwarg=a.kwarg, defaults=[])
            seen_default = False
            for p in rest:
                if p.arg in dflt:
                    seen_default = True
                    new_args.args.append(p)
                    new_args.defaults.append(dflt[p.arg])
                elif seen_default:
                    new_args.kwonlyargs.append(p)
                    new_args.kw_defaults.append(None)
                else:
                    new_args.args.append(p)
            for p, d in kwonly:
                new_args.kwonlyargs.append(p)
                new_args.kw_defaults.append(d)
            call = ast.Call(
                func=ast.Name(id=f.name, ctx=ast.Load()),
                args=list(node.args[1:]),
                keywords=[ast.keyword(arg=p.arg, value=ast.Name(id=p.arg, ctx=ast.Load())) for p in rest]
                + [ast.keyword(arg=p.arg, value=ast.Name(id=p.arg, ctx=ast.Load())) for p, _ in kwonly]
                + list(node.keywords)
                + ([ast.keyword(arg=None, value=ast.Name(id=a.kwarg.arg, ctx=ast.Load()))] if a.kwarg is not None else []),
            )
            fd = ast.FunctionDef(name=name, args=new_args, body=[ast.Return(value=call)], decorator_list=[], returns=f.node.returns, type_params=[])
            ast.copy_location(fd, node)
            for sub in ast.walk(fd):
                if not hasattr(sub, "lineno"):
                    ast.copy_location(sub, node)
            ast.fix_missing_locations(fd)
            fd.end_lineno = getattr(node, "end_lineno", node.lineno)
            del mod.constants[name]
            self._index_function(mod, fd, None, None, mod.name)

    def _collect_imports(self, mod: ModuleInfo, body: list[ast.stmt], table: dict[str, str]) -> None:
        for node in body:
            if isinstance(node, ast.Import):
                for a in node.names:
                    table[a.asname or a.name.split(".")[0]] = a.name if a.asname else a.name.split(".")[0]
            elif isinstance(node, ast.ImportFrom):
                base = node.module or ""
                if node.level:
                    parts = mod.name.split(".")
                    if not mod.relpath.endswith("__init__.py"):
                        parts = parts[:-1]
                    anchor = parts[: len(parts) - (node.level - 1)]
                    base = ".".join([*anchor, base]) if base else ".".join(anchor)
                for a in node.names:
                    table[a.asname or a.name] = f"{base}.{a.name}"

    def _index_class(self, mod: ModuleInfo, node: ast.ClassDef) -> None:
        q = f"{mod.name}.{node.name}"
        ci = ClassInfo(q, node.name, mod, node, [ast.unparse(b) for b in node.bases])
        mod.classes[node.name] = ci
        self.classes[q] = ci
        for st in node.body:
            if isinstance(st, (ast.FunctionDef, ast.AsyncFunctionDef)):
                self._index_function(mod, st, ci, None, q)
            elif isinstance(st, ast.AnnAssign) and isinstance(st.target, ast.Name):
                ci.fields[st.target.id] = (st.annotation, st.value)
            elif isinstance(st, ast.Assign):
                for t in st.targets:
                    if isinstance(t, ast.Name):
                        ci.assigns[t.id] = st.value

    def _index_function(self, mod, node, cls, parent, prefix) -> FunctionInfo | None:
        decorators = [_decorator_name(d) for d in node.decorator_list]
        if "overload" in decorators or "typing.overload" in decorators:
            return None
        q = f"{prefix}.{node.name}"
        fi = FunctionInfo(q, node.name, mod, node, cls, parent, decorators, _params(node))
        self.functions[q] = fi
        if parent is not None:
            parent.nested[node.name] = fi
        elif cls is not None:
            cls.methods[node.name] = fi
        else:
            mod.functions[node.name] = fi
        for sub in ast.walk(node):
            if sub is node:
                continue
            if isinstance(sub, (ast.FunctionDef, ast.AsyncFunctionDef)) and self._direct_parent(node, sub):
                self._index_function(mod, sub, None, fi, q)
        return fi

    @staticmethod
    def _direct_parent(outer: ast.AST, inner: ast.AST) -> bool:
        """True if ``inner`` is nested in ``outer`` with no function in between."""
        stack = [(c, 0) for c in ast.iter_child_nodes(outer)]
        while stack:
            n, _ = stack.pop()
            if n is inner:
                return True
            if isinstance(n, (ast.FunctionDef, ast.AsyncFunctionDef, ast.Lambda, ast.ClassDef)):
                continue
            stack.extend((c, 0) for c in ast.iter_child_nodes(n))
        return False

    # ------------------------------------------------------------------ lookups
    def function(self, qualname: str, obligation: str = "-") -> FunctionInfo:
        fi = self.functions.get(qualname)
        if fi is None and "." in qualname:
            # a module-level alias: `old_name = new_name` after two functions were merged into one
            head, _, last = qualname.rpartition(".")
            mod = self.modules.get(head)
            node = mod.constants.get(last) if mod is not None else None
            if isinstance(node, ast.Name) and node.id in mod.functions:
                return mod.functions[node.id]
        if fi is None:
            raise AnalysisError(f"anchor function {qualname} not found", obligation)
        return fi

    def cls(self, qualname: str, obligation: str = "-") -> ClassInfo:
        ci = self.classes.get(qualname)
        if ci is None:
            raise AnalysisError(f"anchor class {qualname} not found", obligation)
        return ci

    def module(self, name: str) -> ModuleInfo:
        m = self.modules.get(name)
        if m is None:
            raise AnalysisError(f"anchor module {name} not found")
        return m

    def resolve_global(self, mod: ModuleInfo, name: str, depth: int = 0):
        """Resolve a module-level name to ('func', fi) / ('cls', ci) / ('const', mod, name) / ('ext', dotted)."""
        if name in mod.functions:
            return ("func", mod.functions[name])
        if name in mod.classes:
            return ("cls", mod.classes[name])
        if name in mod.constants:
            node = mod.constants[name]
            if isinstance(node, ast.Name) and node.id in mod.functions and depth < 6:
                return ("func", mod.functions[node.id])  # an alias of a function of the module
            home = getattr(self, "_const_home", {}).get((mod.name, name))
            if home is not None and home[0] in self.modules and home[1] in self.modules[home[0]].constants:
                return ("const", self.modules[home[0]], home[1])  # moved to a new module: addressed where it was
            return ("const", mod, name)
        if name in mod.imports and depth < 6:
            return self.resolve_dotted(mod.imports[name], depth + 1)
        return None

    def resolve_dotted(self, dotted: str, depth: int = 0):
        if dotted in self.modules:
            return ("mod", self.modules[dotted])
        if "." in dotted:
            head, _, last = dotted.rpartition(".")
            if head in self.modules:
                r = self.resolve_global(self.modules[head], last, depth)
                if r is not None:
                    return r
                return ("ext", dotted)
        return ("ext", dotted)

    # ------------------------------------------------------------------ classes
    def bases(self, ci: ClassInfo) -> list:
        out = []
        for b in ci.base_exprs:
            name = b.split("[")[0]
            r = self.resolve_global(ci.module, name) if "." not in name else None
            if r and r[0] == "cls":
                out.append(r[1])
            else:
                out.append(name)
        return out

    def mro_names(self, cls_or_name) -> list[str]:
        """Linearised ancestor names (package classes by short name, builtins by name)."""
        seen: list[str] = []

        def go(c) -> None:
            if isinstance(c, ClassInfo):
                if c.name in seen:
                    return
                seen.append(c.name)
                for alias in self.__dict__.get("class_aliases", {}).get(c.qualname, ()):
                    if alias not in seen:
                        seen.append(alias)  # the same class under its other name(s)
                for b in self.bases(c):
                    go(b)
            else:
                if c in seen:
                    return
                seen.append(c)
                for b in BUILTIN_EXC_BASES.get(c, []):
                    go(b)

        go(cls_or_name)
        return seen

    def class_by_short(self, name: str) -> ClassInfo | None:
        hits = {id(c): c for c in self.classes.values() if c.name == name or name in self.__dict__.get("class_aliases", {}).get(c.qualname, ())}
        return next(iter(hits.values())) if len(hits) == 1 else None

    def is_subclass(self, name: str, ancestor: str) -> bool:
        c = self.class_by_short(name)
        return ancestor in self.mro_names(c if c is not None else name)

    def find_method(self, ci: ClassInfo, name: str) -> FunctionInfo | None:
        if name in ci.methods:
            return ci.methods[name]
        for b in self.bases(ci):
            if isinstance(b, ClassInfo):
                m = self.find_method(b, name)
                if m is not None:
                    return m
        return None

    def methods_named(self, name: str) -> list[FunctionInfo]:
        return [c.methods[name] for c in self.classes.values() if name in c.methods]

    def subclasses(self, ci: ClassInfo) -> list[ClassInfo]:
        return [c for c in self.classes.values() if c is not ci and ci.name in self.mro_names(c)]

    # ------------------------------------------------------------------ constants
    def const_value(self, mod: ModuleInfo, name: str):
        """Fold a module-level constant; raises AnalysisError if not foldable."""
        key = (mod.name, name)
        if key in self.__dict__.get("import_time_mutated", ()):
            raise AnalysisError(f"module-level table {mod.name}.{name} is filled further by statements that run at import time: its content is not the literal it is bound to")
        if key in self._const_cache:
            return self._const_cache[key]
        if name not in mod.constants:
            r = self.resolve_global(mod, name)
            if r and r[0] == "const":
                return self.const_value(r[1], r[2])
            raise AnalysisError(f"constant {mod.name}.{name} not found")
        v = self.fold(mod, mod.constants[name])
        self._const_cache[key] = v
        return v

    def fold(self, mod: ModuleInfo, e: ast.expr, env: dict | None = None):
        """Value of a module-level constant expression built from literals, other constants, displays,
        comprehensions over those and a few pure builtins (dict / zip / tuple / ...).  Nothing of the analysed
        package is executed: the expression is evaluated over its syntax tree."""
        if env:
            return self._fold_env(mod, e, env)
        return self._fold(mod, e)

    def _fold_env(self, mod, e, env):
        saved = getattr(self, "_fold_locals", None)
        self._fold_locals = env
        try:
            return self._fold(mod, e)
        finally:
            self._fold_locals = saved

    def _fold_comp(self, mod, e):
        """Rows of a comprehension: list of environments, one per produced element."""
        base = dict(getattr(self, "_fold_locals", None) or {})
        envs = [base]
        budget = [20000]
        for g in e.generators:
            if getattr(g, "is_async", 0):
                raise AnalysisError("cannot fold async comprehension")
            nxt = []
            for env in envs:
                it = self._fold_env(mod, g.iter, env) if env else self._fold(mod, g.iter)
                if isinstance(it, dict):
                    it = list(it)
                if not isinstance(it, (list, tuple, str, set, frozenset)):
                    raise AnalysisError("cannot fold comprehension source")
                for item in (sorted(it) if isinstance(it, (set, frozenset)) else it):
                    budget[0] -= 1
                    if budget[0] < 0:
                        raise AnalysisError("comprehension too large to fold")
                    env2 = dict(env)
                    self._fold_bind(g.target, item, env2)
                    if all(self._fold_env(mod, c, env2) for c in g.ifs):
                        nxt.append(env2)
            envs = nxt
        return envs

    def _fold_bind(self, target, value, env) -> None:
        if isinstance(target, ast.Name):
            env[target.id] = value
        elif isinstance(target, (ast.Tuple, ast.List)) and isinstance(value, (tuple, list)) and len(value) == len(target.elts) and not any(isinstance(t, ast.Starred) for t in target.elts):
            for t, v in zip(target.elts, value):
                self._fold_bind(t, v, env)
        else:
            raise AnalysisError("cannot fold comprehension target")

    def _fold(self, mod: ModuleInfo, e: ast.expr):
        fold_locals = getattr(self, "_fold_locals", None)
        if isinstance(e, ast.Constant):
            return e.value
        if isinstance(e, ast.Name) and fold_locals and e.id in fold_locals:
            return fold_locals[e.id]
        if isinstance(e, (ast.GeneratorExp, ast.ListComp)):
            return [self._fold_env(mod, e.elt, env) if env else self._fold(mod, e.elt) for env in self._fold_comp(mod, e)]
        if isinstance(e, ast.SetComp):
            return {self._fold_env(mod, e.elt, env) for env in self._fold_comp(mod, e)}
        if isinstance(e, ast.DictComp):
            return {self._fold_env(mod, e.key, env): self._fold_env(mod, e.value, env) for env in self._fold_comp(mod, e)}
        if isinstance(e, ast.Subscript) and not isinstance(e.slice, ast.Slice):
            base, idx = self._fold(mod, e.value), self._fold(mod, e.slice)
            try:
                if isinstance(base, (list, tuple, str)) and isinstance(idx, int) and not isinstance(idx, bool):
                    return base[idx]
                if isinstance(base, dict):
                    return base[idx]
            except (IndexError, KeyError):
                pass
            raise AnalysisError(f"cannot fold {ast.unparse(e)[:60]} in {mod.name}")
        if isinstance(e, ast.Compare) and len(e.ops) == 1:
            a, b = self._fold(mod, e.left), self._fold(mod, e.comparators[0])
            o = e.ops[0]
            try:
                if isinstance(o, ast.Eq):
                    return a == b
                if isinstance(o, ast.NotEq):
                    return a != b
                if isinstance(o, ast.In):
                    return a in b
                if isinstance(o, ast.NotIn):
                    return a not in b
            except TypeError:
                pass
            raise AnalysisError(f"cannot fold {ast.unparse(e)[:60]} in {mod.name}")
        if isinstance(e, ast.UnaryOp) and isinstance(e.op, ast.Not):
            return not self._fold(mod, e.operand)
        if isinstance(e, ast.BoolOp):
            vals = [self._fold(mod, v) for v in e.values]
            out = vals[0]
            for v in vals[1:]:
                out = (out and v) if isinstance(e.op, ast.And) else (out or v)
            return out
        if isinstance(e, ast.Name):
            r = self.resolve_global(mod, e.id)
            if r and r[0] == "const":
                return self.const_value(r[1], r[2])
            if r and r[0] == "func":
                return ("func", r[1].qualname)
            raise AnalysisError(f"cannot fold name {e.id} in {mod.name}")
        if isinstance(e, ast.JoinedStr):
            out = []
            for v in e.values:
                if isinstance(v, ast.Constant):
                    out.append(str(v.value))
                elif isinstance(v, ast.FormattedValue) and v.conversion == -1 and v.format_spec is None:
                    out.append(str(self.fold(mod, v.value)))
                else:
                    raise AnalysisError("cannot fold f-string part")
            return "".join(out)
        if isinstance(e, ast.BinOp) and isinstance(e.op, ast.Add):
            return self.fold(mod, e.left) + self.fold(mod, e.right)
        if isinstance(e, ast.Tuple):
            return tuple(self.fold(mod, x) for x in e.elts)
        if isinstance(e, ast.List):
            return [self.fold(mod, x) for x in e.elts]
        if isinstance(e, ast.Set):
            return {self.fold(mod, x) for x in e.elts}
        if isinstance(e, ast.Dict):
            return {self.fold(mod, k): self.fold(mod, v) for k, v in zip(e.keys, e.values)}
        if isinstance(e, ast.BinOp) and isinstance(e.op, (ast.Sub, ast.BitOr, ast.BitAnd, ast.BitXor)):
            a, b = self.fold(mod, e.left), self.fold(mod, e.right)
            if isinstance(a, (set, frozenset)) and isinstance(b, (set, frozenset)):
                r_ = a - b if isinstance(e.op, ast.Sub) else a | b if isinstance(e.op, ast.BitOr) else a & b if isinstance(e.op, ast.BitAnd) else a ^ b
                return frozenset(r_) if isinstance(a, frozenset) else set(r_)
            raise AnalysisError(f"cannot fold {ast.unparse(e)[:60]} in {mod.name}")
        if isinstance(e, ast.Attribute):
            # members of the standard library's HTTP status table (trusted base: CPython's http module)
            parts = ast.unparse(e).split(".")
            r = self.resolve_global(mod, parts[0])
            dotted = ".".join([r[1], *parts[1:]]) if r and r[0] == "ext" else None
            if dotted and dotted.startswith("string.") and dotted.count(".") == 1:
                import string as _string

                name_ = dotted.split(".", 1)[1]
                if name_ in ("ascii_letters", "ascii_lowercase", "ascii_uppercase", "digits", "hexdigits", "octdigits", "punctuation", "whitespace", "printable"):
                    return getattr(_string, name_)
            if dotted and dotted.startswith("http.HTTPStatus.") and dotted.count(".") == 2:
                import http

                member = getattr(http.HTTPStatus, dotted.rsplit(".", 1)[1], None)
                if member is not None:
                    return int(member)
        if isinstance(e, ast.Call):
            fn = ast.unparse(e.func)
            if fn == "next" and len(e.args) in (1, 2) and not e.keywords and isinstance(e.args[0], ast.Call) and ast.unparse(e.args[0].func) == "iter" and len(e.args[0].args) == 1:
                # next(iter(xs)): the first element (of a dict: its first key, in insertion order)
                xs = self.fold(mod, e.args[0].args[0])
                if isinstance(xs, (dict, list, tuple, str)):
                    seq = list(xs)
                    if seq:
                        return seq[0]
                    if len(e.args) == 2:
                        return self.fold(mod, e.args[1])
                raise AnalysisError(f"cannot fold {ast.unparse(e)[:60]} in {mod.name}")
            if fn == "next" and len(e.args) in (1, 2) and not e.keywords and isinstance(e.args[0], (ast.GeneratorExp, ast.ListComp)):
                # next(<generator over constants>[, default]): its first element
                seq = self._fold(mod, e.args[0])
                if seq:
                    return seq[0]
                if len(e.args) == 2:
                    return self.fold(mod, e.args[1])
                raise AnalysisError(f"cannot fold {ast.unparse(e)[:60]} in {mod.name}: empty")
            if fn in ("int", "str") and len(e.args) == 1 and not e.keywords:
                v = self.fold(mod, e.args[0])
                if isinstance(v, (int, str)) and not isinstance(v, bool):
                    try:
                        return int(v) if fn == "int" else str(v)
                    except ValueError:
                        pass
            if fn in ("re.compile",) and e.args:
                flags = 0
                for a in list(e.args[1:]) + [k.value for k in e.keywords if k.arg == "flags"]:
                    flags |= self._fold_flags(a)
                return ("regex", self.fold(mod, e.args[0]), flags)
            if isinstance(e.func, ast.Attribute) and e.func.attr == "join" and len(e.args) == 1 and not e.keywords:
                sep = self.fold(mod, e.func.value)
                parts = self.fold(mod, e.args[0])
                if isinstance(sep, str) and isinstance(parts, (list, tuple)) and all(isinstance(x, str) for x in parts):
                    return sep.join(parts)
            if isinstance(e.func, ast.Attribute) and e.func.attr in ("items", "keys", "values") and not e.args and not e.keywords:
                d_ = self.fold(mod, e.func.value)
                if isinstance(d_, dict):
                    return [tuple(kv) for kv in d_.items()] if e.func.attr == "items" else list(d_) if e.func.attr == "keys" else list(d_.values())
            if fn in ("frozenset", "set", "tuple", "list") and len(e.args) == 1 and not e.keywords:
                v = self.fold(mod, e.args[0])
                if isinstance(v, dict):
                    v = list(v)
                if isinstance(v, (str, list, tuple, set, frozenset)):
                    return {"frozenset": frozenset, "set": set, "tuple": tuple, "list": list}[fn](v)
            if fn == "zip" and e.args and not e.keywords and not any(isinstance(a, ast.Starred) for a in e.args):
                cols = []
                for a in e.args:
                    v = self.fold(mod, a)
                    if isinstance(v, dict):
                        v = list(v)
                    if not isinstance(v, (list, tuple, str)):
                        raise AnalysisError(f"cannot fold {ast.unparse(e)[:60]} in {mod.name}")
                    cols.append(v)
                return [tuple(row) for row in zip(*cols)]
            if fn == "dict" and len(e.args) <= 1 and not any(k.arg is None for k in e.keywords):
                out: dict = {}
                if e.args:
                    v = self.fold(mod, e.args[0])
                    if isinstance(v, dict):
                        out.update(v)
                    elif isinstance(v, (list, tuple)) and all(isinstance(p, (list, tuple)) and len(p) == 2 for p in v):
                        try:
                            out.update((p[0], p[1]) for p in v)
                        except TypeError:
                            raise AnalysisError(f"cannot fold {ast.unparse(e)[:60]} in {mod.name}") from None
                    else:
                        raise AnalysisError(f"cannot fold {ast.unparse(e)[:60]} in {mod.name}")
                for k in e.keywords:
                    out[k.arg] = self.fold(mod, k.value)
                return out
        raise AnalysisError(f"cannot fold {ast.unparse(e)[:60]} in {mod.name}")

    @staticmethod
    def _fold_flags(e: ast.expr) -> int:
        import re

        if isinstance(e, ast.BinOp) and isinstance(e.op, ast.BitOr):
            return Model._fold_flags(e.left) | Model._fold_flags(e.right)
        if isinstance(e, ast.Attribute) and isinstance(e.value, ast.Name) and e.value.id == "re":
            return int(getattr(re, e.attr))
        if isinstance(e, ast.Constant) and isinstance(e.value, int):
            return e.value
        raise AnalysisError("cannot fold regex flags")
