"""C05 - incrementally built converters stay consistent with their own records."""

from __future__ import annotations

import ast

from ..report import Cx, Ob, describe, obligation
from ..rules import (
    API,
    CANON,
    CONV,
    CURIE_SIDE,
    LISTS,
    MUTATORS,
    TABLES,
    URI_SIDE,
    Prov,
    merger,
    merger_name,
    _container_fields,
    pair_compare_cover,
    self_call,
    state_closure,
    where,
)
from ..summ import describe_path
from ..terms import callee_name, is_const, op, show, subterms
from .c01 import check_table_roles

describe(
    "C05",
    "other",
    "Sibling agreement between the constructor's table builders and the incremental indexer _index for all five lookup tables (IDX), "
    "who-may-write for converter state and Record fields, reject-before-mutate and merge/append -> _index pairing in add_record (ORDER), "
    "frame and cover of _merge (SETALG), full 2x2 comparison matrix per side and complete scan in _match_record (MATRIX), and closure "
    "of derived state under _index.",
    ["CPython ast", "dict/list semantics"],
    ["the converter was strict (C04) before the history starts"],
    ["history-level equivalence with a freshly built converter (follows from D1-D7 plus dict semantics)"],
)


@obligation("C05-D1", "IDX sibling agreement: for each of the five tables _index writes the same (key cover -> value field) entries as the constructor's builder", floor=10)
def d1(cx: Cx, ob: Ob) -> None:
    check_table_roles(cx, ob, list(TABLES))


@obligation("C05-D2", "who-may-write: converter state is written only in __init__/add_record/_index; Record fields of owned records only in _merge; all derived state is maintained by _index", floor=5)
def d2(cx: Cx, ob: Ob) -> None:
    state_closure(cx, ob)
    MERGE = merger_name(cx)
    ci = cx.model.cls(CONV, ob.id)
    for m in ci.methods.values():
        if not m.self_name or m.self_name == "cls" or any(
            isinstance(d, ast.Name) and d.id in ("classmethod", "staticmethod") for d in m.node.decorator_list
        ):
            continue  # an alternative constructor has no converter yet: the records it fills are its own until cls(...) takes them
        s = cx.summary(m, ob.id)
        for ev, ctx in s.walk():
            if ev.kind == "store" and op(ev.a) == "attr" and ev.a[2] in (CANON | LISTS) and op(ev.a[1]) != "param" or (
                ev.kind == "store" and op(ev.a) == "attr" and ev.a[2] in (CANON | LISTS) and m.self_name and ev.a[1] != ("param", m.self_name)
            ):
                if m.name == "add_record" and ev.a[2] == "pattern" and any(e2.kind == "expr" and self_call(e2.a, ("param", m.self_name), "_index") and e2.a[2][:1] == (ev.a[1],) and e2.line >= ev.line for e2 in ctx.path.events):
                    # the merged record adopts the incoming pattern and is re-indexed: records and pattern_map agree
                    ob.site(f"{where(m, ev.line)} {m.qualname}", "pattern adopted by the merged record, then re-indexed")
                    continue
                if m.name != MERGE:
                    ob.violate(m.qualname, where(m, ev.line), f"{m.name} assigns Record field `{show(ev.a)[:50]}`; only _merge may change records the converter owns", detail=f"record-store:{ev.a[2]}")
            if ev.kind == "expr" and op(ev.a) == "call" and callee_name(ev.a) in MUTATORS:
                r = ev.a[1][1] if op(ev.a[1]) == "attr" else None
                if op(r) == "attr" and r[2] in LISTS and m.name != MERGE and m.name not in ("add_record", "_index", "__init__"):
                    # another public mutator (not add_record / _merge): it keeps the converter consistent only if it
                    # re-indexes the record it changed on every path - and refuses names that are in use, which is
                    # not a question of shape
                    me_ = ("param", m.self_name)
                    later = [e2 for e2 in ctx.path.events if e2.line >= ev.line and e2.kind == "expr" and self_call(e2.a, me_, "_index") and e2.a[2][:1] == (r[1],)]
                    if later and not any(g.kind == "guard" and g.line > ev.line for g in ctx.path.events if g.line <= later[-1].line):
                        ob.undecide(f"{m.name} changes `{show(r)[:40]}` of a record the converter owns and re-indexes it: a second way of changing owned records next to add_record/_merge - that it refuses names already in use is not decided")
                        continue
                if op(r) == "attr" and r[2] in LISTS and m.name != MERGE:
                    ob.violate(m.qualname, where(m, ev.line), f"{m.name} mutates `{show(r)[:50]}` in place; only _merge may change records the converter owns", detail=f"record-mutate:{r[2]}")


def _mutating(ev, me, merge_name: str = "_merge") -> str | None:
    if ev.kind == "store" and op(ev.a) in ("attr", "item"):
        root = ev.a[1]
        while op(root) in ("attr", "item"):
            root = root[1]
        if root == me:
            return f"store {show(ev.a)[:40]}"
    t = ev.a if ev.kind == "expr" else ev.b if ev.kind == "bind" else None
    if isinstance(t, tuple):
        for c in subterms(t):
            if op(c) == "call" and op(c[1]) == "attr":
                if c[1][1] == me and c[1][2] in ("_merge", "_index", "add_record", "add_prefix", merge_name):
                    return f"call self.{c[1][2]}"
                r = c[1][1]
                if op(r) == "attr" and r[1] == me and c[1][2] in MUTATORS:
                    return f"call self.{r[2]}.{c[1][2]}"
    return None


def _content(t):
    """A copy without updated fields has the content of what it copies."""
    while op(t) == "call" and op(t[1]) == "attr" and t[1][2] in ("model_copy", "copy") and not any(k == "update" for k, _ in t[3]):
        t = t[1][1]
    return t


def same_record_already_there(events) -> bool:
    """The path has found the incoming record EQUAL (all fields) to a record the converter holds: merging it adds
    nothing and every table already has its names - skipping merge and re-index is the identity."""
    for g in events:
        if g.kind == "guard" and g.b is True and op(g.a) == "cmp" and g.a[1] == "==" and any(is_incoming(x) for x in (g.a[2], g.a[3])):
            other = g.a[3] if is_incoming(g.a[2]) else g.a[2]
            if any(op(x) == "attr" and x[2] == "records" for x in subterms(other)):
                return True
    return False


def all_names_literally_there(events) -> bool:
    """The path has established that EVERY name of the incoming record - CURIE side and URI side, canonical and
    synonyms - is literally one of the names of ONE other record (``set(r._all_x).issubset(e._all_x)`` /
    ``all(x in e._all_x for x in r._all_x)`` for both sides): _merge would add nothing and every table already holds
    every name, so skipping the merge and / or the re-index is the identity."""
    from ..rules import CURIE_SIDE, URI_SIDE

    def names_of(lst):
        """(record term, side) of a display [r.canon, *r.synonyms] - or None"""
        if op(lst) == "call" and lst[1] in (("builtin", "set"), ("builtin", "list"), ("builtin", "frozenset"), ("builtin", "tuple")) and len(lst[2]) == 1:
            lst = lst[2][0]
        if op(lst) not in ("list", "tuple", "set"):
            return None
        recs, fields = set(), set()
        for e in lst[1]:
            x = e[1] if op(e) == "star" else e
            if op(x) != "attr":
                return None
            recs.add(x[1])
            fields.add(x[2])
        if len(recs) != 1:
            return None
        side = "curie" if fields == set(CURIE_SIDE) else "uri" if fields == set(URI_SIDE) else None
        return (next(iter(recs)), side) if side else None

    done = set()
    for g in events:
        if g.kind != "guard" or g.b is not True:
            continue
        for c in subterms(g.a):
            small = big = None
            if op(c) == "call" and op(c[1]) == "attr" and c[1][2] == "issubset" and len(c[2]) == 1:
                small, big = names_of(c[1][1]), names_of(c[2][0])
            elif op(c) == "call" and c[1] == ("builtin", "all") and len(c[2]) == 1 and op(c[2][0]) == "comp" and len(c[2][0][3]) == 1 and not c[2][0][3][0][2]:
                comp = c[2][0]
                v_, src_, _ = comp[3][0]
                if op(comp[2]) == "cmp" and comp[2][1] == "in" and comp[2][2] == v_:
                    small, big = names_of(src_), names_of(comp[2][3])
            if small and big and small[1] == big[1] and is_incoming(small[0]) and not is_incoming(big[0]):
                done.add(small[1])
    return done == {"curie", "uri"}


def is_incoming(t) -> bool:
    """The record add_record was given, or a normalised copy of it (``record.model_copy(update=...)``) that takes
    its place."""
    if t == ("param", "record"):
        return True
    return op(t) == "call" and op(t[1]) == "attr" and t[1][2] in ("model_copy", "copy") and is_incoming(t[1][1])


@obligation("C05-D3", "ORDER reject-before-mutate: in add_record no mutating call or store precedes either `raise`; it rejects >1 matches and a single match without merge; add_prefix builds the Record and delegates with case_sensitive/merge forwarded", floor=3)
def d3(cx: Cx, ob: Ob) -> None:
    fn = cx.fn(f"{CONV}.add_record", ob.id)
    s = cx.summary(fn, ob.id)
    me = ("param", fn.self_name)
    MERGE = merger_name(cx)
    raises = s.raises()
    if not raises:
        ob.violate(fn.qualname, fn.where, "add_record never rejects a record (several matches; one match without merge)", detail="missing-raise")
    for t, ctx in raises:
        line = ctx.path.out[2]
        ob.site(f"{where(fn, line)} {fn.qualname}", f"raise {show(t)[:50]}")
        name = callee_name(t) if op(t) == "call" else None
        if name and not (name == "ValueError" or cx.model.is_subclass(name, "ValueError")):
            ob.violate(fn.qualname, where(fn, line), f"add_record rejects with {name}, not ValueError", detail="raise-class")
        for ev in ctx.trail:
            m = _mutating(ev, me, MERGE)
            if m:
                ob.violate(fn.qualname, where(fn, ev.line), f"`{m}` happens before the rejection at line {line}: a rejected call leaves the converter changed", witness=describe_path(ctx), detail="mutate-before-raise")
                break
    # decision table on the number of matches
    matched = None
    matcheds: list = []
    for ev, _ in s.walk():
        if ev.kind == "bind" and self_call(ev.b, me, "_match_record"):
            matched = ev.b
            if ev.b not in matcheds:
                matcheds.append(ev.b)
            if not (ev.b[2][:1] and is_incoming(ev.b[2][0])):
                ob.violate(fn.qualname, where(fn, ev.line), "_match_record is not applied to the incoming record", detail="match-arg")
            elif ev.b[2][0] != ("param", "record"):
                ob.site(f"{where(fn, ev.line)} {fn.qualname}", "the incoming record is normalised (a copy with updated fields) before it is matched")
            # one version of the record is matched, stored and indexed: a record normalised AFTER the scan is stored
            # under names the scan never compared
            for ev2, _ in s.walk():
                if ev2.kind == "expr" and op(ev2.a) == "call" and op(ev2.a[1]) == "attr" and ev2.a[1][2] in ("append", "insert") and ev2.a[1][1] == ("attr", me, "records") and ev2.a[2]:
                    stored = ev2.a[2][-1]
                    if is_incoming(stored) and ev.b[2][:1] and is_incoming(ev.b[2][0]) and _content(stored) != _content(ev.b[2][0]):
                        ob.violate(
                            fn.qualname,
                            where(fn, ev2.line),
                            f"add_record matches `{show(ev.b[2][0])[:40]}` against the existing records but stores `{show(stored)[:50]}`: the names it stores were never compared, so a record whose changed names clash with an existing record is appended next to it",
                            witness="an existing URI prefix 'http://x/' and a new record with ' http://x/': no match as given, equal after the clean-up - two records own one URI prefix",
                            detail="match-version-skew",
                        )
            if dict(ev.b[3]).get("case_sensitive") != ("param", "case_sensitive") and ev.b[2][1:2] != (("param", "case_sensitive"),):
                ob.violate(fn.qualname, where(fn, ev.line), "case_sensitive is not forwarded to _match_record", detail="case-forward")
    if matched is None:
        ob.undecide("add_record does not call _match_record")
        return
    lenm = ("call", ("builtin", "len"), (matched,), ())
    # the same scan on another version of the incoming record (as given / a copy made first): one quantity
    lenms = [("call", ("builtin", "len"), (m_,), ()) for m_ in matcheds]
    # "nothing can match" established from the lookup tables instead of the scan: with exact comparison
    # (case_sensitive) a record matches an existing one only through a name both list; when the incoming record's
    # prefix is in no CURIE-side table, its URI prefix in no URI-side table and it brings no synonyms, no name is
    # shared (the tables hold every name of every record: IDX, C05-D1)
    rec_ = ("param", "record")
    IDX_FACTS = [
        lambda a, pol: op(a) == "cmp" and a[1] == "in" and a[2] == ("attr", rec_, "prefix") and a[3] in (("attr", me, "synonym_to_prefix"), ("attr", me, "prefix_map")) and pol is False,
        lambda a, pol: op(a) == "cmp" and a[1] == "in" and a[2] == ("attr", rec_, "uri_prefix") and a[3] in (("attr", me, "reverse_prefix_map"), ("attr", me, "trie")) and pol is False,
        lambda a, pol: a == ("attr", rec_, "prefix_synonyms") and pol is False,
        lambda a, pol: a == ("attr", rec_, "uri_prefix_synonyms") and pol is False,
        lambda a, pol: a == ("param", "case_sensitive") and pol is True,
    ]

    def index_proves_no_match(atom_pols) -> bool:
        return all(any(f(a, pol) for a, pol in atom_pols) for f in IDX_FACTS)

    for ev, ctx in s.walk():
        if ev.kind != "expr" or op(ev.a) != "call":
            continue
        c = ev.a
        if op(c[1]) == "attr" and c[1][2] == "append" and c[1][1] == ("attr", me, "records"):
            from ..rules import guard_atoms as _ga

            if index_proves_no_match(_ga(ctx.guards)):
                ob.site(f"{where(fn, ev.line)} {fn.qualname}", "append on the fast path: the lookup tables show that no name of the record is in use")
                continue
            # the append path must be reachable only with zero matches
            ok = False
            for g in ctx.guards:
                if g.kind != "guard":
                    continue
                if any(g.a == ("cmp", "==", l_, ("const", 1)) for l_ in lenms) and g.b is False:
                    ok = True
                if g.a in matcheds and g.b is False:
                    ok = True
                if any(g.a == ("cmp", "==", l_, ("const", 0)) for l_ in lenms) and g.b is True:
                    ok = True
            more = any(g.kind == "guard" and any(g.a == ("cmp", ">", l_, ("const", 1)) for l_ in lenms) and g.b is False for g in ctx.guards) or any(
                g.kind == "guard" and (g.a in matcheds or any(g.a == ("cmp", "==", l_, ("const", 0)) for l_ in lenms)) for g in ctx.guards
            )
            if not (ok and more):
                ob.violate(fn.qualname, where(fn, ev.line), "a new record is appended on a path that does not exclude an existing match", witness=describe_path(ctx), detail="append-guard")
        if self_call(c, me, MERGE):
            if not any(g.kind == "guard" and g.a == ("param", "merge") and g.b is True for g in ctx.guards):
                ob.violate(fn.qualname, where(fn, ev.line), "_merge is reachable without merge=True", witness=describe_path(ctx), detail="merge-guard")
    # the same as a decision table over worlds (number of matching records, merge flag): whatever the nesting,
    # merging or order of the tests, 0 matches append, 1 match merges iff merge is set (else ValueError), 2+ raise
    import itertools

    from ..rules import formula_eval, path_atoms

    atoms = path_atoms(s.paths)

    def meaning(a):
        if a in matcheds:
            return lambda n, mg: n > 0
        if a == ("param", "merge"):
            return lambda n, mg: mg
        if op(a) == "cmp" and a[1] in ("==", "<", "<=", ">", ">=") and ((a[2] in lenms and is_const(a[3]) and isinstance(a[3][1], int)) or (a[3] in lenms and is_const(a[2]) and isinstance(a[2][1], int))):
            import operator as _o

            f = {"==": _o.eq, "<": _o.lt, "<=": _o.le, ">": _o.gt, ">=": _o.ge}[a[1]]
            if a[2] in lenms:
                k = a[3][1]
                return lambda n, mg: f(n, k)
            k = a[2][1]
            return lambda n, mg: f(k, n)
        return None

    sem = {a: meaning(a) for a in atoms}
    free = [a for a in atoms if sem[a] is None]
    if len(free) <= 6:
        seen_bad = set()
        for n, mg in itertools.product((0, 1, 2, 3), (True, False)):
            want = "append" if n == 0 else "raise" if (n >= 2 or not mg) else "merge"
            for fv in itertools.product((True, False), repeat=len(free)):
                asg = {a: sem[a](n, mg) for a in atoms if sem[a] is not None}
                asg.update(dict(zip(free, fv)))
                if n > 0 and index_proves_no_match(list(asg.items())):
                    continue  # not a possible state: the tables show that nothing matches
                for p in s.paths:
                    gs = [g for g in p.events if g.kind == "guard"]
                    if not all(formula_eval(g.a, asg) == g.b for g in gs):
                        continue
                    appended = any(ev.kind == "expr" and op(ev.a) == "call" and op(ev.a[1]) == "attr" and ev.a[1][2] == "append" and ev.a[1][1] == ("attr", me, "records") for ev in p.events)
                    merged = any((ev.kind in ("expr", "bind") and self_call(ev.a if ev.kind == "expr" else ev.b, me, MERGE)) or (ev.kind == "guard" and self_call(ev.a, me, MERGE)) for ev in p.events)
                    raised = p.out is not None and p.out[0] == "raise"
                    got = "raise" if raised else "merge" if merged else "append" if appended else "nothing"
                    if got == "nothing" and want == "merge" and (same_record_already_there(p.events) or all_names_literally_there(p.events)):
                        continue
                    if got == want or (want, got, n >= 2, mg) in seen_bad:
                        continue
                    if got == "raise" and want in ("append", "merge") and ob.id[:3] not in ("C05", "C09") and not appended and not merged and not any(ev.kind == "store" for ev in p.events):
                        # one more REJECTED call that leaves the converter as it was: C05 (which lists the reasons
                        # for rejection) and C09 (chain raises only for bridging records) object; the properties
                        # that share this rule for what successful calls build do not
                        continue
                    seen_bad.add((want, got, n >= 2, mg))
                    line = p.out[2] if p.out is not None and len(p.out) > 2 else (gs[-1].line if gs else fn.node.lineno)
                    world = f"{'no' if n == 0 else 'one' if n == 1 else 'several'} matching record{'s' if n != 1 else ''}, merge={mg}"
                    if want == "raise" and n >= 2:
                        ob.violate(fn.qualname, where(fn, line), f"with {world} add_record does not raise ValueError (it {'merges into one of them' if got == 'merge' else 'appends' if got == 'append' else 'does nothing'}): a record bridging two existing records gives a name two owners", witness="records a and b, then add_record(Record(prefix='a', uri_prefix=<b's URI prefix>), merge=True)", detail="missing-raise")
                    elif want == "raise":
                        ob.violate(fn.qualname, where(fn, line), f"with {world} add_record does not raise ValueError (it {got}s)", detail="missing-raise")
                    elif want == "append":
                        ob.violate(fn.qualname, where(fn, line), f"with {world} add_record does not append the new record (outcome: {got})", detail="append-guard")
                    else:
                        ob.violate(fn.qualname, where(fn, line), f"with {world} add_record does not merge into the existing record (outcome: {got})", detail="merge-guard")
    from ..rules import positional_shim_check

    positional_shim_check(cx, ob, fn)
    # add_prefix
    ap = cx.fn(f"{CONV}.add_prefix", ob.id)
    sp = cx.summary(ap, ob.id)
    mep = ("param", ap.self_name)
    calls = [(c, ev) for c, ev, _ in sp.calls("add_record") if self_call(c, mep, "add_record")]
    if not calls:
        ob.violate(ap.qualname, ap.where, "add_prefix does not delegate to add_record", detail="no-delegate")
    for c, ev in calls[:1]:
        ob.site(f"{where(ap, ev.line)} {ap.qualname}", f"{show(c)[:70]}")
        kw = dict(c[3])
        for f in ("case_sensitive", "merge"):
            v = kw.get(f)
            if v != ("param", f):
                ob.violate(ap.qualname, where(ap, ev.line), f"add_prefix does not forward `{f}` to add_record ({show(v) if v else 'default'})", detail=f"forward:{f}")
        rec = c[2][0] if c[2] else kw.get("record")
        if not (op(rec) == "call" and op(rec[1]) == "cls" and rec[1][1].endswith(".Record")):
            ob.violate(ap.qualname, where(ap, ev.line), "add_prefix does not hand a freshly built Record to add_record", detail="record")
        else:
            rk = dict(rec[3])
            for f in ("prefix", "uri_prefix"):
                if rk.get(f) != ("param", f):
                    ob.violate(ap.qualname, where(ap, ev.line), f"Record field `{f}` is built from `{show(rk.get(f))[:40] if rk.get(f) else 'nothing'}`", detail=f"role:{f}")
            for f in ("prefix_synonyms", "uri_prefix_synonyms"):
                v = rk.get(f)
                if v is None or not any(x == ("param", f) for x in subterms(v)):
                    ob.violate(ap.qualname, where(ap, ev.line), f"Record field `{f}` is not built from the `{f}` argument", detail=f"role:{f}")
                    continue
                # every synonym passed reaches the record: a filter may only drop exact repetitions of the
                # canonical value (which Record itself rejects)
                canon_p = ("param", "prefix" if f == "prefix_synonyms" else "uri_prefix")

                def _without_filtered(t):
                    if op(t) == "comp" and len(t[3]) == 1 and t[3][0][2]:
                        return ("unk", "filtered")
                    return tuple(_without_filtered(y) if isinstance(y, tuple) else y for y in t) if isinstance(t, tuple) else t

                if any(y == ("param", f) for y in subterms(_without_filtered(v))):
                    # the argument also reaches the record whole (a union / concatenation): a filtered comprehension
                    # next to it only narrows what is ADDED to the caller's names
                    ob.site(f"{where(ap, ev.line)} {ap.qualname}", f"`{f}` reaches the record whole; filtered additions next to it")
                    continue
                for x in subterms(v):
                    if op(x) == "comp" and len(x[3]) == 1 and any(y == ("param", f) for y in subterms(x[3][0][1])):
                        tgt_, _, ifs_ = x[3][0]
                        for c_ in ifs_:
                            exact = op(c_) == "cmp" and c_[1] == "!=" and {c_[2], c_[3]} == {tgt_, canon_p}
                            if not exact:
                                ob.violate(
                                    ap.qualname,
                                    where(ap, ev.line),
                                    f"add_prefix drops the `{f}` for which `{show(c_)[:60]}` fails before building the record: names the caller asked to register (e.g. a spelling that differs from the canonical one only by case) never reach the converter",
                                    witness="add_prefix('hgnc', ..., prefix_synonyms=['HGNC'], case_sensitive=False): expand('HGNC:1') is None",
                                    detail=f"synonym-filter:{f}",
                                )


@obligation("C05-D4", "pairing: every path of add_record that returns normally merges into or appends a record and passes afterwards, unconditionally, through _index of the record that changed", floor=2)
def d4(cx: Cx, ob: Ob) -> None:
    check_add_record_pairing(cx, ob)


def _merge_takes_care(cx: Cx, ob: Ob, fn, path, me) -> bool:
    """A path of add_record that merges but does not re-index is still right when

    (A) it is the path on which ``_merge`` reported "nothing added" and the value ``_merge`` returns is true
        whenever it added something to either synonym list, or
    (B) ``_merge`` writes every name it adds into the lookup tables itself, with the values of the record it
        merges INTO.

    Returns True when the case was judged here (a violation may have been recorded)."""
    mfn = merger(cx)
    if mfn is None:
        return False
    MERGE = mfn.name
    ms = cx.summary(mfn)
    into = ("param", "into")
    adds = []  # (field, added term, event, ctx)
    for ev, ctx in ms.walk():
        c = ev.a if ev.kind == "expr" else ev.b if ev.kind == "bind" else None
        if op(c) == "call" and op(c[1]) == "attr" and c[1][2] in ("append", "extend") and op(c[1][1]) == "attr" and c[1][1][1] == into and c[2]:
            adds.append((c[1][1][2], c[2][0], c[1][2], ev, ctx))
    if not adds:
        return False
    merge_guard = [g for g in path.events if g.kind == "guard" and op(g.a) == "call" and self_call(g.a, me, MERGE)]
    if merge_guard and merge_guard[0].b is False:
        # (A) the result of _merge decides whether to re-index
        leaves = set()

        def split(t):
            if op(t) == "bin" and t[1] == "|" or op(t) in ("or",):
                for x in (t[2], t[3]) if op(t) == "bin" else t[1]:
                    split(x)
            elif op(t) == "call" and t[1] == ("builtin", "bool") and len(t[2]) == 1:
                leaves.add(t[2][0])
            elif op(t) == "truth":
                leaves.add(t[1])
            else:
                leaves.add(t)

        rets = [t for t, _ in ms.returns() if not is_const(t, None)]
        if not rets:
            ob.violate(fn.qualname, where(fn, merge_guard[0].line), "add_record re-indexes only when _merge returns a true value, but _merge returns nothing", detail="unindexed:merge")
            return True
        for t in rets:
            split(t)
        missing = sorted({f for f, added, how_, _, _ in adds if how_ != "extend" or added not in leaves})
        if missing:
            ob.violate(
                fn.qualname,
                where(fn, merge_guard[0].line),
                f"add_record re-indexes the existing record only when _merge reports a change, but the value _merge returns does not reflect what it adds to {missing}: a merge that only brings such names extends the record and leaves the lookup tables behind",
                witness="add_prefix('chebi', <the URI prefix CHEBI already has>, merge=True): 'chebi' becomes a synonym but never enters prefix_map",
                detail="unindexed:merge",
            )
        else:
            ob.site(f"{where(fn, merge_guard[0].line)} {fn.qualname}", "re-index iff _merge reports an addition (its result covers both synonym lists)")
        return True
    # (B) tables written inside _merge
    mme = ("param", mfn.self_name) if mfn.self_name else None
    if mme is None:
        return False
    stores = [(ev, ctx) for ev, ctx in ms.walk() if ev.kind == "store" and op(ev.a) == "item" and op(ev.a[1]) == "attr" and ev.a[1][1] == mme]
    if not stores:
        return False
    need = {"prefix_synonyms": {"prefix_map": "uri_prefix", "synonym_to_prefix": "prefix"}, "uri_prefix_synonyms": {"reverse_prefix_map": "prefix", "trie": "prefix"}}
    for f, added, how_, ev, ctx in adds:
        if how_ != "append":
            ob.undecide(f"_merge indexes inline but adds to {f} with .{how_}()")
            continue
        for table, vfield in need.get(f, {}).items():
            hits = [(se, sc) for se, sc in stores if se.a[1][2] == table and se.a[2] == added and sc.path is ctx.path]
            if not hits:
                ob.violate(fn.qualname, where(mfn, ev.line), f"add_record relies on _merge to index what it adds, but _merge does not write the name it appends to into.{f} into `{table}`", detail="unindexed:merge")
                continue
            for se, _ in hits:
                if se.b != ("attr", into, vfield):
                    ob.violate(
                        fn.qualname,
                        where(mfn, se.line),
                        f"_merge indexes the name it adds to into.{f} with `{show(se.b)[:40]}` instead of into.{vfield}: `{table}` answers with the incoming record's value for a name that now belongs to the existing record",
                        witness="after merging chebi (other URI prefix) into CHEBI, expand('chebi:1') uses the incoming record's URI prefix",
                        detail="unindexed:merge",
                    )
    ob.site(f"{mfn.where} {mfn.qualname}", "names are indexed as they are merged")
    return True


def check_add_record_pairing(cx: Cx, ob: Ob) -> None:
    fn = cx.fn(f"{CONV}.add_record", ob.id)
    s = cx.summary(fn, ob.id)
    me = ("param", fn.self_name)
    MERGE = merger_name(cx)

    def calls_of(ev):
        out = []
        for t in (ev.a, ev.b, ev.c):
            if isinstance(t, tuple) and t and isinstance(t[0], str):
                out += [c for c in subterms(t) if op(c) == "call"]
        return out

    def scan(paths, top):
        for p in paths:
            changed = []  # [record term, line, how, indexed]
            for ev in p.events:
                if ev.kind in ("expr", "bind", "guard", "store"):
                    for c in calls_of(ev):
                        if self_call(c, me, MERGE):
                            into = dict(c[3]).get("into") or (c[2][1] if len(c[2]) > 1 else None)
                            if not any(ch[1] == ev.line and ch[2] == "merge" for ch in changed):
                                changed.append([into, ev.line, "merge", False])
                            if not (c[2][:1] and is_incoming(c[2][0])) and not is_incoming(dict(c[3]).get("record")):
                                ob.violate(fn.qualname, where(fn, ev.line), "_merge is not given the incoming record", detail="merge-arg")
                        elif op(c[1]) == "attr" and c[1][2] in ("append", "insert") and c[1][1] == ("attr", me, "records"):
                            changed.append([c[2][-1] if c[2] else None, ev.line, "append", False])
                        elif self_call(c, me, "_index"):
                            ixf = cx.model.functions.get(f"{CONV}._index")
                            n_rec = sum(1 for q in (ixf.params if ixf else []) if q.annotation is not None and "Record" in ast.unparse(q.annotation))
                            for ch in changed:
                                if c[2][:1] == (ch[0],) or (n_rec > 1 and (ch[0] in c[2] or any(v == ch[0] for _, v in c[3]))):
                                    ch[3] = True
                if ev.kind in ("loop", "while") and ev.body:
                    scan(ev.body, False)
            normal = p.out is None or p.out[0] == "return"
            for rec, line, how, done in changed:
                ob.site(f"{where(fn, line)} {fn.qualname}", f"{how} -> _index")
                if not done and normal and how == "merge" and _merge_takes_care(cx, ob, fn, p, me):
                    continue
                if not done and normal and how == "merge" and all_names_literally_there(p.events):
                    ob.site(f"{where(fn, line)} {fn.qualname}", "re-index skipped when every name of the incoming record is literally a name of the existing one")
                    continue
                if not done and normal and how == "merge":
                    # re-indexing skipped on the strength of a look into the lookup tables themselves ("they already
                    # hold every name of the merged record"): sound if the test covers every table - not a shape
                    tab_guards = [g for g in p.events if g.kind == "guard" and g.line >= line and g.b is False and any(op(x) == "attr" and x[1] == me and x[2] in TABLES for x in subterms(g.a)) and any(x == rec for x in subterms(g.a))]
                    if tab_guards:
                        ob.undecide(f"add_record skips _index after a merge when not `{show(tab_guards[0].a)[:60]}` (the tables are asked whether they already hold the merged record's names): that the test covers every table and every name is not decided")
                        continue
                if not done and normal:
                    conds = [("" if g.b else "not ") + show(g.a)[:60] for g in p.events if g.kind == "guard"]
                    ob.violate(
                        fn.qualname,
                        where(fn, line),
                        f"after the {how} at line {line} there is a path to the end of add_record that does not call _index({show(rec)[:30]}): the lookup tables miss the change",
                        witness=" -> ".join(conds),
                        detail=f"unindexed:{how}",
                    )
            if top and normal and not changed and (same_record_already_there(p.events) or all_names_literally_there(p.events)):
                ob.site(f"{fn.where} {fn.qualname}", "returns without merging when the incoming record equals the one already held / brings no name it does not hold")
                continue
            if top and normal and not changed:
                conds = [("" if g.b else "not ") + show(g.a)[:60] for g in p.events if g.kind == "guard"]
                line = p.out[2] if p.out else fn.node.end_lineno
                ob.violate(
                    fn.qualname,
                    where(fn, line),
                    "add_record can return normally without merging or appending the record: its prefixes / synonyms are silently dropped",
                    witness=" -> ".join(conds),
                    detail="no-op-return",
                )

    scan(s.paths, True)
    # _index runs after the record list has been changed (append / merge): if it can raise, a rejected call leaves
    # the record in self.records with some of its names indexed and others not
    ixf = cx.model.functions.get(f"{CONV}._index")
    if ixf is not None:
        ixs = cx.summary(ixf, ob.id)
        for t, rctx in ixs.raises():
            line = rctx.path.out[2] if rctx.path.out is not None and len(rctx.path.out) > 2 else ixf.node.lineno
            ob.violate(
                ixf.qualname,
                where(ixf, line),
                f"_index can raise (`{show(t)[:50]}`): add_record has already appended / merged the record when it indexes it, so the rejected call leaves a record whose names are only partly (or not at all) in the lookup tables - expand answers for names compress does not know",
                witness="add_prefix with a name _index rejects among the synonyms: ValueError, and the converter keeps a half-indexed record",
                detail="index-raises",
            )
            break
    # ... and the merger, for the same reason, may refuse only BEFORE it has touched `into`
    mg = merger(cx)
    if mg is not None:
        mgs = cx.summary(mg, ob.id)
        into_ = ("param", "into")
        for t, rctx in mgs.raises():
            touched = [e for e in rctx.trail if (e.kind == "expr" and op(e.a) == "call" and callee_name(e.a) in MUTATORS and any(x == into_ for x in subterms(e.a[1]))) or (e.kind == "store" and any(x == into_ for x in subterms(e.a)))]
            if touched:
                line = rctx.path.out[2] if rctx.path.out is not None and len(rctx.path.out) > 2 else mg.node.lineno
                ob.violate(
                    mg.qualname,
                    where(mg, line),
                    f"{mg.name} can raise (`{show(t)[:50]}`) after it has already changed `into` (line {touched[0].line}): add_record has not re-indexed yet, so a refused merge leaves the record with names its lookup tables do not know",
                    witness="a record with a repeated synonym, then add_prefix(..., merge=True) into it with the error caught",
                    detail="merge-raises-after-mutation",
                )
                break
    # add_prefix: every path that returns normally has handed the record to add_record - except when the call
    # provably asks for nothing new: the (prefix, URI prefix) pair is registered as given AND no synonyms are passed
    from ..rules import guard_atoms

    ap = cx.model.functions.get(f"{CONV}.add_prefix")
    if ap is not None and ap.self_name:
        sp = cx.summary(ap, ob.id)
        mep = ("param", ap.self_name)
        for p in sp.paths:
            if p.out is not None and p.out[0] == "raise":
                continue
            delegated = any(self_call(c, mep, "add_record") for ev in p.events for t in (ev.a, ev.b) if isinstance(t, tuple) for c in subterms(t) if op(c) == "call")
            if delegated:
                continue
            atoms = guard_atoms([g for g in p.events if g.kind == "guard"])
            pm_get = ("call", ("attr", ("attr", mep, "prefix_map"), "get"), (("param", "prefix"),), ())
            registered = any(op(a) == "cmp" and a[1] == "==" and {a[2], a[3]} == {pm_get, ("param", "uri_prefix")} and pol is True for a, pol in atoms)
            no_syn = all(any((a == ("param", n) and pol is False) or (a == ("cmp", "is", ("param", n), ("const", None)) and pol is True) for a, pol in atoms) for n in ("prefix_synonyms", "uri_prefix_synonyms"))
            line = p.out[2] if p.out is not None and len(p.out) > 2 else ap.node.lineno
            if registered and no_syn:
                ob.site(f"{where(ap, line)} {ap.qualname}", "no-op return: the pair is registered as given and no synonyms are passed")
                continue
            conds = [("" if g.b else "not ") + show(g.a)[:60] for g in p.events if g.kind == "guard"]
            ob.violate(
                ap.qualname,
                where(ap, line),
                "add_prefix can return normally without handing the record to add_record: synonyms passed in the same call (or a prefix that is itself only a synonym of the existing record) are silently dropped",
                witness=" -> ".join(conds) + "; add_prefix('go', <registered URI prefix>, uri_prefix_synonyms=['urn:go:'], merge=True) registers nothing",
                detail="no-op-return:add_prefix",
            )


@obligation("C05-D5", "SETALG frame+cover: _merge adds {prefix, synonyms} / {uri_prefix, synonyms} of the incoming record to the synonym lists of `into` only when absent, and never stores into.prefix / into.uri_prefix / into.pattern", floor=2)
def d5(cx: Cx, ob: Ob) -> None:
    check_merge(cx, ob)


def check_merge(cx: Cx, ob: Ob) -> None:
    fn = merger(cx) or cx.fn(f"{CONV}._merge", ob.id)
    s = cx.summary(fn, ob.id)
    prov = Prov(s)
    rec, into = ("param", "record"), ("param", "into")
    if fn.param("record") is None or fn.param("into") is None:
        ob.undecide("_merge signature changed")
        return
    # the lists _merge appends to / sorts in place are LISTS: the model must declare them so (pydantic keeps a tuple
    # given for a Sequence[str] / Collection[str] field a tuple, and the in-place update then raises AttributeError)
    import ast as _ast

    rec_cls = cx.model.classes.get(f"{API}.Record")
    grown = {ev.a[1][1][2] for ev, _ in s.walk() if ev.kind == "expr" and op(ev.a) == "call" and op(ev.a[1]) == "attr" and ev.a[1][2] in ("append", "extend", "sort", "insert", "remove") and op(ev.a[1][1]) == "attr" and ev.a[1][1][1] == into and ev.a[1][1][2] in LISTS}
    for f_ in sorted(grown):
        ann = rec_cls.fields.get(f_, (None, None))[0] if rec_cls is not None else None
        ann_line = ann.lineno if ann is not None else rec_cls.node.lineno
        if isinstance(ann, _ast.Name) and ann.id in rec_cls.module.constants:
            ann = rec_cls.module.constants[ann.id]  # a module-level alias of the type
        txt = _ast.unparse(ann).replace(" ", "") if ann is not None else ""
        head = txt.split("[")[0].rsplit(".", 1)[-1]
        if head == "Annotated" and isinstance(ann, _ast.Subscript) and isinstance(ann.slice, _ast.Tuple) and ann.slice.elts:
            # Annotated[T, AfterValidator(list)]: whatever sequence is given, the model keeps list(<it>)
            if any(isinstance(e, _ast.Call) and _ast.unparse(e.func).rsplit(".", 1)[-1] in ("AfterValidator", "BeforeValidator", "PlainValidator") and len(e.args) == 1 and _ast.unparse(e.args[0]) == "list" for e in ann.slice.elts[1:]):
                head = "list"
            else:
                head = _ast.unparse(ann.slice.elts[0]).split("[")[0].rsplit(".", 1)[-1]
        if head in ("list", "List"):
            ob.site(f"src/curies/{rec_cls.module.relpath}:{ann_line} {rec_cls.qualname}", f"{f_}: {txt}, updated in place by _merge")
        elif head in ("Sequence", "Collection", "Iterable", "tuple", "Tuple", "Container", "Sized", "Reversible", "AbstractSet", "Set", "set", "frozenset", "FrozenSet"):
            ob.violate(
                rec_cls.qualname,
                f"src/curies/{rec_cls.module.relpath}:{ann_line}",
                f"Record.{f_} is declared `{txt}` while _merge updates it in place with list methods: pydantic keeps a tuple (or any other sequence) given for such a field as it is, so merging into a record that was built from a tuple of synonyms raises AttributeError instead of adding the names - after which the record list and the lookup tables may already disagree",
                witness=f"c = Converter([Record(prefix='a', uri_prefix='u', {f_}=('x',))]); c.add_prefix('a', 'u', {f_}=['y'], merge=True)",
                detail=f"field-type:{f_}",
            )
        elif txt:
            ob.undecide(f"Record.{f_} is declared `{txt}`; whether _merge's in-place list updates apply to every value the model keeps is not decided")
    for ev, ctx in s.walk():
        if ev.kind == "store" and op(ev.a) == "attr":
            if ev.a[1] == into and ev.a[2] in CANON:
                ob.violate(fn.qualname, where(fn, ev.line), f"_merge overwrites into.{ev.a[2]}: merging must keep the existing record's canonical values", detail=f"store:{ev.a[2]}")
            if ev.a[1] == rec:
                ob.violate(fn.qualname, where(fn, ev.line), f"_merge modifies the incoming record ({show(ev.a)})", detail="store-incoming")
            if ev.a[1] == into and ev.a[2] in LISTS:
                ob.undecide(f"_merge rebinds into.{ev.a[2]}; set algebra of the new value not analysed")
    # the whole content of a list of `into` replaced in place (into.xs[:] = f(into.xs)): fine when f only re-orders
    # (sorted / reversed / list); a replacement that can SHRINK the list takes names away from the record that the
    # lookup tables (which _index only ever adds to) keep resolving
    for ev, ctx in s.walk():
        if ev.kind == "store" and op(ev.a) in ("slice", "item") and op(ev.a[1]) == "attr" and ev.a[1][1] == into and ev.a[1][2] in LISTS and (op(ev.a) == "slice" or op(ev.a[2]) == "slice"):
            lst_t = ev.a[1]
            v_ = ev.b
            inner = v_
            while op(inner) == "call" and inner[1] in (("builtin", "sorted"), ("builtin", "list"), ("builtin", "reversed")) and inner[2]:
                inner = inner[2][0]
            if inner == lst_t:
                ob.site(f"{where(fn, ev.line)} {fn.qualname}", f"into.{lst_t[2]} re-ordered in place")
                continue
            shrinks = False
            if op(inner) == "call" and op(inner[1]) == "func" and inner[1][1] in cx.model.functions:
                import ast as _ast

                h_ = cx.model.functions[inner[1][1]]
                shrinks = any(isinstance(n_, _ast.Attribute) and n_.attr in ("casefold", "lower", "upper", "strip") for n_ in _ast.walk(h_.node)) and any(isinstance(n_, _ast.Call) and isinstance(n_.func, _ast.Attribute) and n_.func.attr in ("setdefault", "add", "fromkeys") or isinstance(n_, (_ast.Dict, _ast.DictComp, _ast.SetComp)) for n_ in _ast.walk(h_.node))
            base_ = inner[1][1] if op(inner) == "call" and op(inner[1]) == "attr" and inner[1][2] in ("values", "keys") else inner
            if op(base_) == "new" and base_[1] in ("dict", "set"):
                for mev, _ in s.mutations_of(base_):
                    for x in subterms(mev.a if isinstance(mev.a, tuple) else ()):
                        if op(x) == "call" and op(x[1]) == "attr" and x[1][2] in ("casefold", "lower", "upper", "strip") and not x[2]:
                            shrinks = True
            if op(inner) == "call" and inner[1] in (("builtin", "set"), ("builtin", "frozenset")) or (op(inner) == "call" and op(inner[1]) == "attr" and inner[1][1] == ("builtin", "dict") and inner[1][2] == "fromkeys"):
                ob.site(f"{where(fn, ev.line)} {fn.qualname}", f"into.{lst_t[2]} de-duplicated by exact equality")
                continue
            if shrinks:
                ob.violate(
                    fn.qualname,
                    where(fn, ev.line),
                    f"_merge replaces the content of into.{lst_t[2]} by `{show(v_)[:50]}`, which keeps one of several entries that are equal after a string transformation (case folding ...): a spelling the record ALREADY had is dropped from it, while the lookup tables (to which _index only adds) keep resolving it - compress(u) gives a CURIE whose expand_all no longer lists u",
                    witness="record with 'https://identifiers.org/GO:' and '.../go:' as URI-prefix synonyms, then a merge with case_sensitive=False",
                    detail=f"merge-drops-existing:{lst_t[2]}",
                )
            else:
                ob.undecide(f"_merge replaces the content of into.{lst_t[2]} by `{show(v_)[:50]}`: that nothing the record had is lost is not decided")
    sides = {"prefix_synonyms": CURIE_SIDE, "uri_prefix_synonyms": URI_SIDE}
    added: dict[str, set] = {k: set() for k in sides}
    for ev, ctx in s.walk():
        if ev.kind != "expr" or op(ev.a) != "call" or op(ev.a[1]) != "attr":
            continue
        c = ev.a
        r = c[1][1]
        if op(r) == "attr" and r[1] == rec and c[1][2] in MUTATORS:
            ob.violate(fn.qualname, where(fn, ev.line), f"_merge mutates the incoming record ({show(r)})", detail="mutate-incoming")
        if not (op(r) == "attr" and r[1] == into and r[2] in LISTS):
            continue
        lst = r[2]
        m = c[1][2]
        if m in ("sort", "reverse"):
            continue
        if m in ("remove", "pop", "clear"):
            ob.violate(fn.qualname, where(fn, ev.line), f"_merge removes elements from into.{lst}", detail=f"remove:{lst}")
            continue
        if m not in ("append", "extend", "insert"):
            ob.undecide(f"unrecognised mutation {m} on into.{lst}")
            continue
        ob.site(f"{where(fn, ev.line)} {fn.qualname}", f"into.{lst}.{m}(...)")
        val = c[2][-1]
        comp_guards = []
        if m == "extend":
            # extend(<values of SRC that pass a filter>): judged like the loop `for v in SRC: if filter: append(v)`
            x = val[4] if op(val) == "new" and len(val) > 4 else val
            if op(x) == "comp" and x[1] in ("list", "gen") and len(x[3]) == 1 and x[2] == x[3][0][0]:
                v_, src, ifs = x[3][0]
                while op(src) == "call" and ((src[1] == ("attr", ("builtin", "dict"), "fromkeys") and len(src[2]) == 1) or (src[1] in (("builtin", "list"), ("builtin", "tuple"), ("builtin", "sorted"), ("builtin", "set")) and len(src[2]) == 1)):
                    src = src[2][0]
                prov.add_binding(v_, src)
                val = v_
                m = "append"
                comp_guards = [(cnd, True) for cnd in ifs]
        fs = prov.fields(val) if m != "extend" else _container_fields(prov, val)
        for rr, f in fs:
            if rr == rec:
                added[lst].add(f)
                if f not in sides[lst]:
                    ob.violate(fn.qualname, where(fn, ev.line), f"_merge adds the incoming record's `{f}` to into.{lst} (wrong side)", detail=f"cross-side:{f}")
            elif rr == "?":
                ob.undecide(f"element added to into.{lst} not recognised: {show(f)[:60]}")
            else:
                ob.violate(fn.qualname, where(fn, ev.line), f"_merge adds a value of `{show(rr)}` to into.{lst}", detail="wrong-source")
        # guard: membership in the full cover of `into`
        cover = set()
        unknown_guard = False
        from types import SimpleNamespace as _NS

        for g in list(ctx.guards) + [_NS(kind="guard", a=a_, b=b_) for a_, b_ in comp_guards]:
            if g.kind != "guard":
                continue
            atoms = []
            if op(g.a) == "and" and g.b is True:
                atoms = [(x, True) for x in g.a[1]]
            elif op(g.a) == "or" and g.b is False:
                atoms = [(x, False) for x in g.a[1]]
            else:
                atoms = [(g.a, g.b)]
            for c, pol in atoms:
                while op(c) == "not":
                    c, pol = c[1], not pol
                if op(c) == "cmp" and c[1] in ("in", "not in") and c[2] == val and ((c[1] == "not in") == pol):
                    cover |= {f for rr, f in _container_fields(prov, c[3]) if rr == into}
                elif op(c) == "cmp" and c[1] in ("==", "!=") and val in (c[2], c[3]) and ((c[1] == "!=") == pol):
                    other = c[3] if c[2] == val else c[2]
                    cover |= {f for rr, f in prov.fields(other) if rr == into}
                elif op(c) == "call" and c[1] in (("func", f"{API}._in"), ("func", f"{API}._eq")) and len(c[2]) >= 2 and c[2][0] == val and pol is False:
                    kw_ = dict(c[3])
                    cs_ = kw_.get("case_sensitive") or (c[2][2] if len(c[2]) > 2 else None)
                    if c[1][1].endswith("._in"):
                        cover |= {f for rr, f in _container_fields(prov, c[2][1]) if rr == into}
                    else:
                        cover |= {f for rr, f in prov.fields(c[2][1]) if rr == into}
                    if not is_const(cs_, True):
                        ob.violate(
                            fn.qualname,
                            where(fn, ev.line),
                            f"_merge decides whether a name is already present through {c[1][1].rsplit('.', 1)[-1]}(..., case_sensitive={show(cs_) if cs_ else '?'}): with case-insensitive matching a (URI) prefix that differs from an existing one only by case is not added - it is in no record and resolves nowhere although the merge succeeded",
                            witness="chain([{a: 'http://x/A_'}, {a: 'http://x/a_'}], case_sensitive=False): 'http://x/a_' is lost, a shorter nested prefix of another record wins",
                            detail=f"weak-membership:{lst}",
                        )
                elif op(c) == "cmp" and c[1] in ("in", "not in") and ((c[1] == "not in") == pol) and op(c[2]) == "call" and op(c[2][1]) == "attr" and c[2][1][1] == val and c[2][1][2] in ("casefold", "lower", "upper", "strip"):
                    ob.violate(
                        fn.qualname,
                        where(fn, ev.line),
                        f"_merge adds a name to into.{lst} only if its {c[2][1][2]}()-ed form is new: a (URI) prefix that differs from an existing one only by {'whitespace' if c[2][1][2] == 'strip' else 'case'} is silently dropped - it resolves nowhere although the merge succeeded",
                        witness="merge Record(prefix='go', uri_prefix='http://x/GO_') into a record owning 'http://x/go_': compress('http://x/GO_1') is None afterwards",
                        detail=f"weak-membership:{lst}",
                    )
                    unknown_guard = True
                elif any(x == val for x in subterms(c)):
                    unknown_guard = True
        extra_cover = cover - sides[lst]
        if extra_cover:
            ob.violate(
                fn.qualname,
                where(fn, ev.line),
                f"_merge treats a name as already present in into.{lst} when it equals one of the existing record's {sorted(extra_cover)} (the other side of the record): such a name is dropped - the merge succeeds but the name is in no record and resolves nowhere",
                witness="merging a record whose CURIE prefix synonym equals the existing record's URI prefix string (e.g. 'urn:ex:'): the synonym is lost",
                detail=f"guard-cover-extra:{lst}",
            )
        missing = sides[lst] - cover
        if missing and unknown_guard:
            ob.undecide(f"_merge: guard on the append to into.{lst} not recognised")
        elif missing:
            ob.violate(
                fn.qualname,
                where(fn, ev.line),
                f"_merge appends to into.{lst} without checking membership in {sorted(missing)} of the existing record: duplicates or the canonical value end up among the synonyms",
                detail=f"guard-cover:{lst}",
            )
    for lst, side in sides.items():
        missing = side - added[lst]
        if missing:
            ob.violate(fn.qualname, fn.where, f"_merge never adds the incoming record's {sorted(missing)} to into.{lst}: merged names are lost", detail=f"cover:{lst}:" + "+".join(sorted(missing)))


@obligation("C05-D6", "MATRIX: _match_record scans all records and compares the full 2x2 cover on the CURIE side and on the URI side through _eq/_in with the caller's case_sensitive, never across sides", floor=8)
def d6(cx: Cx, ob: Ob) -> None:
    check_match_record(cx, ob)


def check_match_record(cx: Cx, ob: Ob) -> None:
    fn = cx.fn(f"{CONV}._match_record", ob.id)
    s = cx.summary(fn, ob.id)
    # the records that match are handed to add_record BY KEY (`record._key`), and add_record looks the one to merge
    # into up by that key: the key must tell any two records of a converter apart - exact field values do (names
    # are unique), case-folded / stripped ones do not ('GO' and 'go' are two legal records)
    import ast as _ast

    rc = cx.model.classes.get(f"{API}.Record")
    km = rc.methods.get("_key") if rc is not None else None
    if km is not None and any(isinstance(n_, _ast.Attribute) and n_.attr == "_key" for n_ in _ast.walk(fn.node)):
        lossy = [n_ for n_ in _ast.walk(km.node) if isinstance(n_, _ast.Call) and isinstance(n_.func, _ast.Attribute) and n_.func.attr in ("casefold", "lower", "upper", "strip", "lstrip", "rstrip", "title", "swapcase", "capitalize")]
        if lossy:
            ob.violate(
                km.qualname,
                f"src/curies/{km.module.relpath}:{lossy[0].lineno}",
                f"Record._key is built from transformed field values (`{_ast.unparse(lossy[0])[:50]}`): _match_record reports matches under this key and add_record finds the record to merge into by it, so two records of one converter that differ only in what the transformation removes share a key - the merge goes into the FIRST of them, whichever one actually matched, and its names are handed to the wrong record",
                witness="records 'GO' -> .../GO: and 'go' -> .../go:, then add_prefix('go', .../go:, prefix_synonyms=['x'], merge=True): 'x' becomes a synonym of GO",
                detail="lossy-key",
            )
        else:
            ob.site(f"{km.where} {km.qualname}", "record key built from the exact field values")
    me = ("param", fn.self_name)
    ext = ("param", fn.params[1].name)
    prov = Prov(s)
    loops = [ev for ev, ctx in s.walk() if ev.kind == "loop" and not ctx.loops]
    rec_loops = [ev for ev in loops if ev.b == ("attr", me, "records")]
    if not rec_loops:
        ob.undecide("_match_record does not loop over self.records")
        return
    lp = rec_loops[0]
    recv = lp.a

    excused: list = []

    def early(paths) -> int | None:
        for p in paths:
            if p.out is not None and p.out[0] in ("break", "return"):
                gs = [g for g in p.events if g.kind == "guard"]
                # an exit that a caller switches on (a parameter other than case_sensitive), or that is taken only
                # after the lookup tables were asked about every other name: whether the remaining records can
                # still matter is a question about the callers / the tables, not about this loop
                by_param = [g for g in gs if any(op(x) == "param" and x[1] not in ("case_sensitive", fn.self_name, fn.params[1].name) for x in subterms(g.a))]
                by_tables = [g for g in gs if any(op(x) == "attr" and x[1] == me and x[2] in TABLES for x in subterms(g.a))]
                if by_param or by_tables:
                    excused.append((by_param or by_tables)[0])
                    continue
                # two matches already: add_record tells 0 / 1 / several apart and nothing else, so the rest of the scan
                # cannot change the outcome
                def _several(g) -> bool:
                    a_ = g.a
                    if g.b is True and op(a_) == "cmp" and op(a_[2]) == "call" and a_[2][1] == ("builtin", "len") and is_const(a_[3]) and isinstance(a_[3][1], int):
                        return (a_[1] == ">" and a_[3][1] >= 1) or (a_[1] == ">=" and a_[3][1] >= 2) or (a_[1] == "==" and a_[3][1] >= 2)
                    return False

                if p.out[0] == "break" and any(_several(g) for g in gs):
                    ob.site(f"{fn.where} {fn.qualname}", "the scan stops once two records have matched (the outcome is decided)")
                    continue
                return p.events[-1].line if p.events else lp.line
            for ev in p.events:
                if ev.kind == "loop" and ev.body:
                    pass
        return None

    for p in s.paths:
        if p.out is not None and p.out[0] == "return" and not any(ev.kind == "loop" and ev.line == lp.line for ev in p.events):
            ob.violate(
                fn.qualname,
                where(fn, p.out[2]),
                "_match_record returns before scanning self.records: a record that also overlaps another existing record is reported as a single match (and merged) instead of rejected",
                witness=" -> ".join(("" if g.b else "not ") + show(g.a)[:60] for g in p.events if g.kind == "guard"),
                detail="return-before-scan",
            )
    e = early(lp.body)
    if excused:
        # a switch that add_record sets: stopping at the first match is harmless exactly when any match is fatal
        # (merge not set: one match raises as well as several); with merge set the second match must be seen
        sw = sorted({x[1] for g in excused for x in subterms(g.a) if op(x) == "param" and x[1] not in ("case_sensitive",) and fn.param(x[1]) is not None})
        ar = cx.model.functions.get(f"{CONV}.add_record")
        if len(sw) == 1 and ar is not None:
            ars = cx.summary(ar, ob.id)
            vals = {dict(c_[3]).get(sw[0]) for c_, _, _ in ars.calls(fn.name)}
            prm = fn.param(sw[0])
            # polarity: the exit is taken when the switch is FALSE (`not exhaustive`) or TRUE (`first_only`)
            exit_when_true = any(g.a == ("param", sw[0]) and g.b is True for g in excused)
            full_when = (lambda v: v == ("param", "merge") or is_const(v, True)) if not exit_when_true else (lambda v: v == ("not", ("param", "merge")) or is_const(v, False))
            if vals and None not in vals and all(full_when(v) for v in vals):
                ob.site(f"{fn.where} {fn.qualname}", f"early exit switched by `{sw[0]}`, which add_record sets so that the scan is complete whenever merge is set")
                excused = []
            elif vals and None not in vals and all((v == ("not", ("param", "merge")) or is_const(v, False)) if not exit_when_true else (v == ("param", "merge") or is_const(v, True)) for v in vals):
                ob.violate(
                    fn.qualname,
                    where(ar, ar.node.lineno),
                    f"add_record asks _match_record for an incomplete scan (`{sw[0]}={show(next(iter(vals)))}`) exactly when merge is set: a record that bridges two existing records is merged into the first instead of rejected",
                    witness="records a and b, then add_record(Record(prefix='a', uri_prefix=<b's URI prefix>), merge=True)",
                    detail="early-exit",
                )
                excused = []
    if excused:
        ob.undecide(f"_match_record can leave the scan of self.records early when `{show(excused[0].a)[:60]}` (a switch of the callers / a look into the lookup tables): that no second matching record is missed then is not decided")
    if e is not None:
        ob.violate(fn.qualname, where(fn, e), "_match_record leaves the scan of self.records early: a record overlapping two existing records is reported as a single match", detail="early-exit")
    guards = []
    exact_ok = set()  # comparison terms evaluated only where case_sensitive is known to be true
    for ev, ctx in s.walk():
        if ev.kind == "guard" and ctx.loops and ctx.loops[0] is lp:
            guards.append(ev)
            if any(g.kind == "guard" and g.a == ("param", "case_sensitive") and g.b is True for g in ctx.guards):
                exact_ok.update(x for x in subterms(ev.a) if op(x) == "cmp")
    comps = pair_compare_cover(prov, [g.a for g in guards])
    seen = set()
    for x, y, how, c in comps:
        if x[0] == "?" or y[0] == "?":
            continue
        a, b = (x, y) if x[0] == ext else (y, x)
        if a[0] != ext or b[0] != recv:
            continue
        key = (a[1], b[1])
        if key not in seen:
            ob.site(f"{fn.where} {fn.qualname}", f"compare external.{a[1]} ~ record.{b[1]} via {how}")
        seen.add(key)
        if how in ("_eq", "_in"):
            kw = dict(c[3])
            cs = kw.get("case_sensitive") or (c[2][2] if len(c[2]) > 2 else None)
            if cs != ("param", "case_sensitive"):
                ob.violate(fn.qualname, fn.where, f"comparison external.{a[1]} ~ record.{b[1]} does not use the caller's case_sensitive", detail=f"case:{a[1]}~{b[1]}")
        elif c in exact_ok:
            pass  # exact comparison on a path taken only when case_sensitive is true
        else:
            ob.violate(fn.qualname, fn.where, f"comparison external.{a[1]} ~ record.{b[1]} uses `{how}` and ignores case_sensitive", detail=f"raw-compare:{a[1]}~{b[1]}")
    # "normalise once, then test membership":  n(x) in {n(y) for y in <names of the other record>}  with n the
    # identity (case-sensitive path) or str.casefold (case-insensitive path) on BOTH sides
    def norm_of(t):
        """(normaliser, inner term): 'id' | 'fold' | 'weak'"""
        if op(t) == "call" and t[1] == ("builtin", "str") and len(t[2]) == 1:
            return "id", t[2][0]
        if op(t) == "call" and t[1] == ("attr", ("builtin", "str"), "casefold") and len(t[2]) == 1:
            return "fold", t[2][0]
        if op(t) == "call" and op(t[1]) == "attr" and t[1][2] == "casefold" and not t[2]:
            return "fold", t[1][1]
        if op(t) == "call" and op(t[1]) == "attr" and t[1][2] in ("lower", "upper") and not t[2]:
            return "weak", t[1][1]
        return "id", t

    def flag_on(ctx):
        for g in ctx.guards:
            if g.kind == "guard" and g.a == ("param", "case_sensitive"):
                return g.b
        return None

    used_helpers = any(how in ("_eq", "_in") for _, _, how, _ in comps)
    for ev, ctx in s.walk():
        if not (ctx.loops and ctx.loops[0] in rec_loops):
            continue
        recv = ctx.loops[0].a
        for t in (ev.a, ev.b):
            if not isinstance(t, tuple):
                continue
            for c in subterms(t):
                if not (op(c) == "cmp" and c[1] == "in"):
                    continue
                n1, x = norm_of(c[2])
                cont = c[3]
                if op(cont) == "new" and len(cont) > 4:
                    cont = cont[4]
                if not (op(cont) == "comp" and cont[1] in ("set", "list", "gen") and len(cont[3]) == 1 and not cont[3][0][2]):
                    continue
                ytgt, ysrc, _ = cont[3][0]
                n2, y = norm_of(cont[2])
                if y != ytgt:
                    continue
                prov.add_binding(ytgt, ysrc)
                fx, fy = prov.fields(x), prov.fields(y)
                if not fx or not fy or any(r == "?" for r, _ in fx | fy):
                    continue
                flag = flag_on(ctx)
                for (ra, fa) in fx:
                    for (rb, fb) in fy:
                        a, b = ((ra, fa), (rb, fb)) if ra == ext else ((rb, fb), (ra, fa))
                        if a[0] != ext or b[0] != recv:
                            continue
                        seen.add((a[1], b[1]))
                        ob.site(f"{fn.where} {fn.qualname}", f"compare external.{a[1]} ~ record.{b[1]} via normalised membership ({n1}/{n2}, case_sensitive={flag})")
                        if n1 != n2:
                            ob.violate(
                                fn.qualname,
                                where(fn, ev.line),
                                f"comparison external.{a[1]} ~ record.{b[1]} normalises one side only (`{show(c)[:70]}`): with case_sensitive=False a name containing an upper-case letter no longer matches even an identical copy of itself",
                                witness="existing URI prefix 'http://purl.obolibrary.org/obo/CHEBI_', incoming record with the same URI prefix, case_sensitive=False: no match, the record is appended and the URI prefix has two owners",
                                detail=f"half-folded:{a[1]}~{b[1]}",
                            )
                        elif "weak" in (n1, n2):
                            ob.undecide("_match_record folds with lower()/upper(), which is not case folding")
                        elif flag is None:
                            ob.violate(fn.qualname, fn.where, f"comparison external.{a[1]} ~ record.{b[1]} uses `{'raw' if n1 == 'id' else 'case-folded'}` membership and ignores case_sensitive", detail=f"raw-compare:{a[1]}~{b[1]}")
                        elif (flag is True) != (n1 == "id"):
                            ob.violate(fn.qualname, fn.where, f"comparison external.{a[1]} ~ record.{b[1]} is {'case-folded' if n1 == 'fold' else 'raw'} on the path where case_sensitive is {flag}", detail=f"case:{a[1]}~{b[1]}")
    # comparisons delegated to a helper the engine does not see through (generator, loop-with-return)
    from ..summ import KNOWN_FUNCTIONS

    opaque = []
    for t, ev, ctx in s.all_terms():
        for c in subterms(t):
            if op(c) != "call":
                continue
            q = None
            if op(c[1]) == "func":
                q = c[1][1]
            elif op(c[1]) == "attr" and c[1][1] in (me, ("param", "cls")):
                m2 = cx.model.find_method(fn.cls, c[1][2]) if fn.cls is not None else None
                q = m2.qualname if m2 is not None else None
            if q is not None and q not in KNOWN_FUNCTIONS and q.rsplit(".", 1)[-1] not in ("_eq", "_in") and any(x == ext or x == recv for a in (*c[2], *(v for _, v in c[3])) for x in subterms(a)):
                opaque.append(q)
            # reflection: which field is read is a run-time value (a table of field names), not visible in the term
            if c[1] == ("builtin", "getattr") and len(c[2]) >= 2 and op(c[2][1]) != "const" and any(x == ext or op(x) == "bv" for x in subterms(c[2][0])):
                opaque.append(f"getattr(.., {show(c[2][1])[:30]})")
            if (op(c[1]) == "attr" and c[1][2] in ("model_dump", "dict", "__getattribute__") and (c[1][1] == ext or op(c[1][1]) == "bv")) or (c[1] == ("builtin", "vars") and c[2]):
                opaque.append(f"{show(c)[:30]}")
    if not seen and not opaque:
        # the loop over self.records compares nothing with the incoming record: the matching is done another way
        # (the records are indexed first and the index is probed) - nothing for a comparison matrix to read
        ob.undecide("_match_record makes no comparison between the incoming record and the records it loops over (an index is built and probed instead): the comparison cover is not read off")
        return
    for side in (CURIE_SIDE, URI_SIDE):
        need = {(f, g) for f in side for g in side}
        missing = need - seen
        if missing and opaque:
            ob.undecide(f"_match_record delegates comparisons to `{opaque[0]}`, which is not analysed; cover {sorted(missing)} not established")
            continue
        if missing:
            ob.violate(
                fn.qualname,
                fn.where,
                f"_match_record does not compare {sorted(missing)} (external ~ existing): an overlapping record is not recognised and is appended as new",
                detail="cover:" + ",".join(f"{a}~{b}" for a, b in sorted(missing)),
            )
    cross = {k for k in seen if (k[0] in CURIE_SIDE) != (k[1] in CURIE_SIDE)}
    for a, b in sorted(cross):
        ob.violate(fn.qualname, fn.where, f"_match_record compares external.{a} with record.{b} across sides", detail=f"cross-side:{a}~{b}")
    # helper semantics: decision table over (raw equality E, case-folded equality F, flag C), E => F
    if used_helpers or any(cx.model.functions.get(f"{API}.{n}") is not None for n in ("_eq", "_in")):
        check_compare_helpers(cx, ob)


def _fold_of(t, x):
    return op(t) == "call" and op(t[1]) == "attr" and t[1][2] == "casefold" and t[1][1] == x and not t[2]


def _weak_fold(t):
    return op(t) == "call" and op(t[1]) == "attr" and t[1][2] in ("lower", "upper") and not t[2]


class _Unknown(Exception):
    pass


def _bool_eval(t, atom, env):
    """Evaluate a boolean term under an assignment of the recognised atoms."""
    o = op(t)
    if o == "const" and isinstance(t[1], bool):
        return t[1]
    if o in ("not",):
        return not _bool_eval(t[1], atom, env)
    if o == "truth":
        return _bool_eval(t[1], atom, env)
    if o == "and":
        return all(_bool_eval(x, atom, env) for x in t[1])
    if o == "or":
        return any(_bool_eval(x, atom, env) for x in t[1])
    if o == "ifexp":
        return _bool_eval(t[2], atom, env) if _bool_eval(t[1], atom, env) else _bool_eval(t[3], atom, env)
    if o == "call" and t[1] == ("builtin", "bool") and len(t[2]) == 1:
        return _bool_eval(t[2][0], atom, env)
    if o == "cmp" and t[1] in ("!=", "not in"):
        return not _bool_eval(("cmp", {"!=": "==", "not in": "in"}[t[1]], t[2], t[3]), atom, env)
    a = atom(t)
    if a is None and o == "call" and t[1] == ("builtin", "any") and len(t[2]) == 1 and op(t[2][0]) == "comp" and len(t[2][0][3]) == 1 and not t[2][0][3][0][2] and op(t[2][0][2]) in ("and", "or", "not"):
        # any(<formula over b> for b in bs): judged for a haystack of one element, b standing for it
        comp = t[2][0]
        return _bool_eval(comp[2], lambda x: atom(("elem", x, comp[3][0][0], comp[3][0][1])), env)
    if a is None:
        raise _Unknown(show(t)[:60])
    return env[a]


def check_compare_helpers(cx: Cx, ob: Ob) -> None:
    for name in ("_eq", "_in"):
        h = cx.model.functions.get(f"{API}.{name}")
        if h is None:
            ob.undecide(f"{name} helper not found")
            continue
        hs = cx.summary(h, ob.id)
        ob.site(f"{h.where} {h.qualname}", "comparison helper (decision table)")
        if len(h.params) < 3:
            ob.undecide(f"{name} does not take (a, b, case_sensitive)")
            continue
        A, Bp, C = (("param", p.name) for p in h.params[:3])

        def atom(t, A=A, Bp=Bp, C=C, name=name):
            if t == C:
                return "C"
            lenc = lambda x: ("call", ("builtin", "len"), (x,), ())  # noqa: E731
            if op(t) == "elem":
                # an atom about ONE element `tgt` of the haystack (inside any(...)): the element plays b's part
                x, tgt, hay = t[1], t[2], t[3]
                if hay != Bp:
                    return None
                if op(x) == "cmp" and x[1] == "==":
                    l, r = x[2], x[3]
                    if {l, r} == {A, tgt}:
                        return "E"
                    if (_fold_of(l, A) and _fold_of(r, tgt)) or (_fold_of(r, A) and _fold_of(l, tgt)):
                        return "F"
                    if {l, r} == {lenc(A), lenc(tgt)}:
                        return "L"
                return None
            if op(t) == "cmp" and t[1] == "==" and {t[2], t[3]} == {lenc(A), lenc(Bp)} and name == "_eq":
                return "L"
            if name == "_eq":
                if op(t) == "cmp" and t[1] == "==":
                    l, r = t[2], t[3]
                    if {l, r} == {A, Bp}:
                        return "E"
                    if (_fold_of(l, A) and _fold_of(r, Bp)) or (_fold_of(l, Bp) and _fold_of(r, A)):
                        return "F"
                return None
            # _in
            if op(t) == "cmp" and t[1] == "in" and t[2] == A and t[3] == Bp:
                return "E"
            if op(t) == "call" and t[1] == ("builtin", "any") and len(t[2]) == 1 and op(t[2][0]) == "comp" and len(t[2][0][3]) == 1:
                comp = t[2][0]
                tgt, it, ifs = comp[3][0]
                e = comp[2]
                if it == Bp and not ifs and op(e) == "cmp" and e[1] == "==":
                    l, r = e[2], e[3]
                    if (_fold_of(l, A) and _fold_of(r, tgt)) or (_fold_of(r, A) and _fold_of(l, tgt)):
                        return "F"
                    if {l, r} == {A, tgt}:
                        return "E"
            if op(t) == "cmp" and t[1] == "in" and _fold_of(t[2], A) and t[3] == Bp:
                return "H"  # folded needle in an UNfolded haystack: a fact of its own
            if op(t) == "cmp" and t[1] == "in" and _fold_of(t[2], A):
                c = t[3]
                if op(c) == "call" and c[1] in (("builtin", "set"), ("builtin", "list"), ("builtin", "tuple"), ("builtin", "frozenset")) and len(c[2]) == 1:
                    c = c[2][0]
                if op(c) == "comp" and len(c[3]) == 1 and c[3][0][1] == Bp and not c[3][0][2] and _fold_of(c[2], c[3][0][0]):
                    return "F"
            return None

        def bisect_membership(t, A=A, Bp=Bp):
            """``i = bisect_left(S, a); i < len(S) and S[i] == a`` over ``S = sorted(bs)`` made in the helper itself is
            ``a in bs`` (the sort establishes what the search needs)."""
            if op(t) == "and" and len(t[1]) == 2:
                for x, y in (t[1], t[1][::-1]):
                    if op(x) == "cmp" and op(y) == "cmp" and y[1] == "==":
                        i = x[2] if x[1] == "<" else x[3] if x[1] == ">" else None
                        n = x[3] if x[1] == "<" else x[2] if x[1] == ">" else None
                        if i is None or not (op(i) == "call" and i[1] == ("ext", "bisect.bisect_left") and len(i[2]) == 2 and not i[3]):
                            continue
                        S, needle = i[2]
                        sorted_here = op(S) == "call" and S[1] == ("builtin", "sorted") and S[2] == (Bp,) and not S[3]
                        if sorted_here and needle == A and n == ("call", ("builtin", "len"), (S,), ()) and {y[2], y[3]} == {("item", S, i), A}:
                            return ("cmp", "in", A, Bp)
            return t

        from ..terms import rewrite as _rewrite

        ret_terms = [_rewrite(t, bisect_membership) for t, _ in hs.returns()]
        bis = [x for t in ret_terms + [g.a for _, ctx in hs.returns() for g in ctx.guards if g.kind == "guard"] for x in subterms(t) if op(x) == "call" and op(x[1]) == "ext" and x[1][1].startswith("bisect.")]
        if bis:
            ob.violate(
                h.qualname,
                h.where,
                f"{name} looks its argument up by binary search ({bis[0][1][1]}): synonym lists carry no sortedness invariant (only _merge and add_prefix sort; records built directly or by the loaders keep the given order), so present names are reported absent",
                witness="Record(prefix='P', prefix_synonyms=['zeta', 'alpha']): _in('alpha', synonyms) is False and a record named 'alpha' is appended as a second owner",
                detail="binary-search",
            )
            continue
        bad = None
        try:
            for E in (False, True):
                for F in (False, True):
                    if E and not F:
                        continue  # equal strings have equal case-folds
                    for Cv, Hv, Lv in [(c_, h_, l_) for c_ in (False, True) for h_ in (False, True) for l_ in (False, True)]:
                        if E and not Lv:
                            continue  # equal strings have equal length (case-folded equal ones need not: 'ß' / 'SS')
                        env = {"E": E, "F": F, "C": Cv, "H": Hv, "L": Lv}
                        got = None
                        # the helper as it runs with this value of the flag (small helpers it calls with the flag as
                        # a literal argument are then read through on the one path that value selects)
                        hs_c = cx.summary(h, ob.id, bind={h.params[2].name: Cv})
                        for t, ctx in hs_c.returns():
                            if all(_bool_eval(g.a, atom, env) == g.b for g in ctx.guards if g.kind == "guard"):
                                got = _bool_eval(_rewrite(t, bisect_membership), atom, env)
                                break
                        want = E if Cv else F
                        if got is None:
                            raise _Unknown("no return reached")
                        if got != want and bad is None:
                            bad = (env, got, want)
        except _Unknown as e:
            weak = any(_weak_fold(x) for t, _, _ in hs.all_terms() for x in subterms(t))
            ob.undecide(f"{name}: term `{e}` not recognised" + (" (lower()/upper() is not case folding: 'ß' vs 'ss')" if weak else ""))
            continue
        if bad is not None:
            env, got, want = bad
            what = "the strings are equal" if env["E"] else ("they differ only by case" if env["F"] else "they differ")
            ob.violate(
                h.qualname,
                h.where,
                f"{name} answers {got} where {want} is required: case_sensitive={env['C']} and {what}",
                witness=f"decision table row E(raw equal)={env['E']} F(case-folded equal)={env['F']} C(case_sensitive)={env['C']}",
                detail="decision-table:" + ("ignores-case-flag" if env["C"] and got != want and not env["E"] else "no-fold" if not env["C"] else "wrong"),
            )


@obligation("C05-D7", "state closure: all derived converter state is maintained by _index; query methods write no state", floor=5)
def d7(cx: Cx, ob: Ob) -> None:
    state_closure(cx, ob)



@obligation("C05-X1", "OWN (shared with C10): no function that takes a converter stores into, mutates or captures the Record objects of its input - a converter whose records are changed behind its back no longer matches its own lookup tables", floor=6)
def x1(cx: Cx, ob: Ob) -> None:
    from .c10 import check_no_aliasing

    check_no_aliasing(cx, ob)


@obligation("C05-X3", "no memoised derived values (cached_property / lru_cache) on Record, Reference or Converter objects, which are changed in place or copied with updates", floor=3)
def x3(cx: Cx, ob: Ob) -> None:
    from ..rules import cached_derivations

    cached_derivations(cx, ob)


@obligation("C05-X8", "the Record model stores prefixes and URI prefixes verbatim: no pydantic string transformation (strip / case folding / length limits) in its model_config or field declarations", floor=1)
def x8(cx: Cx, ob: Ob) -> None:
    from ..rules import record_verbatim

    record_verbatim(cx, ob)


@obligation("C05-X10", "Converter.__init__ reads its (Iterable, possibly one-shot) `records` argument only through one materialising call (sorted/list) and keeps that fresh list - never the caller's list object, never sorted in place", floor=2)
def x10(cx: Cx, ob: Ob) -> None:
    from ..rules import constructor_owns_records

    constructor_owns_records(cx, ob)


@obligation("C05-X12", "def-use lints over the files this property is anchored in (api.py): no one-shot iterator (generator expression, map, filter, zip, iter, reversed, enumerate, generator call) bound to a name is consumed twice or inside a loop that starts after its creation; no mutable default argument is mutated, stored or returned; no binary search over a sequence that is not kept sorted; no container resized inside the loop that iterates it; no Iterable parameter consumed twice before it is materialised; itertools.groupby only over input sorted by the grouping key", floor=1)
def x12(cx: Cx, ob: Ob) -> None:
    from ..rules import package_lints

    package_lints(cx, ob, {'api.py'})


@obligation("C05-D8", "a rejected call raises ValueError and nothing else: no other exception class can escape from add_record / add_prefix (explicit raises, exception constructors, printf-style message formatting with a non-literal template)", floor=1)
def d8(cx: Cx, ob: Ob) -> None:
    from ..analyses.mode import Mode

    mode = Mode(cx)
    for name in ("add_record", "add_prefix"):
        fn = cx.fn(f"{CONV}.{name}", ob.id)
        res = mode.analyse(fn, {})
        ob.site(f"{fn.where} {fn.qualname}", f"may raise {sorted({e.cls for e in res.raises})}")
        for e in res.raises:
            c = cx.model.class_by_short(e.cls)
            ok = e.cls == "ValueError" or (c is not None and "ValueError" in cx.model.mro_names(c))
            if not ok:
                origin = cx.model.functions.get(e.origin)
                ob.violate(
                    fn.qualname,
                    where(origin, e.line) if origin else e.origin,
                    f"{name} can raise {e.cls} ({' / '.join(str(v) for v in e.via) or e.origin}) where the property promises ValueError for a rejected call",
                    witness="an existing record whose URI prefix contains '%' (percent-encoded) and a rejected add: TypeError instead of ValueError",
                    detail=f"foreign:{e.cls}",
                )


@obligation("C05-X13", "records are copied and serialised whole: no model_dump(exclude_unset=True) / model_fields_set anywhere in the package (in-place merges do not update pydantic's fields_set)", floor=1)
def x13(cx: Cx, ob: Ob) -> None:
    from ..rules import no_fields_set_dependence

    no_fields_set_dependence(cx, ob)


@obligation("C05-X17", "queries read the records, not the insertion order of the incrementally filled tables: expand_pair_all enumerates the URI prefixes of the record found by get_record, canonical first (shared with C02-D7), so an incrementally built converter answers like a fresh one", floor=2)
def x17(cx: Cx, ob: Ob) -> None:
    from .c02 import check_expand_pair_all, check_get_record

    check_expand_pair_all(cx, ob)
    check_get_record(cx, ob)
    first_hit_over_tables(cx, ob)


def first_hit_over_tables(cx: Cx, ob: Ob) -> None:
    """A query that takes the FIRST hit of an iteration over a lookup table (``next(<generator over self.T...>)``, a
    loop over the table that returns from its body) answers by the table's insertion order: the constructor fills
    the tables in record order, add_record / add_prefix in the order of the calls, so the same records give
    different answers depending on how the converter came to hold them.  (Iterating self.records is not flagged:
    a converter built from the current records has them in the same order.)"""
    from ..rules import TABLES, self_state_writes

    ci = cx.model.cls(CONV, ob.id)
    writers = {m.name for m, _, _, _ in self_state_writes(cx, CONV, ob.id)}
    for m in ci.methods.values():
        if m.self_name is None or m.name in writers or m.name.startswith("__"):
            continue
        s = cx.summary(m, ob.id)
        me = ("param", m.self_name)

        def over_table(it):
            for x in subterms(it):
                if op(x) == "attr" and x[1] == me and x[2] in TABLES and x[2] != "trie":
                    return x[2]
            return None

        flagged = False
        for t, ev, _ in s.all_terms():
            for c in subterms(t):
                if op(c) == "call" and c[1] == ("builtin", "next") and c[2] and op(c[2][0]) == "comp" and c[2][0][3]:
                    tab = over_table(c[2][0][3][0][1])
                    if tab and c[2][0][3][0][2] and not flagged:
                        flagged = True
                        ob.violate(
                            m.qualname,
                            where(m, ev.line),
                            f"{m.name} takes the first match of a filtered iteration over self.{tab} (`{show(c)[:60]}`): which entry comes first is the order in which the names were INSERTED, so a converter built by add_prefix / add_record calls and one constructed from the same records give different answers when several entries match",
                            witness="add_prefix('go', ..) then add_prefix('GO', ..): a case-folded query finds 'go' first; Converter(c.records) indexes in record order and may find 'GO'",
                            detail=f"first-hit-over-table:{tab}",
                        )
        for o, ctx in s.outcomes():
            if o is None or o[0] != "return" or not ctx.loops or flagged:
                continue
            lp = ctx.loops[-1]
            tab = over_table(lp.b) if isinstance(lp.b, tuple) else None
            if tab and any(g.kind == "guard" and g.line > lp.line for g in ctx.guards):
                flagged = True
                ob.violate(
                    m.qualname,
                    where(m, o[2]),
                    f"{m.name} returns from inside a loop over self.{tab} on the first entry that passes a test: the answer depends on the insertion order of the table, i.e. on the history of add_prefix / add_record calls",
                    detail=f"first-hit-over-table:{tab}",
                )
        ob.site(f"{m.where} {m.qualname}", "no first-hit iteration over a lookup table")
