"""C12 - URI-prefix remapping and rewiring re-point records without losing information."""

from __future__ import annotations

from ..analyses.setalg import SetAlg, Undecided
from ..report import Cx, Ob, describe, obligation
from ..rules import CANON, CURIE_SIDE, LISTS, URI_SIDE, Prov, _container_fields, where
from ..summ import describe_path
from ..terms import callee_name, is_const, op, show, subterms

describe(
    "C12",
    "other",
    "Symbolic set algebra (SETALG) on the update path of remap_uri_prefixes and rewire (after-set contains the before-set, gains at most "
    "`new`, `new` is canonical and not among the synonyms), a six-world decision table for the skip / clash / update branches against "
    "converter-wide URI knowledge (check-before-act), the TransitiveError precondition, the CURIE-side frame, the cover and order of the "
    "_get_*_preferred_or_synonym helpers, and that rewire adds no records.",
    ["CPython ast", "set.union/difference semantics", "one-owner uniqueness of the input converter (C04)"],
    ["mappings are injective (as in the property's quantifier)"],
    ["idempotence and 'exactly when' as value-level statements"],
)

RECON = "curies.reconciliation"
FUNCS = {"remap_uri_prefixes": "_get_uri_preferred_or_synonym", "rewire": "_get_curie_preferred_or_synonym"}


def main_loop(cx: Cx, ob: Ob, fname: str):
    fn = cx.fn(f"{RECON}.{fname}", ob.id)
    s = cx.summary(fn, ob.id)
    conv = ("param", fn.params[0].name)
    loops = [ev for ev, ctx in s.walk() if ev.kind == "loop" and not ctx.loops and ev.b == ("attr", conv, "records")]
    if not loops:
        # the fix may iterate over copies: [r.model_copy(deep=True) for r in converter.records]
        loops = [ev for ev, ctx in s.walk() if ev.kind == "loop" and not ctx.loops and any(x == ("attr", conv, "records") for x in subterms(ev.b))]
    if not loops:
        # the inverted algorithm: one pass over the PAIRS of the mapping, each applied to the record it addresses
        mp = ("param", fn.params[1].name)
        pair_loops = [ev for ev, ctx in s.walk() if ev.kind == "loop" and not ctx.loops and op(ev.b) == "call" and callee_name(ev.b) == "items" and op(ev.b[1]) == "attr" and ev.b[1][1] == mp]
        for lp in pair_loops:
            stores = [e for q in lp.body or () for e in q.events if e.kind == "store" and op(e.a) == "attr" and e.a[2] in ("uri_prefix", "uri_prefix_synonyms", "prefix", "prefix_synonyms")]
            done_guard = any(g.kind == "guard" and op(g.a) == "cmp" and g.a[1] == "in" and op(g.a[3]) == "new" for q in lp.body or () for g in q.events)
            if stores and not done_guard:
                ob.violate(
                    fn.qualname,
                    where(fn, lp.line),
                    f"{fname} applies the mapping pair by pair: a record that is addressed by two keys (its canonical value and a synonym, or two synonyms) is upgraded twice - it gains both new values, the last pair wins, and a pair after a clashing one is still applied - instead of taking the first applicable entry only",
                    witness="record a with URI prefixes P (canonical) and Q (synonym), mapping {P: P2, Q: Q2}: the result has both P2 and Q2",
                    detail="per-pair-application",
                )
                return None
    if not loops:
        ob.undecide(f"{fname} has no loop over converter.records")
        return None
    return fn, s, conv, loops[0]


def record_term(path, lp):
    """The term denoting the record being updated on this path (loop variable or a copy of it)."""
    rec = lp.a
    for ev in path.events:
        if ev.kind == "bind" and ev.a and any(x == lp.a for x in subterms(ev.b)) and callee_name(ev.b) in ("model_copy", "deepcopy", "copy"):
            rec = ev.b
    return rec


def functional_update(path, lp):
    """``out.append(record.model_copy(update={field: value, ..}))``: the stores the copy amounts to, as pseudo
    store events on the loop's record (the record itself is not touched, the values read its old fields)."""
    from ..summ import Ev

    out = []
    for ev in path.events:
        if ev.kind == "expr" and op(ev.a) == "call" and callee_name(ev.a) in ("append", "add") and ev.a[2]:
            x = ev.a[2][0]
            if op(x) == "call" and callee_name(x) == "model_copy" and op(x[1]) == "attr" and x[1][1] == lp.a:
                upd = dict(x[3]).get("update")
                upd = upd[4] if op(upd) == "new" and len(upd) > 4 else upd
                if op(upd) == "dict":
                    for k, v in upd[1]:
                        if k is not None and is_const(k) and isinstance(k[1], str):
                            out.append(Ev("store", ev.line, ("attr", lp.a, k[1]), v))
    # all values of the update read the record's OLD fields: replay the list fields (which read the old
    # canonical value) before the canonical ones
    out.sort(key=lambda e: 0 if e.a[2].endswith("_synonyms") else 1)
    return out


def constructed_update(path, lp, rec, ob=None, fn=None):
    """``record = Record(prefix=record.prefix, .., uri_prefix=new, uri_prefix_synonyms=..)``: the upgraded record built
    through the constructor from the fields of the old one.  The URI-side keywords are replayed as pseudo stores on
    the old record (list field first: all values read the OLD record); every other field must be handed over as it
    is - a field left out falls back to its default, i.e. is lost."""
    from ..summ import Ev

    for ev in path.events:
        x = ev.b if ev.kind == "bind" else (ev.a[2][0] if ev.kind == "expr" and op(ev.a) == "call" and callee_name(ev.a) in ("append", "add") and ev.a[2] else None)
        if not (op(x) == "call" and op(x[1]) == "cls" and x[1][1].endswith(".Record") and not x[2]):
            continue
        kw = dict(x[3])
        old = rec if rec is not None else lp.a
        if not any(y == old for v in kw.values() for y in subterms(v)):
            continue
        out = []
        for f in ("uri_prefix_synonyms", "uri_prefix"):
            if f in kw:
                out.append(Ev("store", ev.line, ("attr", old, f), kw[f]))
        if ob is not None:
            for f in ("prefix", "prefix_synonyms", "pattern"):
                v = kw.get(f)
                keeps = v == ("attr", old, f) or (op(v) == "call" and v[1] in (("builtin", "list"), ("builtin", "sorted")) and v[2] == (("attr", old, f),))
                if not keeps:
                    ob.violate(
                        fn.qualname,
                        where(fn, ev.line),
                        f"the upgraded record is built with Record(...) and `{f}` is {'not passed on' if v is None else 'set to `' + show(v)[:40] + '`'}: the record loses its {f} (a field that is left out falls back to its default)",
                        witness="a record with CURIE prefix synonyms comes out of remap_uri_prefixes without them",
                        detail=f"frame-dropped:{f}",
                    )
        if out:
            return old, out
    return None


def record_stores(path, lp, rec, ob=None, fn=None):
    stores = [ev for ev in path.events if ev.kind == "store" and op(ev.a) == "attr" and ev.a[1] == rec]
    if stores:
        return rec, stores
    cu = constructed_update(path, lp, rec, ob, fn)
    if cu is not None:
        return cu
    fu = functional_update(path, lp)
    return (lp.a, fu) if fu else (rec, [])


def helper_call(path, lp, rec, helper: str):
    for ev in path.events:
        for t in (ev.a, ev.b):
            if isinstance(t, tuple):
                for c in subterms(t):
                    if op(c) == "call" and callee_name(c) == helper:
                        return c
    return None


@obligation("C12-D1", "SETALG: on the update path of remap_uri_prefixes and rewire the record keeps every URI prefix it had, gains at most `new`, and `new` becomes canonical (and is not left among the synonyms)", floor=2)
def d1(cx: Cx, ob: Ob) -> None:
    for fname, helper in FUNCS.items():
        r = main_loop(cx, ob, fname)
        if r is None:
            continue
        fn, s, conv, lp = r
        n_update = 0
        for p in lp.body:
            rec = record_term(p, lp)
            rec, stores = record_stores(p, lp, rec, ob, fn)
            if not stores:
                continue
            n_update += 1
            new = helper_call(p, lp, rec, helper)
            if new is None:
                ob.undecide(f"{fname}: the new URI prefix does not come from {helper}")
                continue
            alg = SetAlg(rec, "uri_prefix", "uri_prefix_synonyms", {new: "new"}, summary=s)
            for ev in stores:
                if not alg.apply_store(ev.a, ev.b):
                    pass
            line = stores[0].line
            ob.site(f"{where(fn, line)} {fn.qualname}", f"update path: synonyms := {show(alg.heap['uri_prefix_synonyms'])[:70]}; canonical := {show(alg.heap['uri_prefix'])[:30]}")
            try:
                ct = alg.canonical_term()
                if ct != new and op(ct) == "call" and callee_name(ct) in set(FUNCS.values()) - {helper}:
                    # translated into the sibling remapping and delegated: the new value is what the sibling's
                    # helper answers for a derived mapping
                    ob.undecide(f"{fname} delegates to the sibling remapping (the new URI prefix is `{show(ct)[:50]}` of a derived mapping): that the translation addresses the same records is not decided")
                    continue
                if alg.canonical_term() != new:
                    ob.violate(fn.qualname, where(fn, line), f"{fname}: after the update the canonical URI prefix is `{show(alg.canonical_term())[:50]}`, not the mapped new one", detail="canonical")
                for val in alg.rows():
                    before, after = alg.before(val), alg.after(val)
                    if before and not after:
                        what = "the previous canonical URI prefix" if val["c0"] else "a URI-prefix synonym"
                        ob.violate(fn.qualname, where(fn, line), f"{fname}: the update loses {what} of the record (URIs written with it no longer compress)", witness=f"row: {alg.describe(val)}", detail="loss:" + ("canonical" if val["c0"] else "synonym"))
                    if after and not before and not val["new"]:
                        ob.violate(fn.qualname, where(fn, line), f"{fname}: the update invents a URI prefix that is neither old nor the mapped new one", witness=f"row: {alg.describe(val)}", detail="gain")
                    if val["new"] and alg.after_syn(val):
                        ob.violate(fn.qualname, where(fn, line), f"{fname}: the new canonical URI prefix is left among the record's own synonyms", witness=f"row: {alg.describe(val)}", detail="canonical-in-synonyms")
            except Undecided as e:
                ob.undecide(f"{fname}: {e}")
        if n_update == 0:
            elsewhere = [ev for ev, _ in s.walk() if ev.kind == "store" and op(ev.a) == "attr" and ev.a[2] in ("uri_prefix", "uri_prefix_synonyms")]
            if elsewhere:
                ob.undecide(f"{fname} updates records at line {elsewhere[0].line}, but not a copy of the record its main loop iterates (decisions and copies are made in separate passes): the set algebra of that form is not analysed")
            else:
                from ..rules import delegated_record_updates

                dl = delegated_record_updates(cx, fn, {"uri_prefix", "uri_prefix_synonyms"})
                if dl:
                    ob.undecide(f"{fname} leaves the update of the record to {dl[0].rsplit('.', 2)[-2] + '.' + dl[0].rsplit('.', 1)[-1] if dl[0].count('.') > 2 else dl[0]}: the set algebra of an update made by another function is not analysed")
                else:
                    ob.violate(fn.qualname, fn.where, f"{fname} has no path that updates a record", detail="no-update-path")


def _worlds():
    # N: no mapping; E: new == own canonical; O: new is an own synonym; XC / XS: another record's canonical / synonym; U: unused
    return ["N", "E", "O", "XC", "XS", "U"]


def _atom(c, new, rec, conv):
    """Truth of a guard atom in each world, or None if not recognised."""
    W = _worlds()
    if op(c) == "cmp":
        o, a, b = c[1], c[2], c[3]
        if a == new and is_const(b, None) and o in ("is", "==", "is not", "!="):
            t = {w: (w == "N") for w in W}
            return t if o in ("is", "==") else {w: not v for w, v in t.items()}
        if o in ("==", "!=") and {a, b} == {new, ("attr", rec, "uri_prefix")}:
            t = {w: (w == "E") for w in W}
            return t if o == "==" else {w: not v for w, v in t.items()}
        if o in ("in", "not in") and a == new:
            src = b
            truth = None
            if op(src) == "attr" and src[1] == conv and src[2] in ("reverse_prefix_map", "trie"):
                truth = {"E", "O", "XC", "XS"}
            elif op(src) == "call" and op(src[1]) == "attr" and src[1][1] == conv and src[1][2] == "get_uri_prefixes":
                kw = dict(src[3])
                truth = {"E", "O", "XC", "XS"} if is_const(kw.get("include_synonyms"), True) else {"E", "XC"}
            elif op(src) == "call" and op(src[1]) == "attr" and src[1][2] in ("values", "keys") and op(src[1][1]) == "attr" and src[1][1][1] == conv and src[1][1][2] in ("bimap", "reverse_bimap", "prefix_map"):
                truth = {"E", "XC"}
            elif op(src) == "comp" and any(x == ("attr", conv, "records") for x in subterms(src)):
                names = {x[2] for x in subterms(src[2]) if op(x) == "attr"}
                truth = {"E", "XC"} if names == {"uri_prefix"} else None
            elif op(src) == "attr" and src[1] == conv and src[2] in ("bimap", "prefix_map"):
                truth = None
            elif op(src) == "attr" and src[1] == rec and src[2] == "uri_prefix_synonyms":
                truth = {"O"}
            elif src == ("list", (("attr", rec, "uri_prefix"), ("star", ("attr", rec, "uri_prefix_synonyms")))):
                truth = {"E", "O"}
            if truth is None:
                return None
            t = {w: (w in truth) for w in W}
            return t if o == "in" else {w: not v for w, v in t.items()}
    if op(c) == "and":
        parts = [_atom(x, new, rec, conv) for x in c[1]]
        if any(p is None for p in parts):
            return None
        return {w: all(p[w] for p in parts) for w in W}
    if op(c) == "or":
        parts = [_atom(x, new, rec, conv) for x in c[1]]
        if any(p is None for p in parts):
            return None
        return {w: any(p[w] for p in parts) for w in W}
    if op(c) == "not":
        p = _atom(c[1], new, rec, conv)
        return None if p is None else {w: not v for w, v in p.items()}
    if c == new:  # truthiness of the new prefix
        return None
    return None


EXPECT = {"N": False, "O": True, "XC": False, "XS": False, "U": True}  # E: either (no-op)
WORLD_TEXT = {
    "N": "no mapping applies to the record",
    "E": "the new URI prefix is already the record's canonical URI prefix",
    "O": "the new URI prefix is already a URI-prefix synonym of the same record",
    "XC": "the new URI prefix is the canonical URI prefix of another record",
    "XS": "the new URI prefix is a URI-prefix synonym of another record",
    "U": "the new URI prefix is unused in the converter",
}


@obligation("C12-D2", "check-before-act (decision table): a record is re-pointed exactly when the new URI prefix is unused or already its own synonym; a prefix owned by another record (canonical OR synonym) leaves the record untouched", floor=2)
def d2(cx: Cx, ob: Ob) -> None:
    for fname, helper in FUNCS.items():
        r = main_loop(cx, ob, fname)
        if r is None:
            continue
        fn, s, conv, lp = r
        table = {}
        from ..rules import delegated_record_updates

        if not any(ev.kind == "store" and op(ev.a) == "attr" and ev.a[2] in ("uri_prefix", "uri_prefix_synonyms") for ev, _ in s.walk()):
            dl = delegated_record_updates(cx, fn, {"uri_prefix", "uri_prefix_synonyms"})
            if dl:
                ob.undecide(f"{fname} leaves the decision and the update to {dl[0].rsplit('.', 1)[-1]} (another function): its decision table is not analysed")
                continue
        for p in lp.body:
            rec = record_term(p, lp)
            new = helper_call(p, lp, rec, helper)
            if new is None:
                # a path that never computes the mapping: treat guards as unknown
                ob.undecide(f"{fname}: a loop path does not consult {helper}")
                continue
            updates = bool(record_stores(p, lp, rec)[1])
            sat = {w: True for w in _worlds()}
            for ev in p.events:
                if ev.kind != "guard":
                    continue
                a = _atom(ev.a, new, rec, conv)
                if a is None:
                    # the copy may be made before the helper call: retry with the loop variable as record
                    a = _atom(ev.a, new, lp.a, conv)
                if a is None:
                    ob.undecide(f"{fname}: guard `{show(ev.a)[:80]}` not recognised")
                    sat = None
                    break
                for w in sat:
                    sat[w] = sat[w] and (a[w] == ev.b)
            if sat is None:
                continue
            for w, okw in sat.items():
                if okw:
                    table.setdefault(w, []).append((updates, p))
        if not table:
            continue
        ob.site(f"{fn.where} {fn.qualname}", "decision table " + ", ".join(f"{w}:{'update' if any(u for u, _ in v) else 'skip'}" for w, v in sorted(table.items())))
        for w in _worlds():
            acts = table.get(w)
            if not acts:
                ob.undecide(f"{fname}: no loop path covers the case `{WORLD_TEXT[w]}`")
                continue
            if w == "E":
                continue
            got = {u for u, _ in acts}
            if got != {EXPECT[w]}:
                p = acts[0][1]
                gl = [g.line for g in p.events if g.kind == "guard"]
                ob.violate(
                    fn.qualname,
                    where(fn, gl[-1] if gl else fn.node.lineno),
                    f"{fname}: when {WORLD_TEXT[w]}, the record is {'updated' if True in got else 'left untouched'}; the property requires it to be {'updated (new becomes canonical)' if EXPECT[w] else 'left untouched'}",
                    witness="guards on that path: " + " -> ".join(("" if g.b else "not ") + show(g.a)[:70] for g in p.events if g.kind == "guard"),
                    detail=f"decision:{w}",
                )


@obligation("C12-D3", "remap_uri_prefixes raises TransitiveError iff some string is both a key and a value, before anything else", floor=1)
def d3(cx: Cx, ob: Ob) -> None:
    fn = cx.fn(f"{RECON}.remap_uri_prefixes", ob.id)
    s = cx.summary(fn, ob.id)
    m = ("param", fn.params[1].name)
    te = cx.model.class_by_short("TransitiveError")
    same = {"TransitiveError"} | ({te.name, *cx.model.__dict__.get("class_aliases", {}).get(te.qualname, ())} if te is not None else set())
    raises = [(t, ctx) for t, ctx in s.raises() if op(t) == "call" and callee_name(t) in same]
    others = [(t, ctx) for t, ctx in s.raises() if op(t) == "call" and callee_name(t) not in same and "Transitive" in str(callee_name(t))]
    if not raises and others:
        nm = callee_name(others[0][0])
        ob.violate(
            fn.qualname,
            where(fn, others[0][1].path.out[2]),
            f"remap_uri_prefixes raises `{nm}`, which is not the class published as TransitiveError (nor that class under another name): `except TransitiveError` no longer catches the error the property promises",
            witness="try: remap_uri_prefixes(c, {'a': 'b', 'b': 'c'}) except TransitiveError: ... is not entered",
            detail="raise-class",
        )
        return
    if not raises:
        ob.violate(fn.qualname, fn.where, "remap_uri_prefixes never raises TransitiveError", detail="no-raise")
        return
    for t, ctx in raises:
        line = ctx.path.out[2]
        ob.site(f"{where(fn, line)} {fn.qualname}", "raise TransitiveError")
        if ctx.loops:
            ob.violate(fn.qualname, where(fn, line), "TransitiveError is raised from inside the record loop, after records may have been modified", detail="late")
        gs = [g for g in ctx.guards if g.kind == "guard"]
        disj = len(gs) == 1 and gs[0].b is False and op(gs[0].a) == "call" and callee_name(gs[0].a) == "isdisjoint"
        if len(gs) != 1 or (gs[0].b is not True and not disj):
            ob.violate(fn.qualname, where(fn, line), "TransitiveError is not guarded by exactly the key/value intersection test", witness=describe_path(ctx), detail="guard")
            continue
        # a private copy of the argument (remapping = dict(remapping)) has the same keys and values
        from ..terms import substitute

        g = substitute(gs[0].a, {("call", ("builtin", "dict"), (m,), ()): m, ("call", ("builtin", "dict"), (("call", ("attr", m, "items"), (), ()),), ()): m})
        if disj:
            g = ("call", ("attr", g[1][1], "intersection"), g[2], g[3])
        ok = False
        keys = [("call", ("builtin", "set"), (m,), ()), m, ("call", ("attr", m, "keys"), (), ())]
        vals = [("call", ("attr", m, "values"), (), ()), ("call", ("builtin", "set"), (("call", ("attr", m, "values"), (), ()),), ())]
        if op(g) == "call" and op(g[1]) == "attr" and g[1][2] == "intersection" and g[1][1] in keys and g[2] and g[2][0] in vals:
            ok = True
        if op(g) == "call" and op(g[1]) == "attr" and g[1][2] == "intersection" and g[1][1] in vals and g[2] and g[2][0] in keys:
            ok = True
        if op(g) == "bin" and g[1] == "&" and ((g[2] in keys and g[3] in vals) or (g[2] in vals and g[3] in keys)):
            ok = True
        if not ok:
            # the same intersection spelled with comprehensions / str() views of the strings
            def kv(t, depth=0):
                """'K' / 'V' if ``t`` enumerates the keys / values of the mapping (as strings), else None."""
                if depth > 6:
                    return None
                if t == m or t == ("call", ("attr", m, "keys"), (), ()):
                    return "K"
                if t == ("call", ("attr", m, "values"), (), ()):
                    return "V"
                if op(t) == "new" and len(t) > 4:
                    return kv(t[4], depth + 1)
                if op(t) == "call" and t[1] in (("builtin", "set"), ("builtin", "frozenset"), ("builtin", "list"), ("builtin", "tuple"), ("builtin", "sorted"), ("builtin", "dict")) and len(t[2]) == 1:
                    return kv(t[2][0], depth + 1)
                if op(t) == "comp" and t[1] in ("set", "list", "gen") and len(t[3]) == 1 and not t[3][0][2]:
                    v_, src, _ = t[3][0]
                    if t[2] == v_ or t[2] == ("call", ("builtin", "str"), (v_,), ()):
                        return kv(src, depth + 1)
                return None

            sides = None
            if op(g) == "comp" and g[1] in ("set", "list", "gen") and len(g[3]) == 1 and len(g[3][0][2]) == 1:
                v_, src, (cond,) = g[3][0]
                probe = (v_, ("call", ("builtin", "str"), (v_,), ()))
                if g[2] in probe and op(cond) == "cmp" and cond[1] == "in" and cond[2] in probe:
                    sides = (kv(src), kv(cond[3]))
            elif op(g) == "call" and op(g[1]) == "attr" and g[1][2] == "intersection" and g[2]:
                sides = (kv(g[1][1]), kv(g[2][0]))
            elif op(g) == "bin" and g[1] == "&":
                sides = (kv(g[2]), kv(g[3]))
            if sides is not None and set(sides) == {"K", "V"}:
                ok = True
        if not ok:
            ob.violate(fn.qualname, where(fn, line), f"TransitiveError is raised on `{show(g)[:70]}`, not on keys(remapping) & values(remapping)", detail="condition")
        for ev in ctx.trail:
            if ev.kind in ("store", "loop"):
                ob.violate(fn.qualname, where(fn, ev.line), "work happens before the transitivity check", detail="order")
                break


@obligation("C12-D4", "frame: remap_uri_prefixes and rewire never store CURIE-side fields or the pattern; rewire builds its output only from the input's records", floor=2)
def d4(cx: Cx, ob: Ob) -> None:
    for fname in FUNCS:
        r = main_loop(cx, ob, fname)
        if r is None:
            continue
        fn, s, conv, lp = r
        ob.site(f"{fn.where} {fn.qualname}", "frame scan")
        # the mapping that is looked up is the caller's mapping: every pair of it (a filtered copy takes pairs away
        # that address a record - 'an unknown CURIE prefix adds nothing' is about prefixes NO record has)
        mp_ = ("param", fn.params[1].name)
        flagged_ = False
        for t_, ev_, _c in s.all_terms():
            if flagged_:
                break
            for c_ in subterms(t_):
                if op(c_) == "call" and callee_name(c_) in ("_get_curie_preferred_or_synonym", "_get_uri_preferred_or_synonym") and len(c_[2]) >= 2:
                    a2 = c_[2][1]
                    for x_ in subterms(a2):
                        if op(x_) == "comp" and x_[1] == "dict" and len(x_[3]) == 1 and x_[3][0][2] and x_[3][0][1] == ("call", ("attr", mp_, "items"), (), ()) and op(x_[3][0][0]) == "tuple" and len(x_[3][0][0][1]) == 2 and op(x_[2]) == "kv" and (x_[2][1], x_[2][2]) == tuple(x_[3][0][0][1]):
                            ob.violate(
                                fn.qualname,
                                where(fn, ev_.line),
                                f"{fname} looks records up in a FILTERED copy of its mapping (`{show(x_)[:60]}`): pairs that the filter drops are not applied although they address a record of the converter (prefixes need not be W3C names, well-formed URLs, ..)",
                                witness="a record whose prefix the filter rejects (e.g. '3dmet') and a mapping entry for it: the record keeps its old URI prefix",
                                detail="mapping-filtered",
                            )
                            flagged_ = True
                            break
        for ev, ctx in s.walk():
            if ev.kind == "store" and op(ev.a) == "attr" and ev.a[2] in (CURIE_SIDE | {"pattern"}):
                ob.violate(fn.qualname, where(fn, ev.line), f"{fname} stores `{show(ev.a)[:50]}`: CURIE prefixes and patterns must stay identical", detail=f"frame:{ev.a[2]}")
        # output = Converter(<list built only by appending the loop's record>)
        for t, ctx in s.returns():
            ctor = [x for x in subterms(t) if op(x) == "call" and op(x[1]) == "cls" and x[1][1].endswith(".Converter")]
            if not ctor:
                ob.undecide(f"{fname} does not return a Converter(...)")
                continue
            recs = ctor[0][2][0] if ctor[0][2] else dict(ctor[0][3]).get("records")
            # a test in front of the loop (a warning that is or is not issued) gives each of its arms a copy of the
            # loop: the copy on THIS return's way is the one its list is filled in
            lp0 = lp
            lp = next((e_ for e_ in ctx.path.events if e_.kind == "loop" and e_.line == lp0.line and e_.body), lp0)
            if op(recs) == "new":
                for ev, ectx in s.mutations_of(recs):
                    if ev.kind == "expr" and callee_name(ev.a) == "append":
                        arg = ev.a[2][0]
                        if not ectx.loops or not (ectx.loops[0].line == lp.line and ectx.loops[0].b == lp.b):
                            if op(arg) == "call" and op(arg[1]) == "cls" and arg[1][1].endswith(".Record"):
                                ob.violate(fn.qualname, where(fn, ev.line), f"{fname} adds a new Record for prefixes the converter does not know", detail="adds-record")
                            else:
                                ob.violate(fn.qualname, where(fn, ev.line), f"{fname} appends records outside the loop over the input's records", detail="adds-record")
                        elif not any(x == lp.a for x in subterms(arg)):
                            ob.violate(fn.qualname, where(fn, ev.line), f"{fname} appends `{show(arg)[:40]}`, not the record being processed", detail="append-arg")
                # every loop path appends exactly once
                for p in lp.body:
                    n = sum(1 for ev in p.events if ev.kind == "expr" and callee_name(ev.a) == "append" and op(ev.a[1]) == "attr" and ev.a[1][1] == recs)
                    if n != 1 and (p.out is None or p.out[0] == "continue"):
                        ob.violate(fn.qualname, where(fn, lp.line), f"{fname}: a path through the record loop appends the record {n} times: the output has a different number of records", witness=" -> ".join(("" if g.b else "not ") + show(g.a)[:50] for g in p.events if g.kind == "guard"), detail=f"append-count:{n}")
            lp = lp0


@obligation("C12-D5", "_get_curie_preferred_or_synonym / _get_uri_preferred_or_synonym consult the canonical value first, then each synonym, of their own side", floor=2)
def d5(cx: Cx, ob: Ob) -> None:
    for hname, canon, syn in (("_get_curie_preferred_or_synonym", "prefix", "prefix_synonyms"), ("_get_uri_preferred_or_synonym", "uri_prefix", "uri_prefix_synonyms")):
        fn = cx.fn(f"{RECON}.{hname}", ob.id)
        s = cx.summary(fn, ob.id)
        rec = ("param", fn.params[0].name)
        ups = ("param", fn.params[1].name)
        prov = Prov(s)
        order = []
        for t, ctx in s.returns():
            if is_const(t, None):
                continue
            key = None
            if op(t) == "call" and t[1] == ("builtin", "next") and len(t[2]) == 2 and is_const(t[2][1], None) and op(t[2][0]) == "comp" and len(t[2][0][3]) == 1:
                # next((upgrades[k] for k in [canonical, *synonyms] if k in upgrades), None): first hit in list order
                comp = t[2][0]
                tgt, it, ifs = comp[3][0]
                get_t = ("call", ("attr", ups, "get"), (tgt,), ())
                line_ = ctx.path.out[2]
                if comp[2] == get_t and not ifs:
                    ob.violate(
                        fn.qualname,
                        where(fn, line_),
                        f"{hname} takes `next(...)` of the looked-up values themselves (`{show(comp[2])[:40]}` for every name, no filter): next() stops at the FIRST name whether or not the mapping has it, so only the first of `{show(it)[:40]}` is ever consulted",
                        witness="a record with two synonyms and a mapping keyed by the second: the entry is ignored",
                        detail="first-only",
                    )
                    if op(it) == "attr" and it[1] == rec:
                        order.append(((line_, 0), it[2]))
                    continue
                if comp[2] in (("item", ups, tgt), get_t) and ifs == (("cmp", "in", tgt, ups),) and op(it) == "attr" and it[1] == rec:
                    order.append(((line_, 0), it[2]))
                    continue
                if comp[2] == ("item", ups, tgt) and ifs == (("cmp", "in", tgt, ups),) and op(it) in ("list", "tuple"):
                    pos = 0
                    for e in it[1]:
                        inner = e[1] if op(e) == "star" else e
                        if op(inner) == "attr" and inner[1] == rec:
                            order.append(((0, pos), inner[2]))
                        else:
                            order.append(((0, pos), f"?{show(inner)[:20]}"))
                        pos += 1
                    continue
            if op(t) == "item" and t[1] == ups:
                key = t[2]
            elif op(t) == "call" and callee_name(t) == "get" and op(t[1]) == "attr" and t[1][1] == ups and t[2]:
                key = t[2][0]
            if key is None:
                ob.undecide(f"{hname} returns `{show(t)[:50]}`")
                continue
            src = ctx.loops[-1].b if ctx.loops and ctx.loops[-1].a == key else None
            if op(src) == "new" and len(src) > 4:
                src = src[4]
            if op(src) in ("list", "tuple"):
                # one loop over a display [canonical, *synonyms]: the position in the display is the lookup order
                for pos, e in enumerate(src[1]):
                    inner = e[1] if op(e) == "star" else e
                    if op(inner) == "attr" and inner[1] == rec:
                        order.append(((ctx.path.out[2], pos), inner[2]))
                    else:
                        order.append(((ctx.path.out[2], pos), f"?{show(inner)[:20]}"))
            else:
                fs = prov.fields(key)
                for r_, f in fs:
                    order.append(((ctx.path.out[2], 0), f if r_ == rec else f"?{f}"))
            for g in ctx.guards:
                if g.kind != "guard":
                    continue
                a = g.a
                if op(a) == "cmp" and a[1] in ("in", "not in") and a[3] == ups:
                    continue
                if op(a) == "cmp" and a[1] in ("is", "is not") and is_const(a[3], None) and op(a[2]) == "call" and callee_name(a[2]) == "get" and a[2][1][1] == ups:
                    continue
                # m.get(k, SENTINEL) is (not) SENTINEL: membership, spelled with one access
                if op(a) == "cmp" and a[1] in ("is", "is not") and op(a[2]) == "call" and callee_name(a[2]) == "get" and a[2][1][1] == ups and len(a[2][2]) == 2 and a[2][2][1] == a[3] and op(a[3]) in ("gconst", "new", "lv", "name"):
                    continue
                if any(x == ups or x == rec for x in subterms(a)):
                    ob.violate(
                        fn.qualname,
                        where(fn, ctx.path.out[2]),
                        f"{hname} returns a mapped value only if additionally `{'' if g.b else 'not '}{show(a)[:70]}`: an applicable entry is passed over in favour of a later one",
                        witness="a mapping that names both the canonical value (already satisfied) and a synonym: the synonym's entry is applied and the record is re-pointed although the canonical entry says it should stay",
                        detail="extra-condition",
                    )
            # guarded by membership of the same key
            if op(t) == "item" and not any(g.kind == "guard" and g.b is True and g.a == ("cmp", "in", key, ups) for g in ctx.guards):
                ob.violate(fn.qualname, where(fn, ctx.path.out[2]), f"{hname} subscripts the mapping without testing membership of the same key", detail="unguarded")
        ob.site(f"{fn.where} {fn.qualname}", f"lookup order {[f for _, f in sorted(set(order))]}")
        fields = [f for _, f in sorted(set(order))]
        if canon not in fields:
            ob.violate(fn.qualname, fn.where, f"{hname} never consults the record's `{canon}`", detail=f"cover:{canon}")
        if syn not in fields:
            ob.violate(fn.qualname, fn.where, f"{hname} never consults the record's `{syn}`: mappings keyed by a synonym are ignored", detail=f"cover:{syn}")
        wrong = [f for f in fields if f not in (canon, syn)]
        if wrong:
            ob.violate(fn.qualname, fn.where, f"{hname} consults {wrong} (other side of the record)", detail="cross-side")
        if canon in fields and syn in fields and fields.index(canon) > fields.index(syn):
            ob.violate(fn.qualname, fn.where, f"{hname} consults synonyms before the canonical value", detail="order")


@obligation("C12-X7", "IDX (shared with C01/C02): the lookup tables consulted by the clash test `new_uri_prefix in converter.reverse_prefix_map` of remap_uri_prefixes and rewire hold every name of every record, unconditionally and completely, on the constructor path and in _index (converters built incrementally answer like freshly built ones)", floor=4)
def x7(cx: Cx, ob: Ob) -> None:
    from .c01 import check_table_roles

    check_table_roles(cx, ob, ["reverse_prefix_map", "trie"])


@obligation("C12-X8", "the Record model stores prefixes and URI prefixes verbatim: no pydantic string transformation (strip / case folding / length limits) in its model_config or field declarations", floor=1)
def x8(cx: Cx, ob: Ob) -> None:
    from ..rules import record_verbatim

    record_verbatim(cx, ob)


@obligation("C12-X6", "LOOKUP None-discipline (shared with C02-D3): lookup results and str|None results are tested with `is None`, never by truthiness - the empty prefix, the empty URI prefix and the empty identifier are legitimate values", floor=40)
def x6(cx: Cx, ob: Ob) -> None:
    from ..rules import scan_none_discipline
    from .c02 import none_scope

    scan_none_discipline(cx, ob, none_scope(cx))


@obligation("C12-X3", "no memoised derived values (cached_property / lru_cache) on Record, Reference or Converter objects: remap_uri_prefixes / rewire copy records with model_copy and read their URI prefixes afterwards", floor=3)
def x3(cx: Cx, ob: Ob) -> None:
    from ..rules import cached_derivations

    cached_derivations(cx, ob)


@obligation("C12-X12", "def-use lints over the files this property is anchored in (api.py, reconciliation.py): no one-shot iterator (generator expression, map, filter, zip, iter, reversed, enumerate, generator call) bound to a name is consumed twice or inside a loop that starts after its creation; no mutable default argument is mutated, stored or returned; no binary search over a sequence that is not kept sorted; no container resized inside the loop that iterates it; no Iterable parameter consumed twice before it is materialised; itertools.groupby only over input sorted by the grouping key", floor=1)
def x12(cx: Cx, ob: Ob) -> None:
    from ..rules import package_lints

    package_lints(cx, ob, {'api.py', 'reconciliation.py'})


@obligation("C12-X13", "records are copied and serialised whole: no model_dump(exclude_unset=True) / model_fields_set anywhere in the package (in-place merges do not update pydantic's fields_set)", floor=1)
def x13(cx: Cx, ob: Ob) -> None:
    from ..rules import no_fields_set_dependence

    no_fields_set_dependence(cx, ob)


@obligation("C12-D6", "ownership of a URI prefix is decided by exact lookup (reverse_prefix_map / the records' lists), never by longest-prefix matching: remap_uri_prefixes, rewire and their helpers do not consult parse_uri / compress / is_uri / the trie", floor=2)
def d6(cx: Cx, ob: Ob) -> None:
    from ..summ import KNOWN_FUNCTIONS

    todo = [f"{RECON}.remap_uri_prefixes", f"{RECON}.rewire"]
    seen = set()
    while todo:
        q = todo.pop()
        if q in seen or q not in cx.model.functions:
            continue
        seen.add(q)
        fn = cx.model.functions[q]
        s = cx.summary(fn, ob.id)
        ob.site(f"{fn.where} {fn.qualname}", "no prefix matching")
        for t, ev, ctx in s.all_terms():
            for c in subterms(t):
                if op(c) == "func" and c[1].startswith(RECON + ".") and c[1] not in KNOWN_FUNCTIONS:
                    todo.append(c[1])
                if op(c) == "call" and op(c[1]) == "attr" and (c[1][2] in ("parse_uri", "compress", "is_uri", "standardize_uri", "compress_strict") or (op(c[1][1]) == "attr" and c[1][1][2] == "trie")):
                    ob.violate(
                        fn.qualname,
                        where(fn, ev.line),
                        f"{fn.name} asks `{show(c)[:50]}` who owns a URI prefix: that is a LONGEST-PREFIX match, so a new URI prefix that merely extends another record's URI prefix counts as owned by that record and the mapping is silently skipped",
                        witness="records obo -> http://purl.obolibrary.org/obo/ and go; rewire {'go': 'http://purl.obolibrary.org/obo/GO_'} is skipped",
                        detail="prefix-match-as-ownership",
                    )


@obligation("C12-X1", "OWN (shared with C10): remap_uri_prefixes / rewire neither store into, mutate nor capture the Record objects of their input converter", floor=6)
def x1(cx: Cx, ob: Ob) -> None:
    from .c10 import check_no_aliasing

    check_no_aliasing(cx, ob)


@obligation("C12-X2", "state closure (shared with C05): derived converter state is written only by the constructor and _index - no function outside the class (remap_uri_prefixes, rewire) writes into a converter's lookup tables, so the clash test `new in converter.reverse_prefix_map` sees the same table on every call", floor=5)
def x2(cx: Cx, ob: Ob) -> None:
    from ..rules import state_closure

    state_closure(cx, ob)


@obligation("C12-D7", "the converter handed out is built AFTER the records got their new URI prefixes: a converter constructed first, whose records are then changed in place, is not returned as it is (its reverse_prefix_map / trie would still describe the old URI prefixes)", floor=2)
def d7(cx: Cx, ob: Ob) -> None:
    from ..rules import stale_tables

    stale_tables(cx, ob, [f"{RECON}.remap_uri_prefixes", f"{RECON}.rewire"])


@obligation("C12-D8", "tolerance of unknown names: the reconciliation functions look the names of the user's mapping up with the answering (None-returning) calls only - no `strict=True` / `*_strict` call outside a try that catches its error - since an unknown CURIE prefix / URI prefix in the mapping adds nothing, which an exception from a strict lookup turns into an aborted call", floor=1)
def d8(cx: Cx, ob: Ob) -> None:
    from ..rules import where as _where

    for name in ("rewire", "remap_uri_prefixes", "_get_curie_preferred_or_synonym", "_get_uri_preferred_or_synonym"):
        fn = cx.model.functions.get(f"{RECON}.{name}")
        if fn is None:
            continue
        s = cx.summary(fn, ob.id, full=True)
        ob.site(f"{fn.where} {fn.qualname}", "scanned for strict lookups")
        seen = set()
        for t, ev, _ in s.all_terms():
            for c in subterms(t):
                if op(c) != "call" or op(c[1]) != "attr":
                    continue
                nm = c[1][2]
                strict_call = nm.endswith("_strict") or (is_const(dict(c[3]).get("strict"), True) and nm in ("standardize_prefix", "standardize_curie", "standardize_uri", "compress", "expand", "parse_curie", "parse_uri", "parse", "expand_pair", "expand_all", "expand_pair_all", "compress_or_standardize", "expand_or_standardize"))
                if not strict_call or ev.cov or (ev.line, nm) in seen:
                    continue
                # only names that come STRAIGHT from the user's mapping: one taken from a local collection may have
                # been tested for membership when it was put there
                mp = {("param", q.name) for q in fn.params[1:]}
                direct = False
                for a_ in c[2][:1]:
                    if a_ in mp:
                        direct = True
                    for ev2, ctx2 in s.walk():
                        if ev2.kind == "loop" and any(y == a_ for y in subterms(ev2.a) if isinstance(ev2.a, tuple)) or (ev2.kind == "loop" and ev2.a == a_):
                            if any(y in mp for y in subterms(ev2.b)):
                                direct = True
                    for t2, _, _ in s.all_terms():
                        for x2 in subterms(t2):
                            if op(x2) == "comp" and any(c is y for y in subterms(x2[2])) or (op(x2) == "comp" and any(y == c for y in subterms(x2[2]))):
                                if any(any(y in mp for y in subterms(src)) for _, src, _ in x2[3]):
                                    direct = True
                if not direct:
                    continue
                seen.add((ev.line, nm))
                ob.violate(
                    fn.qualname,
                    _where(fn, ev.line),
                    f"{name} calls `{show(c)[:60]}` - the raising variant - on a name from the user's mapping, outside any try: for a name the converter does not know the whole call aborts with a standardisation / conversion error instead of leaving that entry out",
                    witness="a mapping with one unknown name next to applicable ones: PrefixStandardizationError, nothing is applied",
                    detail=f"strict-lookup:{nm}",
                )


@obligation("C12-X4", "'return a converter': remap_uri_prefixes and rewire hand the re-pointed records to the strict constructor, which must reject exactly the record sets in which a name is claimed by two records - both duplicate detectors compare by exact equality over all pairs of DIFFERENT records (shared with C04-D1/D2)", floor=4)
def x4(cx: Cx, ob: Ob) -> None:
    from .c04 import d1 as c04_order, d2 as c04_matrix

    c04_order(cx, ob)
    c04_matrix(cx, ob)
