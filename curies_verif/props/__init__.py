"""Per-property obligation modules; importing them fills report.REGISTRY."""

import importlib
import pkgutil

for _m in sorted(pkgutil.iter_modules(__path__), key=lambda m: m.name):
    importlib.import_module(f"{__name__}.{_m.name}")
