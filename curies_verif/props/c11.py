"""C11 - CURIE-prefix remapping renames records without losing information."""

from __future__ import annotations

from ..analyses.setalg import SetAlg, Undecided
from ..report import Cx, Ob, describe, obligation
from ..rules import CURIE_SIDE, URI_SIDE, where
from ..summ import describe_path
from ..terms import callee_name, is_const, op, show, subterms

describe(
    "C11",
    "other",
    "Symbolic set algebra (SETALG) over every path of the main loop of remap_curie_prefixes: the record's CURIE names after the update "
    "contain its names before, except possibly `old` when a guard that consults the converter justifies handing it over (D1/D2); `new` "
    "is canonical afterwards; URI fields and pattern are never stored (frame); every popped record is appended to the output and the "
    "output is the untouched remainder plus the modified records (pairing); skip and clash paths store nothing; "
    "D6: _order_curie_remapping raises its four documented errors and returns the layer-by-layer peeling of the remapping graph as accumulated.",
    ["CPython ast", "set.union/difference semantics", "the validator invariant canonical not in synonyms (C04)"],
    [],
    ["the exact conditions of _order_curie_remapping's three validations (duplicate keys/values, inconsistency): value-level reasoning over the counters"],
)

RECON = "curies.reconciliation"
KNOWLEDGE = {"synonym_to_prefix", "prefix_map", "standardize_prefix", "get_record", "get_prefixes", "records"}


def setup(cx: Cx, ob: Ob):
    fn = cx.fn(f"{RECON}.remap_curie_prefixes", ob.id)
    s = cx.summary(fn, ob.id)
    loops = [ev for ev, ctx in s.walk() if ev.kind == "loop" and not ctx.loops]
    main = None
    for lp in loops:
        if op(lp.a) == "tuple" and len(lp.a[1]) == 2 and any(p.events and any(e.kind == "store" for e in p.events) for p in lp.body):
            main = lp
    if main is None:
        for lp in loops:
            if op(lp.a) == "tuple" and len(lp.a[1]) == 2:
                main = lp
    if main is None:
        ob.undecide("main loop over (old, new) pairs not found in remap_curie_prefixes")
        return None
    return fn, s, main


def popped_record(p):
    """The record taken out of the working dictionary on this path (term, binding event)."""
    for ev in p.events:
        if ev.kind == "bind" and op(ev.b) == "call" and callee_name(ev.b) == "pop":
            return ev.b, ev
    for ev in p.events:
        if ev.kind == "store" and op(ev.a) == "attr" and ev.a[2] in CURIE_SIDE:
            for e2 in p.events:
                if e2.kind == "bind" and e2.b == ev.a[1]:
                    return e2.b, e2
    return None, None


def _consults_owner_of(t, new, conv) -> bool:
    """``t`` asks (the converter or a structure derived from it) who owns the prefix ``new``."""
    for x in subterms(t):
        if op(x) == "call" and x[2][:1] == (new,) and callee_name(x) in ("get_record", "get", "standardize_prefix"):
            return True
        if op(x) == "cmp" and x[1] in ("in", "not in") and x[2] == new:
            return True
        if op(x) == "item" and x[2] == new:
            return True
    return False


def _all_names_call(t) -> bool:
    """converter.get_prefixes(include_synonyms=True): every CURIE-side name the converter knows."""
    return op(t) == "call" and callee_name(t) == "get_prefixes" and (is_const(dict(t[3]).get("include_synonyms"), True) or (bool(t[2]) and is_const(t[2][0], True)))


def _canonical_names_call(t) -> bool:
    return op(t) == "call" and callee_name(t) == "get_prefixes" and not _all_names_call(t)


def mentions_converter_knowledge(t, conv_terms, s=None) -> bool:
    if s is not None:
        # a list the function filled under a test of the converter's knowledge (a pre-filter of the pairs)
        for x in subterms(t):
            if op(x) == "new" and x[1] == "list":
                for ev, ctx in s.mutations_of(x):
                    if ev.kind == "expr" and callee_name(ev.a) in ("append", "extend", "add") and any(g.kind == "guard" and g.b is True and mentions_converter_knowledge(g.a, conv_terms) for g in ctx.guards):
                        return True
    for x in subterms(t):
        if op(x) == "attr" and x[2] in KNOWLEDGE and x[1] in conv_terms:
            return True
        if op(x) == "call" and op(x[1]) == "attr" and x[1][2] in KNOWLEDGE and x[1][1] in conv_terms:
            return True
    return False


@obligation("C11-D1", "SETALG: on every update path the record's CURIE names afterwards contain its names before (except possibly `old`), `new` is canonical and not among the synonyms", floor=1)
def d1(cx: Cx, ob: Ob) -> None:
    run_setalg(cx, ob, want="loss")


@obligation("C11-D2", "justified hand-over: a path that drops `old` is guarded by a test that consults the converter's knowledge (a guard computed from the remapping alone cannot know whether the pair that re-homes `old` applies)", floor=1)
def d2(cx: Cx, ob: Ob) -> None:
    run_setalg(cx, ob, want="handover")


def run_setalg(cx: Cx, ob: Ob, want: str) -> None:
    r = setup(cx, ob)
    if r is None:
        return
    fn, s, lp = r
    old, new = lp.a[1]
    conv_terms = {("param", fn.params[0].name)}
    # a working converter built from copies counts as converter knowledge too
    for ev, _ in s.walk():
        if ev.kind == "bind" and op(ev.b) == "call" and op(ev.b[1]) == "cls" and ev.b[1][1].endswith(".Converter"):
            conv_terms.add(ev.b)
    n = 0
    for p in lp.body:
        rec, _ = popped_record(p)
        if rec is None:
            continue
        stores = [ev for ev in p.events if ev.kind == "store" and op(ev.a) == "attr" and ev.a[1] == rec]
        if not stores:
            continue
        n += 1
        alg = SetAlg(rec, "prefix", "prefix_synonyms", {old: "old", new: "new"}, summary=s)
        for ev in stores:
            alg.apply_store(ev.a, ev.b)
        line = stores[0].line
        guards = [g for g in p.events if g.kind == "guard"]
        gtxt = " -> ".join(("" if g.b else "not ") + show(g.a)[:60] for g in guards[-2:])
        ob.site(f"{where(fn, line)} {fn.qualname}", f"update path [{gtxt}]: synonyms := {show(alg.heap['prefix_synonyms'])[:60]}")
        try:
            loses_old = False
            for val in alg.rows():
                before, after = alg.before(val), alg.after(val)
                if want == "loss":
                    if before and not after and not val["old"]:
                        what = "the previous canonical prefix" if val["c0"] else "a prefix synonym"
                        ob.violate(
                            fn.qualname,
                            where(fn, line),
                            f"remap_curie_prefixes: this path loses {what} of the record (CURIEs written with it no longer expand)",
                            witness=f"row: {alg.describe(val)}; path: {gtxt}",
                            detail="loss:" + ("canonical" if val["c0"] else "synonym") + f"@{'transitive' if any('intersection' in show(g.a) or 'handed' in show(g.a) for g in guards if g.b) else 'plain'}",
                        )
                    if after and not before and not val["new"]:
                        ob.violate(fn.qualname, where(fn, line), "remap_curie_prefixes: the update invents a CURIE prefix", witness=f"row: {alg.describe(val)}", detail="gain")
                    if val["new"] and alg.after_syn(val):
                        ob.violate(fn.qualname, where(fn, line), "remap_curie_prefixes: the new canonical prefix is left among the record's own synonyms", witness=f"row: {alg.describe(val)}", detail="canonical-in-synonyms")
                if before and not after and val["old"] and not val["new"]:
                    loses_old = True
            if want == "loss" and alg.canonical_term() != new:
                ob.violate(fn.qualname, where(fn, line), f"remap_curie_prefixes: after the update the canonical prefix is `{show(alg.canonical_term())[:40]}`, not `new`", detail="canonical")
            if want == "handover" and loses_old:
                branch = [g for g in guards if g.b is True and any(x == old for x in subterms(g.a))]
                just = [g for g in branch if mentions_converter_knowledge(g.a, conv_terms, s) and not (op(g.a) == "cmp" and is_const(g.a[3], None))]
                if not just:
                    ob.violate(
                        fn.qualname,
                        where(fn, line),
                        "remap_curie_prefixes drops `old` from the record on a path whose guard is computed from the remapping alone: when the pair that should re-home `old` is not applicable (its own old prefix is unknown) the name is lost",
                        witness="e.g. remapping {a: b, b: c} on a converter that knows only b forgets b; guard: " + (show(branch[-1].a)[:80] if branch else "(none)"),
                        detail="unjustified-handover",
                    )
        except Undecided as e:
            ob.undecide(f"remap_curie_prefixes: {e}")
    if n == 0:
        elsewhere = [ev for ev, _ in s.walk() if ev.kind == "store" and op(ev.a) == "attr" and ev.a[2] in ("prefix", "prefix_synonyms")]
        if elsewhere:
            # records ARE renamed, but not in the loop over the ordered pairs (decide first, apply afterwards)
            ob.undecide(f"remap_curie_prefixes renames records at line {elsewhere[0].line}, outside the loop over the ordered pairs (a plan is applied afterwards): the set algebra of a two-phase update is not analysed")
        else:
            ob.violate(fn.qualname, fn.where, "remap_curie_prefixes has no path that renames a record", detail="no-update-path")


@obligation("C11-D3", "frame: remap_curie_prefixes never stores uri_prefix / uri_prefix_synonyms / pattern", floor=1)
def d3(cx: Cx, ob: Ob) -> None:
    fn = cx.fn(f"{RECON}.remap_curie_prefixes", ob.id)
    s = cx.summary(fn, ob.id)
    ob.site(f"{fn.where} {fn.qualname}", "frame scan")
    for ev, ctx in s.walk():
        if ev.kind == "store" and op(ev.a) == "attr" and ev.a[2] in (URI_SIDE | {"pattern"}):
            ob.violate(fn.qualname, where(fn, ev.line), f"remap_curie_prefixes stores `{show(ev.a)[-40:]}`: URI prefixes must stay exactly as they were", detail=f"frame:{ev.a[2]}")
        if ev.kind == "expr" and op(ev.a) == "call" and op(ev.a[1]) == "attr" and op(ev.a[1][1]) == "attr" and ev.a[1][1][2] in URI_SIDE and callee_name(ev.a) in ("append", "remove", "clear", "pop", "extend", "sort"):
            ob.violate(fn.qualname, where(fn, ev.line), f"remap_curie_prefixes mutates `{ev.a[1][1][2]}` in place", detail=f"frame-mutate:{ev.a[1][1][2]}")


@obligation("C11-D4", "pairing: every path from records.pop(...) to the end of the iteration appends that record to the output; the result is the untouched remainder plus the modified records", floor=2)
def d4(cx: Cx, ob: Ob) -> None:
    r = setup(cx, ob)
    if r is None:
        return
    fn, s, lp = r
    out_list = None
    for p in lp.body:
        rec, bev = popped_record(p)
        if rec is None:
            continue
        if callee_name(rec) != "pop":
            continue
        if p.out is not None and p.out[0] == "raise":
            continue  # the whole call fails: there is no result for the record to be missing from
        appended = [ev for ev in p.events if ev.kind == "expr" and op(ev.a) == "call" and callee_name(ev.a) == "append" and ev.a[2][:1] == (rec,) and ev.line >= bev.line]
        ob.site(f"{where(fn, bev.line)} {fn.qualname}", "pop -> append on path [" + " -> ".join(("" if g.b else "not ") + show(g.a)[:40] for g in p.events if g.kind == "guard")[-90:] + "]")
        if not appended:
            ob.violate(
                fn.qualname,
                where(fn, bev.line),
                "a record popped from the working dictionary is not appended to the output on some path: the result has fewer records",
                witness=" -> ".join(("" if g.b else "not ") + show(g.a)[:60] for g in p.events if g.kind == "guard"),
                detail="dropped-record",
            )
        else:
            out_list = appended[0].a[1][1]
    rets = s.returns()
    for t, ctx in rets:
        ctor = [x for x in subterms(t) if op(x) == "call" and op(x[1]) == "cls" and x[1][1].endswith(".Converter")]
        if not ctor:
            ob.undecide("remap_curie_prefixes does not return Converter(...)")
            continue
        recs = ctor[0][2][0] if ctor[0][2] else dict(ctor[0][3]).get("records")
        ob.site(f"{where(fn, ctx.path.out[2])} {fn.qualname}", f"return Converter({show(recs)[:60]})")
        parts = recs[1] if op(recs) in ("list", "tuple") else None
        if parts is None and op(recs) == "bin" and recs[1] == "+":
            flat = []
            stack = [recs]
            while stack:
                x = stack.pop()
                if op(x) == "bin" and x[1] == "+":
                    stack.extend([x[3], x[2]])
                elif op(x) == "call" and op(x[1]) == "builtin" and x[1][1] in ("list", "tuple") and len(x[2]) == 1:
                    flat.append(("star", x[2][0]))
                elif op(x) in ("list", "tuple"):
                    flat.extend(x[1])
                else:
                    flat.append(("star", x))
            parts = tuple(flat)
        if parts is None:
            ob.undecide(f"result record list `{show(recs)[:60]}` not recognised")
            continue
        has_rest = any(op(x) == "star" and callee_name(x[1]) == "values" for x in parts)
        has_mod = out_list is not None and any(op(x) == "star" and x[1] == out_list for x in parts)
        if not has_rest:
            ob.violate(fn.qualname, where(fn, ctx.path.out[2]), "the result omits the records that were not remapped", detail="no-remainder")
        if not has_mod:
            ob.violate(fn.qualname, where(fn, ctx.path.out[2]), "the result omits the modified records", detail="no-modified")


@obligation("C11-D5", "skip paths (unknown old prefix; new prefix owned by another record) make no store", floor=2)
def d5(cx: Cx, ob: Ob) -> None:
    r = setup(cx, ob)
    if r is None:
        return
    fn, s, lp = r
    old, new = lp.a[1]
    conv = ("param", fn.params[0].name)
    from ..rules import truth_table

    # an exit in front of the loop ("nothing applies to this converter") is a skip of EVERY pair at once: it may
    # only be taken on what the converter knows about ALL its names - bimap / get_prefixes() hold the canonical
    # prefixes only, and a pair whose old prefix is a synonym would be ignored
    for p_ in s.paths:
        if any(e.kind in ("loop", "while") for e in p_.events) or p_.out is None or p_.out[0] != "return":
            continue
        for g in p_.events:
            if g.kind != "guard":
                continue
            subs = list(subterms(g.a))
            full = any((op(x) == "attr" and x[1] == conv and x[2] in ("synonym_to_prefix", "prefix_map")) or (op(x) == "call" and op(x[1]) == "attr" and x[1][1] == conv and (x[1][2] in ("standardize_prefix", "get_record") or (x[1][2] == "get_prefixes" and is_const(dict(x[3]).get("include_synonyms"), True)))) for x in subs)
            reads = {x[2] for x in subs if op(x) == "attr" and x[2] in CURIE_SIDE}
            via_records = any(x == ("attr", conv, "records") for x in subs) and reads == {"prefix"}
            for x in subs:
                canon_only = (op(x) == "attr" and x[1] == conv and x[2] in ("bimap", "pattern_map")) or (op(x) == "call" and op(x[1]) == "attr" and x[1][1] == conv and x[1][2] == "get_prefixes" and not is_const(dict(x[3]).get("include_synonyms"), True)) or (via_records and x == ("attr", conv, "records"))
                if canon_only and not full:
                    ob.violate(
                        fn.qualname,
                        where(fn, g.line),
                        f"remap_curie_prefixes returns early on a test of `{show(x)[:40]}`, which holds the canonical prefixes only: a remapping whose old prefixes are known as SYNONYMS is ignored altogether",
                        witness="remap({'GO': 'go'}) makes 'GO' a synonym; then remap({'GO': 'obo.go'}) is silently dropped",
                        detail="early-exit-canonical-only",
                    )

    # a pair that cannot be applied is SKIPPED: the application loop raises nothing of its own (the remapping is
    # accepted or rejected as a whole by _order_curie_remapping, before a record is touched)
    def _raises(paths):
        for p_ in paths:
            if p_.out is not None and p_.out[0] == "raise" and not (len(p_.out) > 3 and p_.out[3]):
                yield p_
            for ev in p_.events:
                if ev.body:
                    yield from _raises(ev.body)

    for p_ in _raises(lp.body):
        cls_ = p_.out[1][1][1].rsplit(".", 1)[-1] if op(p_.out[1]) == "call" and op(p_.out[1][1]) == "cls" else show(p_.out[1])[:30]
        if cls_ in ("DuplicateKeys", "DuplicateValues", "InconsistentMapping", "CycleDetected"):
            # a documented rejection, late: right if the remapping really has that defect (one the ordering step
            # cannot see), wrong if it turns a pair that is to be skipped into an error - a question about values
            ob.undecide(f"the application loop rejects the remapping with {cls_} (line {p_.out[2]}): whether every remapping that gets there has that defect is not decided")
            continue
        ob.violate(
            fn.qualname,
            where(fn, p_.out[2]),
            f"the loop that applies the ordered pairs raises {cls_}: a pair that cannot be applied (unknown old prefix, new prefix owned by another record) is to be skipped, and a remapping that passed _order_curie_remapping is not rejected half-way",
            witness="a chain whose earlier link is blocked by a third record: the later link finds the blocker among the records already visited",
            detail=f"raise-in-apply-loop:{cls_}",
        )

    # a pair whose old prefix the converter does not know (the exact lookup of `old` found nothing) is skipped: a
    # path that has seen that lookup fail and still renames a record applies the pair to a record found some other way
    def _unknown_old(g) -> bool:
        a_, pol = g.a, g.b
        if op(a_) == "cmp" and a_[1] in ("is", "is not") and is_const(a_[3], None):
            x = a_[2]
            miss = (a_[1] == "is") == bool(pol)
            if miss and op(x) == "call" and x[2][:1] == (old,) and callee_name(x) in ("get", "standardize_prefix", "get_record") and not any(k in ("passthrough",) for k, _ in x[3]):
                return True
        if op(a_) == "cmp" and a_[1] in ("in", "not in") and a_[2] == old and op(a_[3]) == "attr" and a_[3][2] in ("synonym_to_prefix", "prefix_map"):
            return (a_[1] == "not in") == bool(pol)
        return False

    for p_ in lp.body:
        gs_ = [g for g in p_.events if g.kind == "guard"]
        if any(_unknown_old(g) for g in gs_):
            st_ = [e for e in p_.events if e.kind == "store" and op(e.a) == "attr" and e.a[2] in ("prefix", "prefix_synonyms")]
            if st_:
                ob.violate(
                    fn.qualname,
                    where(fn, st_[0].line),
                    f"remap_curie_prefixes renames a record (line {st_[0].line}) on a path on which the lookup of the old prefix has found NOTHING (`{show(next(g.a for g in gs_ if _unknown_old(g)))[:60]}`): a pair whose old prefix is unknown is to be skipped, here it is applied to a record found another way (case-folded, partial ...)",
                    witness="{'CHEBI': 'x'} on a converter that knows only 'chebi': the record is renamed although 'CHEBI' is not one of its names",
                    detail="updates-unknown-old",
                )
                break

    def _record_stores(paths):
        for p_ in paths:
            for ev in p_.events:
                if ev.kind == "store" and op(ev.a) == "attr" and ev.a[2] in ("prefix", "prefix_synonyms"):
                    yield ev
                if ev.body:
                    yield from _record_stores(ev.body)

    if not list(_record_stores(lp.body)):
        elsewhere = [ev for ev, _ in s.walk() if ev.kind == "store" and op(ev.a) == "attr" and ev.a[2] in ("prefix", "prefix_synonyms")]
        if elsewhere:
            ob.undecide(f"remap_curie_prefixes renames records at line {elsewhere[0].line}, outside the loop over the ordered pairs (a plan is applied afterwards): which pairs reach the update is not analysed")
            return

    def lookup_of_new(x) -> bool:
        return (op(x) == "call" and x[2][:1] == (new,) and callee_name(x) in ("get_record", "get", "standardize_prefix")) or (op(x) == "item" and x[2] == new)

    recs = {popped_record(p)[0] for p in lp.body} - {None}

    def classify(a):
        """(role, sense): role U (old unknown), N (new has an owner), S (that owner is the record itself); sense = polarity of the atom that means yes."""
        if op(a) == "cmp" and a[1] in ("is", "==") and (is_const(a[3], None) or is_const(a[2], None)):
            x = a[2] if is_const(a[3], None) else a[3]
            if lookup_of_new(x):
                return ("N", False)
            if any(y == old for y in subterms(x)):
                return ("U", True)
        if op(a) == "cmp" and a[1] == "in" and a[2] == old and ((op(a[3]) == "attr" and a[3][2] in ("synonym_to_prefix", "prefix_map")) or _all_names_call(a[3])):
            return ("U", False)
        if op(a) == "cmp" and a[1] in ("==", "is") and ((a[2] in recs and lookup_of_new(a[3])) or (a[3] in recs and lookup_of_new(a[2]))):
            return ("S", True)
        if op(a) == "cmp" and a[1] == "==":
            # the owner's canonical prefix compared with the canonical prefix of old's record (canonical prefixes are unique)
            for x, y in ((a[2], a[3]), (a[3], a[2])):
                if op(x) == "attr" and x[2] == "prefix" and lookup_of_new(x[1]):
                    canon_old = (op(y) == "call" and callee_name(y) in ("get", "standardize_prefix", "__getitem__") and y[2][:1] == (old,)) or (op(y) == "item" and y[2] == old) or (op(y) == "attr" and y[2] == "prefix" and y[1] in recs)
                    if canon_old:
                        return ("S", True)
                    if y == old:
                        return ("S-raw", True)
        if op(a) == "cmp" and a[1] in ("==", "in") and a[2] == new and any(y in recs for y in subterms(a[3])):
            return ("S", True)  # `new` is one of the record's own names
        if op(a) == "cmp" and a[1] == "==" and a[3] == new and any(y in recs for y in subterms(a[2])):
            return ("S", True)
        if op(a) == "cmp" and a[1] == "in" and a[2] == new:
            return ("N", True)
        if lookup_of_new(a):
            return ("N", True)
        if any(lookup_of_new(y) for y in subterms(a)):
            return ("?", True)
        return (None, True)

    atoms, rows = truth_table(lp.body)
    if rows is None:
        ob.undecide("remap_curie_prefixes: too many distinct tests in the main loop")
        return
    roles = {a: classify(a) for a in atoms}
    for a, (r, _) in list(roles.items()):
        if r == "S-raw":
            ob.violate(
                fn.qualname,
                fn.where,
                f"the clash test compares the owner's canonical prefix with the raw key `old` (`{show(a)[:60]}`): when `old` is a synonym the record is never recognised as the owner of its own names, and remapping one synonym onto another synonym of the same record is skipped as a clash",
                witness="record a with synonyms x, y and remapping {'x': 'y'}: the record keeps the name a",
                detail="clash-own-synonym",
            )
            roles[a] = ("S", True)
    if any(r == "?" for r, _ in roles.values()):
        ob.undecide("remap_curie_prefixes tests the owner of the new prefix in an unrecognised way: " + "; ".join(show(a)[:60] for a, (r, _) in roles.items() if r == "?"))
    seen_unknown = any(r == "U" for r, _ in roles.values())
    # the unknown-old filter may have been hoisted: the main loop runs over a list that an earlier loop filled
    # with exactly the pairs whose old prefix the converter knows
    src = lp.b
    if not seen_unknown and op(src) == "new" and src[1] == "list":
        for ev, ctx in s.mutations_of(src):
            if ev.kind != "expr" or callee_name(ev.a) != "append" or not ctx.loops:
                continue
            pre = ctx.loops[-1]
            if op(pre.a) != "tuple" or len(pre.a[1]) != 2:
                continue
            pold = pre.a[1][0]
            for g in ctx.guards:
                if g.kind != "guard" or not (op(g.a) == "cmp" and g.a[1] == "in" and g.a[2] == pold):
                    continue
                if g.b is True and ((op(g.a[3]) == "attr" and g.a[3][2] in ("synonym_to_prefix", "prefix_map")) or _all_names_call(g.a[3])):
                    seen_unknown = True
                    ob.site(f"{where(fn, g.line)} {fn.qualname}", "unknown-old filter hoisted into a pre-pass")
                elif g.b is True and _canonical_names_call(g.a[3]):
                    seen_unknown = True
                    ob.violate(
                        fn.qualname,
                        where(fn, g.line),
                        "the pairs are pre-filtered by `old in converter.get_prefixes()`, i.e. by CANONICAL prefixes only: a pair keyed by a synonym is treated as unknown and silently skipped",
                        witness="record a with synonym x, remapping {'x': 'new'}: nothing is renamed",
                        detail="unknown-test-canonical-only",
                    )
    for a in atoms:
        if op(a) == "cmp" and a[1] == "in" and a[2] == old and _canonical_names_call(a[3]):
            seen_unknown = True
            ob.violate(
                fn.qualname,
                fn.where,
                "the old prefix is looked up with `old in converter.get_prefixes()`, i.e. among CANONICAL prefixes only: a pair keyed by a synonym is treated as unknown and silently skipped",
                witness="record a with synonym x, remapping {'x': 'new'}: nothing is renamed",
                detail="unknown-test-canonical-only",
            )
    # the same question asked in a comprehension over the remapping's pairs (the set of prefixes an applicable pair
    # hands over to another record, a pre-computed list of applicable pairs ..)
    flagged = set()
    for t, ev_, _ctx in s.all_terms():
        for c in subterms(t):
            if op(c) != "comp" or c in flagged:
                continue
            for tgt, it, conds in c[3]:
                if not (op(tgt) == "tuple" and len(tgt[1]) == 2 and op(it) == "call" and callee_name(it) == "items"):
                    continue
                for cond in conds:
                    for a in subterms(cond):
                        if op(a) == "cmp" and a[1] in ("in", "not in") and a[2] == tgt[1][0] and _canonical_names_call(a[3]):
                            flagged.add(c)
                            ob.violate(
                                fn.qualname,
                                where(fn, ev_.line) if ev_ is not None else fn.where,
                                f"`{show(c)[:90]}` asks whether the old prefix of a pair is known with `in converter.get_prefixes()`, i.e. among CANONICAL prefixes only: a pair keyed by a synonym counts as not applicable here, while the loop over the ordered pairs applies it - the prefix it hands over is not recognised as handed over",
                                witness="records a (synonym x) and b; remapping {'x': 'b', 'b': 'c'}: 'b' is handed from record b to record a, which this set misses",
                                detail="unknown-test-canonical-only:comprehension",
                            )
    seen_clash = any(r == "N" for r, _ in roles.values())
    has_self = any(r == "S" for r, _ in roles.values())
    reported = set()
    for asg, hit in rows:
        def verdict(role):
            vs = {asg[a] == sense for a, (r, sense) in roles.items() if r == role}
            return None if len(vs) != 1 else next(iter(vs))

        if any(len({asg[a] == sense for a, (r, sense) in roles.items() if r == role}) > 1 for role in "UNS"):
            continue  # two tests of the same fact disagree: not a reachable state
        unknown, owned, own = verdict("U"), verdict("N"), verdict("S")
        for p in hit:
            stores = [ev for ev in p.events if ev.kind == "store"]
            glines = [g.line for g in p.events if g.kind == "guard"]
            line = glines[-1] if glines else fn.node.lineno
            if unknown:
                kind = "unknown-old"
            elif owned and own is False:
                kind = "clash"
            elif owned and own is None and not has_self:
                kind = "clash"
            else:
                kind = None
            if kind is not None:
                if (id(p), kind) not in reported:
                    reported.add((id(p), kind))
                    ob.site(f"{where(fn, line)} {fn.qualname}", f"skip path ({kind})")
                    for ev in stores:
                        ob.violate(fn.qualname, where(fn, ev.line), f"a record is modified on the {kind} path, which must leave everything untouched", detail="store-on-skip")
            elif owned and own is True and not stores and unknown is not True and (id(p), "own") not in reported and any(
                g.kind == "guard" and g.b is True and op(g.a) == "cmp" and g.a[1] == "==" and new in (g.a[2], g.a[3])
                and any(op(y) in ("item", "call") and any(op(z) == "attr" and z[2] == "synonym_to_prefix" for z in subterms(y)) or (op(y) == "call" and callee_name(y) == "standardize_prefix") or (op(y) == "attr" and y[2] == "prefix") for y in ((g.a[3] if g.a[2] == new else g.a[2]),))
                for g in p.events
            ):
                # the new prefix IS the canonical prefix of the record `old` stands for: the pair is already satisfied
                reported.add((id(p), "own"))
                ob.site(f"{where(fn, line)} {fn.qualname}", "skip path (already satisfied: the new prefix is the record's canonical prefix)")
            elif owned and own is True and not stores and unknown is not True and (id(p), "own") not in reported:
                reported.add((id(p), "own"))
                ob.violate(fn.qualname, where(fn, line), "the clash test does not exempt the record's own names: remapping onto an existing synonym of the same record is skipped", detail="clash-own-synonym")
    if seen_clash and not has_self:
        ob.violate(fn.qualname, fn.where, "the clash test does not exempt the record's own names: remapping onto an existing synonym of the same record is skipped", detail="clash-own-synonym")
    # a clash test must consult the converter, not the working dictionary records are popped from
    popped = set()
    for p in lp.body:
        for ev in p.events:
            if ev.kind == "bind" and op(ev.b) == "call" and callee_name(ev.b) == "pop" and op(ev.b[1]) == "attr":
                popped.add(ev.b[1][1])
    for p in lp.body:
        for g in p.events:
            if g.kind != "guard" or not any(x == new for x in subterms(g.a)):
                continue
            for x in subterms(g.a):
                if op(x) == "call" and op(x[1]) == "attr" and x[1][1] in popped and callee_name(x) in ("get", "__getitem__", "pop") and callee_name(x) != "pop" or (op(x) == "item" and x[1] in popped) or (op(x) == "cmp" and x[1] in ("in", "not in") and x[3] in popped):
                    ob.violate(
                        fn.qualname,
                        where(fn, g.line),
                        "the clash test looks the new prefix up in the working dictionary from which already-processed records have been removed: a record that was popped (e.g. because its own pair was skipped) still owns its name but is no longer seen",
                        witness="records a, b, c with remapping {'c': 'a', 'b': 'c'}: c->a is skipped (clash with a), then b->c finds no owner of c in the working dictionary and two records claim 'c'",
                        detail="stale-clash-lookup",
                    )
                    break
    # tests decided by calling an element of a table of rules (or any computed callable) cannot be classified
    from ..rules import table_of_code

    opaque = table_of_code(cx, lp.body) if (not seen_unknown or not seen_clash) else None
    if opaque:
        ob.undecide(f"remap_curie_prefixes decides what to skip through {opaque}: the skip conditions are values, not tests the rule can classify")
        return
    if not seen_unknown:
        ob.violate(fn.qualname, fn.where, "remap_curie_prefixes has no skip for pairs whose old prefix is unknown to the converter", detail="no-unknown-skip")
    if not seen_clash:
        ob.violate(fn.qualname, fn.where, "remap_curie_prefixes has no skip for pairs whose new prefix belongs to another record: two records would claim the same prefix", detail="no-clash-skip")


@obligation("C11-D6", "application order: _order_curie_remapping raises its four documented errors and returns either the plain items (keys and values disjoint) or the layer-by-layer peeling of the remapping graph - each round emits exactly the pairs whose new prefix has no outgoing pair left, removes them, and the accumulated list is returned as built (a re-sort puts a->b before b->c and the second pair is skipped as a clash)", floor=3)
def d6(cx: Cx, ob: Ob) -> None:
    fn = cx.fn(f"{RECON}._order_curie_remapping", ob.id)
    s = cx.summary(fn, ob.id)
    rm = ("param", fn.params[1].name)
    raised = set()
    for o, ctx in s.outcomes():
        if o is not None and o[0] == "raise" and op(o[1]) == "call" and op(o[1][1]) == "cls":
            raised.add(o[1][1][1].rsplit(".", 1)[-1])
    for cls in ("DuplicateKeys", "DuplicateValues", "InconsistentMapping", "CycleDetected"):
        if cls in raised:
            ob.site(f"{fn.where} {fn.qualname}", f"raises {cls}")
        else:
            ob.violate(fn.qualname, fn.where, f"_order_curie_remapping never raises {cls}", detail=f"no-raise:{cls}")

    # every way out with an order has passed the three validations: a shortcut in front of them accepts a remapping
    # the documented errors are there to reject
    DOCUMENTED = ("DuplicateKeys", "DuplicateValues", "InconsistentMapping")
    tests = {}
    for o, ctx in s.outcomes():
        if o is not None and o[0] == "raise" and op(o[1]) == "call" and op(o[1][1]) == "cls":
            c_ = o[1][1][1].rsplit(".", 1)[-1]
            gl = [g for g in ctx.guards if g.kind == "guard"]
            if c_ in DOCUMENTED and gl and not ctx.loops:
                tests.setdefault(c_, set()).add((gl[-1].a, gl[-1].b))
    for t, ctx in s.returns():
        if ctx.loops:
            continue
        have = {(g.a, g.b) for g in ctx.guards if g.kind == "guard"}
        empty = any((a_ == rm and b_ is False) or (op(a_) == "call" and a_[1] == ("builtin", "len") and a_[2] == (rm,)) or any(op(x) == "call" and x[1] == ("builtin", "len") and x[2] == (rm,) for x in subterms(a_)) for a_, b_ in have)
        validation_atoms = {a_ for ts in tests.values() for a_, _ in ts}
        extra = [a_ for a_, _ in have if a_ not in validation_atoms]
        vals_t = ("call", ("attr", rm, "values"), (), ())
        items_t = ("call", ("attr", rm, "items"), (), ())
        keys_t = ("call", ("attr", rm, "keys"), (), ())

        def _reads(a_, what):
            for x in subterms(a_):
                if x in what and x != rm:
                    return True
                if op(x) == "cmp" and x[1] in ("in", "not in") and x[3] == rm and rm in what:
                    return True
                if op(x) == "comp" and any(src == rm for _, src, _ in x[3]) and rm in what:
                    return True
                if op(x) == "call" and x[1] in (("builtin", "set"), ("builtin", "list"), ("builtin", "sorted"), ("builtin", "any"), ("builtin", "all")) and x[2][:1] == (rm,) and rm in what:
                    return True
            return False

        on_keys = any(_reads(a_, (keys_t, items_t, rm)) for a_ in extra)
        on_values = any(_reads(a_, (vals_t, items_t)) for a_ in extra)
        for c_, ts in sorted(tests.items()):
            if any((a_, not b_) in have for a_, b_ in ts):
                continue
            if empty:
                ob.site(f"{where(fn, ctx.path.out[2])} {fn.qualname}", f"shortcut on the size of the remapping in front of the {c_} test")
                continue
            # a shortcut is right when its condition makes the validation vacuous - a statement about values; what IS
            # visible: a condition that does not even look at what the validation examines cannot do that
            looks = {"DuplicateKeys": on_keys, "DuplicateValues": on_values, "InconsistentMapping": on_keys or on_values}[c_]
            if looks:
                ob.undecide(f"_order_curie_remapping returns at line {ctx.path.out[2]} in front of the {c_} validation, on a condition over what that validation examines: whether it makes the validation vacuous is not decided")
                continue
            ob.violate(
                fn.qualname,
                where(fn, ctx.path.out[2]),
                f"_order_curie_remapping returns an order (line {ctx.path.out[2]}) on a path that has not been through the {c_} validation: a remapping that is to be rejected with {c_} is applied instead",
                witness="record a[a1] and {'a': 'c', 'a1': 'b'} with b, c unused: two pairs rename one record, the later one wins, no DuplicateKeys",
                detail=f"unvalidated-return:{c_}",
            )
    # ... a filtered copy of the remapping under its own name: the left-out pairs are neither validated nor ordered;
    # whether they needed to be is a question about values (pairs already satisfied, identity pairs, unknown names)
    for ev0, ctx0 in s.walk():
        if ev0.kind == "bind" and ev0.a == fn.params[1].name and not ctx0.loops and op(ev0.b) == "comp" and ev0.b[1] == "dict" and len(ev0.b[3]) == 1 and ev0.b[3][0][2]:
            ob.undecide(f"the remapping is replaced by a filtered copy of itself at line {ev0.line} (pairs failing `{show(ev0.b[3][0][2][0])[:60]}` are dropped before the validations)")

    def strip_order(t):
        while op(t) == "call" and t[1] in (("builtin", "sorted"), ("builtin", "list"), ("builtin", "tuple")) and t[2]:
            t = t[2][0]
        return t

    items = ("call", ("attr", rm, "items"), (), ())
    builders = []
    for t, ctx in s.returns():
        line = ctx.path.out[2]
        if strip_order(t) == items:
            ob.site(f"{where(fn, line)} {fn.qualname}", "return the items (no chains)")
            # this shortcut is right only when NO key is also a value - judged on the same strings on both sides
            KEYS = [rm, ("call", ("builtin", "set"), (rm,), ()), ("call", ("attr", rm, "keys"), (), ()), ("call", ("builtin", "set"), (("call", ("attr", rm, "keys"), (), ()),), ())]
            VALS = [("call", ("attr", rm, "values"), (), ()), ("call", ("builtin", "set"), (("call", ("attr", rm, "values"), (), ()),), ())]
            from ..rules import guard_atoms

            verdict = None
            for a_, pol_ in guard_atoms(ctx.guards):
                ops_ = None
                if op(a_) == "call" and op(a_[1]) == "attr" and a_[1][2] in ("intersection", "isdisjoint") and len(a_[2]) == 1:
                    ops_ = (a_[1][1], a_[2][0], a_[1][2] == "isdisjoint")
                elif op(a_) == "bin" and a_[1] == "&":
                    ops_ = (a_[2], a_[3], False)
                if ops_ is None:
                    continue
                x_, y_, disj = ops_
                if pol_ != disj:
                    continue  # not the "disjoint" polarity
                if (x_ in KEYS and y_ in VALS) or (x_ in VALS and y_ in KEYS):
                    verdict = "ok"
                elif any(z in KEYS or z in VALS for z in (x_, y_)):
                    verdict = ("mixed", x_, y_)
            if verdict is None:
                ob.undecide("the condition under which _order_curie_remapping skips the layer ordering is not recognised")
            elif verdict != "ok":
                ob.violate(
                    fn.qualname,
                    where(fn, line),
                    f"_order_curie_remapping decides 'no key is also a value' by comparing `{show(verdict[1])[:40]}` with `{show(verdict[2])[:40]}` - raw names on one side, transformed ones on the other: a chain through a synonym is taken for independent pairs and applied in key order",
                    witness="{'x': 'n', 'b': 'x'} with x a synonym of record a: b->x runs first, is skipped as a clash, then x->n drops x",
                    detail="chain-test-mixed",
                )
            continue
        if op(t) == "new" and t[1] == "list":
            builders.append((t, line))
            continue
        inner = [x for x in subterms(t) if op(x) == "new" and x[1] == "list"]
        if inner and op(t) == "call" and t[1] in (("builtin", "sorted"), ("builtin", "reversed")):
            ob.violate(
                fn.qualname,
                where(fn, line),
                f"the peeled layers are re-ordered on return (`{show(t)[:60]}`): within a chain a->b->c the pair b->c must be applied before a->b, a global sort does not keep that",
                witness="{'a': 'b', 'b': 'c', 'c': 'd'}: layers are (c,d), (b,c), (a,b); any sort by (flag, pair) yields (a,b) before (b,c)",
                detail="resorted",
            )
            builders.append((inner[0], line))
            continue
        ob.undecide(f"_order_curie_remapping returns `{show(t)[:60]}`")
    for bt, line in builders:
        muts = [(ev, ctx) for ev, ctx in s.mutations_of(bt)]
        if not muts:
            ob.undecide("the ordering list is never filled")
        for ev, ctx in muts:
            c = ev.a
            if ev.kind != "expr" or op(c) != "call" or callee_name(c) not in ("extend", "append"):
                ob.undecide(f"ordering list changed by `{show(c)[:50]}`")
                continue
            if not any(g.kind in ("while", "loop") for g in ctx.loops):
                ob.undecide("ordering list is filled outside a loop")
                continue
            arg = strip_order(c[2][0]) if c[2] else None
            if op(arg) != "comp" or len(arg[3]) != 1:
                ob.undecide(f"layer `{show(arg)[:60]}` is not a comprehension over the remaining pairs")
                continue
            tgt, it, ifs = arg[3][0]
            okshape = op(tgt) == "tuple" and len(tgt[1]) == 2 and op(it) == "call" and callee_name(it) == "items" and len(ifs) == 1
            if not okshape:
                ob.undecide("layer comprehension not of the form `for k, v in d.items() if <test>`")
                continue
            k, v = tgt[1]
            d = it[1][1]
            test = ifs[0]
            ob.site(f"{where(fn, ev.line)} {fn.qualname}", f"layer: pairs with {show(test)[:60]}")
            if op(d) == "phi":
                # the working copy the layers are peeled from starts as the WHOLE remapping: a pair filtered out of
                # it is in no layer, so it is never applied (and, in a chain, the pair that waits for it runs early)
                for ev0, ctx0 in s.walk():
                    if ev0.kind != "bind" or ev0.a != d[1] or ctx0.loops or op(ev0.b) != "comp" or ev0.b[1] != "dict" or len(ev0.b[3]) != 1:
                        continue
                    tg0, src0, ifs0 = ev0.b[3][0]
                    if len(ifs0) == 1 and op(tg0) == "tuple" and len(tg0[1]) == 2 and ifs0[0] in (("cmp", "!=", tg0[1][0], tg0[1][1]), ("cmp", "!=", tg0[1][1], tg0[1][0])):
                        ob.site(f"{where(fn, ev0.line)} {fn.qualname}", "identity pairs (old == new, literally) are left out of the layers: applying one changes nothing")
                        continue
                    if ifs0 and op(src0) == "call" and callee_name(src0) == "items" and src0[1][1] == rm:
                        others = [m for m, _ in s.mutations_of(bt) if m.line < ev0.line]
                        if others:
                            ob.undecide(f"pairs are filtered out of the working copy (line {ev0.line}) and the ordering list is also filled at line {others[0].line}")
                            continue
                        ob.violate(
                            fn.qualname,
                            where(fn, ev0.line),
                            f"the working copy of the remapping leaves out the pairs failing `{show(ifs0[0])[:70]}`: they are in no layer of the returned order, so remap_curie_prefixes never applies them although they passed every validation",
                            witness="records a[x], b, c with {'a': 'x', 'b': 'b2', 'c': 'b'}: the chain sends the remapping down the slow path and a->x (promote the synonym) is dropped",
                            detail="pairs-left-out",
                        )
            no_out = [
                ("call", ("attr", ("call", ("builtin", "set"), (("call", ("attr", d, "values"), (), ()),), ()), "difference"), (d,), ()),
                ("bin", "-", ("call", ("builtin", "set"), (("call", ("attr", d, "values"), (), ()),), ()), ("call", ("builtin", "set"), (d,), ())),
                ("bin", "-", ("call", ("builtin", "set"), (("call", ("attr", d, "values"), (), ()),), ()), ("call", ("attr", d, "keys"), (), ())),
            ]
            def is_no_out(x):
                """{w for w in d.values() if w not in d}: the set difference written as a comprehension."""
                if x in no_out:
                    return True
                if op(x) == "comp" and x[1] == "set" and len(x[3]) == 1:
                    w, src, cf = x[3][0]
                    return x[2] == w and src == ("call", ("attr", d, "values"), (), ()) and len(cf) == 1 and cf[0] in (("cmp", "not in", w, d), ("cmp", "not in", w, ("call", ("attr", d, "keys"), (), ())))
                return False

            if op(test) == "cmp" and test[1] == "in" and test[2] == v and is_no_out(test[3]):
                pass
            elif op(test) == "cmp" and test[1] == "not in" and test[2] == v and test[3] in (d, ("call", ("attr", d, "keys"), (), ())):
                pass
            elif op(test) == "cmp" and test[1] in ("in", "not in") and test[2] == k:
                ob.violate(fn.qualname, where(fn, ev.line), f"a layer selects pairs by their OLD prefix (`{show(test)[:50]}`): the chain is peeled from the wrong end", detail="layer-by-key")
            else:
                ob.undecide(f"layer test `{show(test)[:60]}` not recognised")


@obligation("C11-X7", "IDX (shared with C01/C02): the lookup tables consulted by the `synonym_to_prefix` / standardize_prefix lookups of remap_curie_prefixes and its validation hold every name of every record, unconditionally and completely, on the constructor path and in _index (converters built incrementally answer like freshly built ones)", floor=4)
def x7(cx: Cx, ob: Ob) -> None:
    from .c01 import check_table_roles

    check_table_roles(cx, ob, ["prefix_map", "synonym_to_prefix"])


@obligation("C11-X6", "LOOKUP None-discipline (shared with C02-D3): lookup results and str|None results are tested with `is None`, never by truthiness - the empty prefix, the empty URI prefix and the empty identifier are legitimate values", floor=40)
def x6(cx: Cx, ob: Ob) -> None:
    from ..rules import scan_none_discipline
    from .c02 import none_scope

    scan_none_discipline(cx, ob, none_scope(cx))


@obligation("C11-X11", "get_record scans the live record list and matches the canonical prefix or any synonym: remap_curie_prefixes renames records in place while it runs, so a lookup relying on sortedness or on an index would miss the clash (shared with C02-D7)", floor=1)
def x11(cx: Cx, ob: Ob) -> None:
    from .c02 import check_get_record

    check_get_record(cx, ob)


@obligation("C11-X12", "def-use lints over the files this property is anchored in (api.py, reconciliation.py): no one-shot iterator (generator expression, map, filter, zip, iter, reversed, enumerate, generator call) bound to a name is consumed twice or inside a loop that starts after its creation; no mutable default argument is mutated, stored or returned; no binary search over a sequence that is not kept sorted; no container resized inside the loop that iterates it; no Iterable parameter consumed twice before it is materialised; itertools.groupby only over input sorted by the grouping key", floor=1)
def x12(cx: Cx, ob: Ob) -> None:
    from ..rules import package_lints

    package_lints(cx, ob, {'api.py', 'reconciliation.py'})


@obligation("C11-X13", "records are copied and serialised whole: no model_dump(exclude_unset=True) / model_fields_set anywhere in the package (in-place merges do not update pydantic's fields_set)", floor=1)
def x13(cx: Cx, ob: Ob) -> None:
    from ..rules import no_fields_set_dependence

    no_fields_set_dependence(cx, ob)


@obligation("C11-X4", "the strict constructor rejects exactly the record sets in which a name is claimed twice: both duplicate detectors compare by exact equality over all pairs, URI clashes first (shared with C04) - a converter the property says is valid must not be refused with an undocumented DuplicatePrefixes", floor=4)
def x4(cx: Cx, ob: Ob) -> None:
    from .c04 import d1 as c04_order, d2 as c04_matrix

    c04_order(cx, ob)
    c04_matrix(cx, ob)


@obligation("C11-D7", "the converter handed out is built AFTER the records were renamed: the working converter constructed from copies at the start, whose records are then changed in place, is not returned as it is (its prefix_map / synonym_to_prefix would still describe the old names)", floor=1)
def d7(cx: Cx, ob: Ob) -> None:
    from ..rules import stale_tables

    stale_tables(cx, ob, [f"{RECON}.remap_curie_prefixes"])


@obligation("C11-D8", "tolerance of unknown names: the reconciliation functions look the names of the user's mapping up with the answering (None-returning) calls only - no `strict=True` / `*_strict` call outside a try that catches its error - since a pair whose old prefix is unknown is skipped, which an exception from a strict lookup turns into an aborted call", floor=1)
def d8(cx: Cx, ob: Ob) -> None:
    from ..rules import where as _where

    for name in ("remap_curie_prefixes", "_order_curie_remapping"):
        fn = cx.model.functions.get(f"{RECON}.{name}")
        if fn is None:
            continue
        s = cx.summary(fn, ob.id, full=True)
        ob.site(f"{fn.where} {fn.qualname}", "scanned for strict lookups")
        seen = set()
        for t, ev, _ in s.all_terms():
            for c in subterms(t):
                if op(c) != "call" or op(c[1]) != "attr":
                    continue
                nm = c[1][2]
                strict_call = nm.endswith("_strict") or (is_const(dict(c[3]).get("strict"), True) and nm in ("standardize_prefix", "standardize_curie", "standardize_uri", "compress", "expand", "parse_curie", "parse_uri", "parse", "expand_pair", "expand_all", "expand_pair_all", "compress_or_standardize", "expand_or_standardize"))
                if not strict_call or ev.cov or (ev.line, nm) in seen:
                    continue
                # only names that come STRAIGHT from the user's mapping: one taken from a local collection may have
                # been tested for membership when it was put there
                mp = {("param", q.name) for q in fn.params[1:]}
                direct = False
                for a_ in c[2][:1]:
                    if a_ in mp:
                        direct = True
                    for ev2, ctx2 in s.walk():
                        if ev2.kind == "loop" and any(y == a_ for y in subterms(ev2.a) if isinstance(ev2.a, tuple)) or (ev2.kind == "loop" and ev2.a == a_):
                            if any(y in mp for y in subterms(ev2.b)):
                                direct = True
                    for t2, _, _ in s.all_terms():
                        for x2 in subterms(t2):
                            if op(x2) == "comp" and any(c is y for y in subterms(x2[2])) or (op(x2) == "comp" and any(y == c for y in subterms(x2[2]))):
                                if any(any(y in mp for y in subterms(src)) for _, src, _ in x2[3]):
                                    direct = True
                if not direct:
                    continue
                seen.add((ev.line, nm))
                ob.violate(
                    fn.qualname,
                    _where(fn, ev.line),
                    f"{name} calls `{show(c)[:60]}` - the raising variant - on a name from the user's mapping, outside any try: for a name the converter does not know the whole call aborts with a standardisation / conversion error instead of leaving that entry out",
                    witness="a mapping with one unknown name next to applicable ones: PrefixStandardizationError, nothing is applied",
                    detail=f"strict-lookup:{nm}",
                )


@obligation("C11-X3", "no memoised derived values (cached_property / lru_cache) on Record, Reference or Converter objects (shared with C05): remap_curie_prefixes renames deep COPIES of the records in place - a cached view on the record is copied along and describes the record under its old name, so the converter it returns is indexed under names it no longer has", floor=3)
def x3(cx: Cx, ob: Ob) -> None:
    from ..rules import cached_derivations

    cached_derivations(cx, ob)


@obligation("C11-X1", "OWN (shared with C10): remap_curie_prefixes reads its input through synonym_to_prefix and renames copies of its records - the two agree only while no other converter holds the SAME Record objects (a merge into that one adds names to the input's records behind its tables): no function stores into, mutates or captures the Record objects of a converter it is given", floor=6)
def x1(cx: Cx, ob: Ob) -> None:
    from .c10 import check_no_aliasing

    check_no_aliasing(cx, ob)
